from vlib.runner import Tie
from vlib import core

ID = "C62"
LEVEL = "proof"
DESIGN_REF = "DESIGN.md section 5, C62"
PROP_FILES = ["props/Properties_C62.v"]
RULE = ("cases: kp <keypool size 1..5> followed by 4-30 wallet operations on a real descriptor CWallet over a real SQLite file: "
        "new receiving / change addresses of the four output types, ReserveDestination reserve/keep/return, TopUp(n), payments seen to "
        "look-ahead indices (MarkUnusedAddresses), clean restarts and crashes (file copied as it is and loaded by CWallet::LoadExisting), "
        "with per-operation fault strings that make chosen TxnBegin / WriteKey / TxnCommit calls fail; aimed sequences put a failing "
        "descriptor write right before a crash. non-trivial = at least two address requests; distinct = distinct case lines")
ASSUMPTIONS = ["address derivation is injective on (descriptor, index): premise of C62_no_address_handed_out_twice; the driver checks it on the "
               "64 first indices of the eight descriptors of every case (table built by independent descriptor expansion)",
               "a committed SQLite transaction / autocommitted statement is durable and atomic (SQLite's own recovery and fsync behaviour are runtime); "
               "a crash is modelled as: the database holds exactly the writes that returned success",
               "fewer than 2^31 addresses per descriptor: where an int32 counter would overflow (UB in C++) the model issues nothing (OUb)",
               "standard single-key descriptors whose parent xpub is cached (what CWallet::CreateNew sets up): TopUp writes no cache records after creation "
               "(the driver counts the database calls of every operation and the model predicts the count)"]
TRUSTED = ["Coq 8.16.1 kernel (coqc)", "extraction: ExtrOcamlBasic only; ocaml/conv.ml + keypool_driver.ml glue",
           "tie/drivers/keypool_drv.cpp + walletdb_common.h: real CWallet / DescriptorScriptPubKeyMan / SQLiteDatabase; the batch's mutating entry points are "
           "wrapped to inject failures (return false without executing, as SQLiteBatch does when sqlite3_step fails); private members read through "
           "#define private public"]

TYPES = [0, 1, 2, 3]


def bits(rng, f, n):
    return "".join("0" if rng.random() < f else "1" for _ in range(n))


def rand_case(rng, nops, f):
    kp = rng.choice([1, 1, 2, 2, 3, 5])
    hot = rng.choice(TYPES)
    ops = []
    live = []
    nid = 0
    for _ in range(nops):
        t = hot if rng.random() < 0.75 else rng.choice(TYPES)
        r = rng.random()
        b = (":" + bits(rng, f, rng.choice([1, 2, 4, 4, 5]))) if f > 0 and rng.random() < 0.7 else ""
        if r < 0.28:
            ops.append("new:%d%s" % (t, b))
        elif r < 0.40:
            ops.append("chg:%d%s" % (t, b))
        elif r < 0.52:
            ops.append("res:%d:%d:%d%s" % (nid, t, rng.choice([0, 1, 1]), b)); live.append(nid); nid += 1
        elif r < 0.60:
            if live and rng.random() < 0.9:
                ops.append("keep:%d" % live.pop(rng.randrange(len(live))))
            else:
                ops.append("keep:%d" % rng.randrange(0, nid + 1))
        elif r < 0.70:
            bb = (":" + bits(rng, f, 1)) if f > 0 and rng.random() < 0.5 else ""
            if live and rng.random() < 0.9:
                ops.append("ret:%d%s" % (live.pop(rng.randrange(len(live))), bb))
            else:
                ops.append("ret:%d%s" % (rng.randrange(0, nid + 1), bb))
        elif r < 0.76:
            ops.append("top:%d:%d%s" % (rng.choice([t, t + 4]), rng.choice([0, 0, 1, 2, kp, kp + 1, 7]), b[:4]))
        elif r < 0.84:
            ops.append("used:%d:%d%s" % (rng.choice([t, t + 4]), rng.randrange(0, kp + 8), b[:4]))
        elif r < 0.92:
            ops.append("reload"); live = []
        else:
            ops.append("crash"); live = []
    return "kp %d %s" % (kp, " ".join(ops))


def aimed(rng):
    """A failing call right before a restart, then the same request again."""
    kp = rng.choice([1, 2, 3])
    t = rng.choice(TYPES)
    pre = ["new:%d" % t for _ in range(rng.choice([0, 1, 2, 3]))]
    restart = rng.choice(["crash", "reload"])
    k = rng.random()
    if k < 0.3:
        mid = ["new:%d:%s" % (t, rng.choice(["1110", "0", "00", "1100", "10", "1011"]))]
        post = ["new:%d" % t]
    elif k < 0.5:
        mid = ["chg:%d:%s" % (t, rng.choice(["1110", "00", "1010"]))]
        post = ["chg:%d" % t]
    elif k < 0.7:
        mid = ["res:0:%d:1:%s" % (t, rng.choice(["1110", "00", "1110"])), "keep:0"]
        post = ["chg:%d" % t]
    elif k < 0.85:
        mid = ["res:0:%d:0" % t, "res:1:%d:0" % t, rng.choice(["ret:1:0", "ret:0:0", "ret:1"]), "new:%d" % t, rng.choice(["keep:0", "ret:0:0", "ret:0"])]
        post = ["new:%d" % t, "new:%d" % t]
    else:
        mid = ["used:%d:%d:%s" % (t, rng.randrange(0, kp + 3), rng.choice(["101", "0", "110", "111"]))]
        post = ["new:%d" % t]
    more = [rng.choice(["new:%d" % t, "chg:%d" % t, "top:%d:0" % t]) for _ in range(rng.choice([0, 0, 1, 2]))]
    return "kp %d %s" % (kp, " ".join(pre + mid + [restart] + post + more))


def gen(rng, tier):
    quick = tier == "quick"
    cases = []
    for _ in range(200 if quick else 5000):
        cases.append(aimed(rng))
    for _ in range(350 if quick else 12000):
        cases.append(rand_case(rng, rng.randrange(4, 30), rng.choice([0.0, 0.0, 0.15, 0.4])))
    seen = set()
    out = []
    for c in cases:
        if c not in seen:
            seen.add(c); out.append(c)
    return out


def classify(c):
    ops = c.split()[2:]
    fault = any(":" in o and set(o.rsplit(":", 1)[1]) <= {"0", "1"} and "0" in o.rsplit(":", 1)[1] and o.count(":") >= (2 if o[:3] in ("new", "chg", "ret") else 3) for o in ops)
    restart = any(o in ("reload", "crash") for o in ops)
    return ("faults" if fault else "nofault") + ("+restart" if restart else "")


def nontrivial(c):
    return sum(1 for o in c.split()[2:] if o[:3] in ("new", "chg", "res")) >= 2


def shrink(c):
    w = c.split()
    head, ops = w[:2], w[2:]
    for i in range(len(ops)):
        yield " ".join(head + ops[:i] + ops[i + 1:])
    for i, o in enumerate(ops):
        f = o.split(":")
        if len(f) >= 2 and set(f[-1]) <= {"0", "1"} and "0" in f[-1] and (len(f) > 2 or False):
            # drop the fault string, or heal one failing bit
            yield " ".join(head + ops[:i] + [":".join(f[:-1])] + ops[i + 1:])
    if head[1] != "1":
        yield " ".join([head[0], "1"] + ops)


TIES = [Tie("keypool_ops", "tie/drivers/keypool_drv.cpp", "Extract_KeyPool.v", "keypool_driver.ml", gen,
            predicate="driver", nontrivial=nontrivial, classify=classify, shrink=shrink)]

LEVEL_TEXT = ("Coq theorems over ALL sequences of wallet operations (new receiving/change addresses of every descriptor, reservations kept or "
              "returned, top-ups, payments to look-ahead addresses, clean restarts, crashes) with EVERY database call failing or succeeding "
              "arbitrarily: no (descriptor, index) - hence, with injective derivation, no address - is handed out twice; the invariant behind it "
              "(every handed-out index is below the in-memory and the persisted next_index at every point) is a theorem of its own; the TopUpWithDB "
              "assert is unreachable, the 'keypool ran out' branch is dead, counters stay int32. The executable transcription is tied to the real "
              "CWallet on a real SQLite file with injected failing calls: returned (descriptor, index), error kind, number of database calls and the "
              "in-memory and on-disk counters of all eight descriptors are compared after every case.")
LEVEL_NOTE = ("Trusted: Coq kernel, extraction + driver glue, the failure-injection wrapper. Premises: injective address derivation (checked on the "
              "values in play by the driver), durability/atomicity of successful SQLite statements (runtime), < 2^31 indices per descriptor. "
              "History: the check found that GetNewDestination ignored the result of the WriteDescriptor that persists next_index (address repeated "
              "after a restart); fixed in /repo e8f1dc6; the old transcription is kept as get_new_gen false with the theorem "
              "C62_unchecked_write_would_repeat, and `holds` still classifies that failure (unchecked-write). Remaining observation, outside the "
              "statement: when TxnBegin of the top-up fails, addresses at/after range_end are handed out which the wallet does not watch until the "
              "next successful top-up (theorem C62_failed_begin_hands_out_unwatched; output suffix '!').")
TECHNIQUE = "Coq proof (invariant over an oracle-driven state machine, induction over operation sequences) + differential correspondence with fault injection"
