from vlib.runner import Tie
from vlib import core

ID = "C61"
LEVEL = "proof"
DESIGN_REF = "DESIGN.md section 5, C61"
PROP_FILES = ["props/Properties_C61.v"]
RULE = ("cases: operation scripts of 1..60 operations. prevector<N,T> for N in {1,2,4,8,16} (int) and 36 (unsigned char = "
        "CScriptBase) on a pair of vectors: push/pop/insert(1, n, range)/erase(1, range)/resize/reserve/shrink_to_fit/clear/"
        "assign/operator[]/resize_uninitialized/swap/copy+move assign/copy+move/fill/range/size constructors, sizes steered "
        "to N-1, N, N+1 and to the growth points; VecDeque<int> on a pair of deques: push/pop at both ends, resize, reserve, "
        "shrink_to_fit, clear, operator[], swap, copy/move assign and construct, steered to wrap-around and to size == capacity; "
        "bitdeque<B> for B in {1,3,8,128} on a pair: push/pop both ends, resize, clear, assign(n,v)/assign(range), insert(1, n, "
        "range), erase(1, range, empty range), operator[], swap, copy-assign, sizes steered to k*B-1, k*B, k*B+1; "
        "PoolResource<MAXB,ALIGN>(chunk) for (128,8) (8,8) (64,16) (144,8) (32,1) (16,4) and chunk sizes from MAXB to 4*MAXB (also "
        "not multiples of the alignment): Allocate(bytes, alignment)/Deallocate scripts over few size classes (0, 1, EA-1, EA, EA+1, "
        "MAXB-1, MAXB, MAXB+1, over-aligned), LIFO/FIFO/random frees, chunk exhaustion with and without leftover. "
        "After every operation both drivers print the internal observables (capacity; capacity+m_offset; block count+both pads; "
        "returned address relative to its chunk + NumAllocatedChunks + unused bytes + every free list) and all elements; the "
        "predicate compares the elements with the std::vector/std::deque semantics of the script, and for the pool checks "
        "alignment, chunk containment, non-overlap with every live allocation and the exact accounting equation on the addresses "
        "the implementation returned. A crashing implementation yields the result CRASH for that case. Non-trivial = at least 3 "
        "operations; distinct = distinct case lines.")
ASSUMPTIONS = ["element counts stay below 2^31 (prevector's uint32_t size arithmetic and size_t arithmetic are modelled in nat, no wrap)",
               "memcpy/memmove/realloc/std::fill_n/std::allocator/std::move/std::move_backward/std::deque<std::bitset>/::operator new are "
               "modelled by their contracts; uninitialised memory is one arbitrary value (the theorems hold for every such value "
               "and never expose it)",
               "pool theorems carry the premises: MAXB mod ELEM_ALIGN = 0 (static_assert), ELEM_ALIGN <= MAXB (not asserted in pool.h), "
               "::operator new returns ELEM_ALIGN-aligned chunks that do not overlap; alignof(ListNode) = 8; every Deallocate returns a "
               "live allocation with the bytes/alignment it was requested with",
               "bitdeque: std::move(first,last,first) (self-move, done by erase(p,p) and insert(p,0,v)) is treated as the no-op it is in "
               "every standard library although [alg.move] formally excludes it",
               "the Gallina models are hand transcriptions of prevector.h / vecdeque.h / bitdeque.h / pool.h, tied by the correspondence "
               "on the listed cases",
               "C++ memory safety beyond index arithmetic (aliasing, lifetime, exception safety) is not claimed",
               "moved-from VecDeque: the specification uses the documented swap behaviour"]
TRUSTED = ["Coq 8.16.1 kernel (coqc; no native_compute)",
           "extraction: ExtrOcamlBasic only; ocaml/conv.ml + cont_driver.ml glue (mnemonic -> opcode table, printing/parsing)",
           "tie/drivers/cont_drv.cpp runs the scripts on the real containers and prints size/capacity/elements; private fields "
           "(m_offset, m_deque.size(), m_pad_begin/end) are read by compiling the two headers with `#define private public` / "
           "`#define class struct`; the pool internals through a driver-defined `PoolResourceTester` (the friend class pool.h names)"]

VALS = lambda rng: rng.randrange(0, 256)


def vlist(rng, n):
    return ",".join(str(VALS(rng)) for _ in range(n)) if n else "-"


# ---------------------------------------------------------------------------------------------------
def gen_pv_script(rng, N, length):
    a, b = [], []
    ops = []
    targets = [0, 1, max(0, N - 1), N, N + 1, N + 2, 2 * N + 1, (N + 1) + (N + 1) // 2, (N + 1) + (N + 1) // 2 + 1]
    for _ in range(length):
        r = rng.random()
        sz = len(a)
        if r < 0.18:
            v = VALS(rng); ops.append("pb:%d" % v); a = a + [v]
        elif r < 0.24 and sz:
            ops.append("pop"); a = a[:-1]
        elif r < 0.32:
            p = rng.choice([0, sz, rng.randrange(0, sz + 1)]); v = VALS(rng)
            ops.append("ins:%d:%d" % (p, v)); a = a[:p] + [v] + a[p:]
        elif r < 0.38:
            p = rng.randrange(0, sz + 1); n = rng.choice([0, 1, 2, 3, max(0, N - sz), max(0, N + 1 - sz)]); v = VALS(rng)
            ops.append("insn:%d:%d:%d" % (p, n, v)); a = a[:p] + [v] * n + a[p:]
        elif r < 0.44:
            p = rng.randrange(0, sz + 1); n = rng.choice([0, 1, 2, 4, max(0, N - sz), max(0, N + 1 - sz)])
            l = [VALS(rng) for _ in range(n)]
            ops.append("insr:%d:%s" % (p, ",".join(map(str, l)) if l else "-")); a = a[:p] + l + a[p:]
        elif r < 0.50 and sz:
            p = rng.randrange(0, sz); ops.append("er:%d" % p); a = a[:p] + a[p + 1:]
        elif r < 0.56:
            x = rng.randrange(0, sz + 1); y = rng.randrange(x, sz + 1)
            if rng.random() < 0.3 and sz > N:
                y = sz; x = rng.choice([N - 1, N, N + 1]) if N >= 1 else 0
                x = max(0, min(x, y))
            ops.append("err:%d:%d" % (x, y)); a = a[:x] + a[y:]
        elif r < 0.64:
            n = rng.choice(targets + [rng.randrange(0, 3 * N + 4)])
            ops.append("rs:%d" % n); a = a[:n] + [0] * (n - len(a))
        elif r < 0.68:
            ops.append("rv:%d" % rng.choice(targets + [rng.randrange(0, 4 * N + 8)]))
        elif r < 0.73:
            ops.append("stf")
        elif r < 0.75:
            ops.append("clr"); a = []
        elif r < 0.79:
            n = rng.choice(targets); v = VALS(rng); ops.append("asg:%d:%d" % (n, v)); a = [v] * n
        elif r < 0.82:
            n = rng.choice(targets); l = [VALS(rng) for _ in range(n)]
            ops.append("asr:%s" % (",".join(map(str, l)) if l else "-")); a = l
        elif r < 0.86 and sz:
            p = rng.randrange(0, sz); v = VALS(rng); ops.append("up:%d:%d" % (p, v)); a = a[:p] + [v] + a[p + 1:]
        elif r < 0.89:
            n = rng.choice(targets + [sz // 2, sz + 3])
            l = [VALS(rng) for _ in range(max(0, n - sz))]
            ops.append("ru:%d:%s" % (n, ",".join(map(str, l)) if l else "-")); a = a[:n] + l
        elif r < 0.92:
            ops.append("swap"); a, b = b, a
        elif r < 0.94:
            ops.append("mova"); a, b = b, []
        elif r < 0.96:
            ops.append("cpa"); a = list(b)
        elif r < 0.97:
            ops.append("cpc"); b = list(a)
        elif r < 0.98:
            ops.append("movc"); b, a = a, []
        elif r < 0.99:
            n = rng.choice(targets); v = VALS(rng); ops.append("cf:%d:%d" % (n, v)); a = [v] * n
        elif r < 0.995:
            n = rng.choice(targets); l = [VALS(rng) for _ in range(n)]
            ops.append("cr:%s" % (",".join(map(str, l)) if l else "-")); a = l
        else:
            n = rng.choice(targets); ops.append("cn:%d" % n); a = [0] * n
    return ops


def gen_pv(rng, tier):
    cases = []
    nper = 60 if tier == "quick" else 1500
    for N in (1, 2, 4, 8, 16, 36):
        # deterministic boundary scripts: fill to N-1, N, N+1 and come back
        for k in (N - 1, N, N + 1, N + 2):
            if k < 0:
                continue
            ops = ["pb:%d" % (i % 256) for i in range(k)]
            cases.append("pv %d %s stf pop stf" % (N, " ".join(ops)) if ops else "pv %d stf" % N)
            cases.append("pv %d rs:%d ins:0:7 er:0 stf cpc swap mova" % (N, k))
            cases.append("pv %d asg:%d:5 err:0:1 stf" % (N, max(1, k)))
        for _ in range(nper):
            cases.append("pv %d %s" % (N, " ".join(gen_pv_script(rng, N, rng.randrange(1, 61)))))
    return cases


# ---------------------------------------------------------------------------------------------------
def gen_vd_script(rng, length):
    a, b = [], []
    ops = []
    mode = rng.choice(["mix", "rotate", "grow", "mix"])
    for _ in range(length):
        r = rng.random()
        sz = len(a)
        if mode == "rotate" and sz >= 2 and r < 0.6:
            # walk the window around the ring: pop at one end, push at the other
            if rng.random() < 0.5:
                v = VALS(rng); ops += ["popf", "pb:%d" % v]; a = a[1:] + [v]
            else:
                v = VALS(rng); ops += ["popb", "pf:%d" % v]; a = [v] + a[:-1]
            continue
        if r < 0.2 or (mode == "grow" and r < 0.45):
            v = VALS(rng); ops.append("pb:%d" % v); a = a + [v]
        elif r < 0.4 or (mode == "grow" and r < 0.6):
            v = VALS(rng); ops.append("pf:%d" % v); a = [v] + a
        elif r < 0.5 and sz:
            ops.append("popb"); a = a[:-1]
        elif r < 0.6 and sz:
            ops.append("popf"); a = a[1:]
        elif r < 0.67:
            n = rng.choice([0, 1, sz, sz + 1, sz + 2, max(0, sz - 1), rng.randrange(0, 20)])
            ops.append("rs:%d" % n); a = a[:n] + [0] * (n - len(a))
        elif r < 0.69:
            ops.append("clr"); a = []
        elif r < 0.74:
            ops.append("rv:%d" % rng.choice([0, sz, sz + 1, sz + 3, rng.randrange(0, 24)]))
        elif r < 0.79:
            ops.append("stf")
        elif r < 0.87 and sz:
            i = rng.choice([0, sz - 1, rng.randrange(0, sz)]); v = VALS(rng)
            ops.append("set:%d:%d" % (i, v)); a = a[:i] + [v] + a[i + 1:]
        elif r < 0.91:
            ops.append("swap"); a, b = b, a
        elif r < 0.93:
            ops.append("mova"); a, b = b, a
        elif r < 0.96:
            ops.append("cpa"); a = list(b)
        elif r < 0.98:
            ops.append("cpc"); b = list(a)
        else:
            ops.append("movc"); b, a = a, []
    return ops


def gen_vd(rng, tier):
    cases = ["vd pb:1 pb:2 popf pb:3 pf:7 popf popf popf",
             "vd pf:1 pf:2 pf:3 popb popb pf:4 pf:5 set:0:9 set:2:8 stf",
             "vd rs:3 popf popf pb:5 pb:6 rs:5 rs:2 rv:9 cpc swap"]
    n = 350 if tier == "quick" else 9000
    for _ in range(n):
        cases.append("vd " + " ".join(gen_vd_script(rng, rng.randrange(1, 61))))
    return cases


# ---------------------------------------------------------------------------------------------------
def blist(rng, n):
    return ",".join(str(rng.randrange(0, 2)) for _ in range(n)) if n else "-"


def gen_bd_script(rng, B, length):
    a, b = [], []
    ops = []
    bounds = [0, 1, B - 1, B, B + 1, 2 * B - 1, 2 * B, 2 * B + 1, 3 * B]
    bounds = [x for x in bounds if x >= 0]
    for _ in range(length):
        r = rng.random()
        sz = len(a)
        v = rng.randrange(0, 2)
        if r < 0.14:
            ops.append("pb:%d" % v); a = a + [v]
        elif r < 0.28:
            ops.append("pf:%d" % v); a = [v] + a
        elif r < 0.36 and sz:
            ops.append("popb"); a = a[:-1]
        elif r < 0.44 and sz:
            ops.append("popf"); a = a[1:]
        elif r < 0.52:
            n = rng.choice(bounds + [sz, sz + 1, max(0, sz - 1), max(0, sz - B), sz + B, rng.randrange(0, 3 * B + 3)])
            ops.append("rs:%d" % n); a = a[:n] + [0] * (n - len(a))
        elif r < 0.54:
            ops.append("clr"); a = []
        elif r < 0.59:
            n = rng.choice(bounds + [rng.randrange(0, 3 * B + 3)])
            ops.append("asg:%d:%d" % (n, v)); a = [v] * n
        elif r < 0.63:
            n = rng.choice(bounds + [rng.randrange(0, 2 * B + 3)])
            l = [rng.randrange(0, 2) for _ in range(n)]
            ops.append("asr:%s" % (",".join(map(str, l)) if l else "-")); a = l
        elif r < 0.69:
            p = rng.choice([0, sz, sz // 2, rng.randrange(0, sz + 1)])
            ops.append("ins:%d:%d" % (p, v)); a = a[:p] + [v] + a[p:]
        elif r < 0.75:
            p = rng.choice([0, sz, sz // 2, rng.randrange(0, sz + 1)])
            n = rng.choice([0, 1, 2, B - 1, B, B + 1, rng.randrange(0, 2 * B + 2)]); n = max(0, n)
            ops.append("insn:%d:%d:%d" % (p, n, v)); a = a[:p] + [v] * n + a[p:]
        elif r < 0.80:
            p = rng.choice([0, sz, sz // 2, rng.randrange(0, sz + 1)])
            n = max(0, rng.choice([0, 1, 3, B, B + 1, rng.randrange(0, B + 3)]))
            l = [rng.randrange(0, 2) for _ in range(n)]
            ops.append("insr:%d:%s" % (p, ",".join(map(str, l)) if l else "-")); a = a[:p] + l + a[p:]
        elif r < 0.85 and sz:
            p = rng.choice([0, sz - 1, rng.randrange(0, sz)]); ops.append("er:%d" % p); a = a[:p] + a[p + 1:]
        elif r < 0.91:
            x = rng.choice([0, sz // 2, rng.randrange(0, sz + 1)]); y = rng.choice([x, sz, min(sz, x + B), rng.randrange(x, sz + 1)])
            ops.append("err:%d:%d" % (x, y)); a = a[:x] + a[y:]
        elif r < 0.96 and sz:
            i = rng.choice([0, sz - 1, rng.randrange(0, sz)]); ops.append("set:%d:%d" % (i, v)); a = a[:i] + [v] + a[i + 1:]
        elif r < 0.98:
            ops.append("swap"); a, b = b, a
        else:
            ops.append("cpa"); a = list(b)
    return ops


def gen_bd(rng, tier):
    cases = []
    nper = 110 if tier == "quick" else 2500
    for B in (1, 3, 8, 128):
        cases.append("bd %d pb:1 popf pb:1 pf:1 popb popb" % B)
        cases.append("bd %d asg:%d:1 popf rs:%d rs:%d err:1:1 insn:1:0:1" % (B, 2 * B, B, 2 * B + 1))
        for _ in range(nper if B != 128 else nper // 2):
            cases.append("bd %d %s" % (B, " ".join(gen_bd_script(rng, B, rng.randrange(1, 61 if B != 128 else 31)))))
    return cases


# ---------------------------------------------------------------------------------------------------
POOL_CONFIGS = [(128, 8), (8, 8), (64, 16), (144, 8), (32, 1), (16, 4)]


def gen_pool_script(rng, maxb, align, length):
    ea = max(8, align)
    nlive = 0
    ops = []
    # few size classes so that free lists get reused; boundary sizes of the classes and of the pool limit
    sizes = [0, 1, ea - 1, ea, ea + 1, 2 * ea, maxb - ea + 1, maxb - 1, maxb, maxb + 1, 3 * maxb]
    sizes = [x for x in sizes if x >= 0]
    favourite = [rng.choice(sizes[:9]) for _ in range(rng.randrange(1, 4))]
    mode = rng.choice(["mix", "fill", "lifo", "fifo"])
    for _ in range(length):
        r = rng.random()
        if nlive and ((mode == "mix" and r < 0.4) or (mode in ("lifo", "fifo") and r < 0.45) or (mode == "fill" and r < 0.15)):
            if mode == "lifo":
                i = nlive - 1
            elif mode == "fifo":
                i = 0
            else:
                i = rng.randrange(0, nlive)
            ops.append("f:%d" % i); nlive -= 1
        else:
            b = rng.choice(favourite) if rng.random() < 0.7 else rng.choice(sizes + [rng.randrange(0, maxb + 2)])
            al = rng.choice([1, 2, 4, 8, 8, 8, ea, ea, 2 * ea, 64])
            ops.append("a:%d:%d" % (b, al)); nlive += 1
    return ops


def gen_pool(rng, tier):
    cases = []
    nper = 60 if tier == "quick" else 1500
    for (maxb, align) in POOL_CONFIGS:
        ea = max(8, align)
        # exhaust a chunk exactly / with a leftover that must go to a free list
        cases.append("pool %d %d %d %s" % (maxb, align, maxb, " ".join(["a:%d:1" % ea] * (maxb // ea + 2))))
        cases.append("pool %d %d %d a:%d:1 a:%d:1 a:%d:1 f:0 f:0 f:0 a:%d:1 a:%d:1" % (maxb, align, maxb + ea, maxb - ea + 1, ea, maxb, ea, maxb))
        for _ in range(nper):
            chunk = rng.choice([maxb, maxb + 1, maxb + ea, 2 * maxb, 2 * maxb + ea - 1, rng.randrange(maxb, 4 * maxb + 1)])
            cases.append("pool %d %d %d %s" % (maxb, align, chunk, " ".join(gen_pool_script(rng, maxb, align, rng.randrange(1, 61)))))
    return cases


# ---------------------------------------------------------------------------------------------------
def shrink_ops(nfixed):
    """drop one operation at a time (later operations first), keeping the first nfixed tokens"""
    def f(case):
        w = case.split(" ")
        head, ops = w[:nfixed], w[nfixed:]
        for i in range(len(ops) - 1, -1, -1):
            if len(ops) > 1:
                yield " ".join(head + ops[:i] + ops[i + 1:])
    return f


def nontrivial(c):
    return len(c.split(" ")) >= 5


def classify(c):
    w = c.split(" ")
    return w[0] + (w[1] if w[0] in ("pv", "bd") else "") + (("%s/%s" % (w[1], w[2])) if w[0] == "pool" else "")


TIES = [Tie("prevector", "tie/drivers/cont_drv.cpp", "Extract_Cont.v", "cont_driver.ml", gen_pv,
            predicate="driver", nontrivial=nontrivial, classify=classify, shrink=shrink_ops(2)),
        Tie("vecdeque", "tie/drivers/cont_drv.cpp", "Extract_Cont.v", "cont_driver.ml", gen_vd,
            predicate="driver", nontrivial=nontrivial, classify=classify, shrink=shrink_ops(1)),
        Tie("bitdeque", "tie/drivers/cont_drv.cpp", "Extract_Cont.v", "cont_driver.ml", gen_bd,
            predicate="driver", nontrivial=nontrivial, classify=classify, shrink=shrink_ops(2)),
        Tie("pool", "tie/drivers/cont_drv.cpp", "Extract_Cont.v", "cont_driver.ml", gen_pool,
            predicate="driver", nontrivial=lambda c: len(c.split(" ")) >= 7, classify=classify, shrink=shrink_ops(4))]

LEVEL_TEXT = ("Coq theorems about models of the REPRESENTATIONS: prevector (raw _size encoding + inline array + heap array + capacity, "
              "every element type, every N), VecDeque (ring buffer + offset + size + capacity), bitdeque (all block bits + block count + "
              "front/back pad, every block size B>0, including a transcription of Iterator::operator+=) and PoolResource (chunk list, "
              "per-class free lists, bump pointer over integer addresses). For every operation script (induction over all scripts from "
              "per-operation refinement lemmas): the representation invariant is preserved, every slot access / free-list index is in "
              "bounds, and after every operation the container holds exactly the std::vector / std::deque / std::deque<bool> contents; "
              "for the pool: live allocations are pairwise disjoint, aligned, inside chunks and disjoint from free-listed blocks, "
              "blocks are reused only through the free list of their own size class, and live + free-listed + unused bytes = "
              "chunks * chunk size. Models tied to the four headers by differential execution of scripts comparing contents AND "
              "internal observables after every operation.")
LEVEL_NOTE = ("Trusted: Coq kernel; extraction and OCaml/C++ glue; the models are hand transcriptions checked by correspondence, not by a "
              "semantics of C++. libc/std primitives are modelled by their contracts. Integer widths of the size fields are not modelled "
              "(sizes < 2^31). Pool theorems are relative to the stated premises on ::operator new and the template parameters.")
TECHNIQUE = "Coq proof (data refinement, induction over operation scripts) + differential correspondence with shrinking"
