import re
from vlib.runner import Tie
from vlib import core

ID = "C42"
LEVEL = "proof"
DESIGN_REF = "DESIGN.md section 5, C42"
PROP_FILES = ["props/Properties_C42.v"]
RULE = ("ops: kp 1 followed by 2-9 operations on a real descriptor CWallet over a real SQLite file: EncryptWallet, Lock, Unlock(passphrase), "
        "ChangeWalletPassphrase, clean restarts and crashes, with passphrases empty / short / 300 bytes / non-ASCII / containing NUL, per-operation "
        "fault strings making one chosen TxnBegin / WriteKey / EraseKey / TxnCommit fail, and `@j:` snapshots of the file (+journal) before the j-th "
        "database call of an encryption, loaded afterwards; after every operation the driver prints encrypted/locked, the numbers of plaintext-key, "
        "crypted-key and master-key records, the occurrences of the original plaintext secret in the raw bytes of the wallet file, how many "
        "descriptors can produce a private key, and whether the original descriptors give back exactly their original private keys. "
        "bytes: CCrypter::SetKeyFromPassphrase (1-3 rounds, passphrase lengths around the SHA-512 block boundaries, bad salt sizes), EncryptSecret / "
        "DecryptSecret / round trips (secret lengths 0..48, bad key sizes). non-trivial = an encryption is attempted / a non-failing crypter call")
ASSUMPTIONS = ["cipher round trip dec k iv (enc k iv p) = Some p (premise of the wallet-level theorems; proved for the AES-256-CBC model in "
               "C42_real_cipher_round_trip); nothing is assumed about decryption with a wrong key: Unlock's soundness theorem states the key check exactly",
               "a committed SQLite transaction is atomic and durable (the model's database is a map replaced at commit); crash = process death",
               "SQLite free pages / journal remnants between the encryption commit and Rewrite() are not modelled (observed by the raw-file scan: a crash in that "
               "window leaves a fully encrypted wallet whose file still contains plaintext key bytes; named residue)",
               "the wallet-level correspondence runs the model over an ideal cipher (ciphertext = key, iv, plaintext side by side), the byte-level one over the "
               "SHA-512 / AES-256-CBC models; EC public key derivation is abstract (c_pub)",
               "one private key per descriptor (what CWallet::CreateNew sets up); key derivation iterations fixed by a mocked clock"]
TRUSTED = ["Coq 8.16.1 kernel (coqc)", "extraction: ExtrOcamlBasic only; ocaml/conv.ml + walletcrypt_driver.ml glue",
           "tie/drivers/walletcrypt_drv.cpp + walletdb_common.h: real CWallet / CCrypter / SQLiteDatabase with failure injection; SIGABRT from EncryptWallet's "
           "assert(false) is caught (siglongjmp), the wallet object abandoned and a byte copy of the file loaded, to observe what a dead process leaves on disk",
           "the Crypto family's SHA-512 and AES-256-CBC models and their round-trip theorem (C49)"]

PASSES = ["-", "61", "6162", "7a", "c3a9e4b8ade69687", "610062", "41" * 300, "00", "ff" * 17]


def gen_ops(rng, tier):
    cases = []
    n = 70 if tier == "quick" else 2500
    for _ in range(n):
        p = rng.choice(PASSES)
        q = rng.choice([x for x in PASSES if x != p])
        ops = []
        r = rng.random()
        if r < 0.25:
            # one failing call somewhere in the encryption
            k = rng.choice([0, 1, 2, 3, 4, 9, 16, 17, 18, 18, 1, 2, 3])
            ops.append("enc:%s:%s" % (p, "1" * k + "0"))
            ops += rng.sample(["reload", "unlock:" + p, "enc:" + p, "lock", "unlock:" + q], rng.choice([1, 2, 3]))
            if rng.random() < 0.5:
                ops += ["enc:" + p, "unlock:" + p, "reload", "unlock:" + p]
        elif r < 0.45:
            j = rng.choice([0, 1, 2, 5, 17, 18, 19, 20, 40, 84, 85, 86, 120])
            ops.append("@%d:enc:%s" % (j, p))
            ops += rng.sample(["unlock:" + p, "lock", "reload", "unlock:" + q], 2)
        else:
            if rng.random() < 0.2:
                ops += rng.sample(["lock", "unlock:" + p, "chpass:%s:%s" % (p, q), "reload"], 2)   # before encryption
            ops.append("enc:" + p)
            cur = p
            for _k in range(rng.randrange(1, 8)):
                c = rng.random()
                if c < 0.25: ops.append("unlock:" + (cur if rng.random() < 0.6 else rng.choice(PASSES)))
                elif c < 0.4: ops.append("lock")
                elif c < 0.65:
                    old = cur if rng.random() < 0.75 else rng.choice(PASSES)
                    new = rng.choice(PASSES)
                    fail = rng.random() < 0.3
                    ops.append("chpass:%s:%s%s" % (old, new, ":0" if fail else ""))
                    if old == cur and not fail: cur = new
                elif c < 0.85: ops.append(rng.choice(["reload", "crash"]))
                else: ops.append("enc:" + rng.choice(PASSES))
            ops.append("unlock:" + cur)
        cases.append("kp 1 " + " ".join(ops))
    seen, out = set(), []
    for c in cases:
        if c not in seen:
            seen.add(c); out.append(c)
    return out


def hx(rng, n):
    return "".join("%02x" % rng.randrange(256) for _ in range(n)) if n else "-"


def gen_bytes(rng, tier):
    cases = []
    quick = tier == "quick"
    for ln in ([0, 1, 55, 111, 112, 119, 120, 127, 128, 200] if quick else list(range(0, 140)) + [200, 255, 256, 300]):
        cases.append("kdf %s %s %d" % (hx(rng, ln), hx(rng, 8), rng.choice([1, 1, 2, 3])))
    cases += ["kdf 6162 %s 1" % hx(rng, 7), "kdf 6162 %s 1" % hx(rng, 9), "kdf 6162 %s 0" % hx(rng, 8), "kdf - - 1"]
    for ln in ([0, 1, 15, 16, 17, 31, 32, 33, 48] if quick else range(0, 70)):
        cases.append("rtsecret %s %s %s" % (hx(rng, 32), hx(rng, ln), hx(rng, 32)))
    cases += ["encsecret %s %s %s" % (hx(rng, 31), hx(rng, 32), hx(rng, 32)), "encsecret %s %s %s" % (hx(rng, 33), hx(rng, 32), hx(rng, 32))]
    for ln in ([0, 15, 16, 32, 48] if quick else range(0, 66)):
        cases.append("decsecret %s %s %s" % (hx(rng, 32), hx(rng, ln), hx(rng, 32)))
    return cases


def canon(s):
    s = re.sub(r"\bf[1-9][0-9]*", "f+", s)
    # inside crash snapshots the raw-file scan sees SQLite free pages (not modelled): not compared
    return re.sub(r"S\{\[([^\]]*)\]\}", lambda m: "S{[" + re.sub(r"\bf\S+", "f?", m.group(1)) + "]}", s)


def shrink(c):
    w = c.split()
    head, ops = w[:2], w[2:]
    for i in range(len(ops)):
        if len(ops) > 1:
            yield " ".join(head + ops[:i] + ops[i + 1:])


TIES = [Tie("walletcrypt_ops", "tie/drivers/walletcrypt_drv.cpp", "Extract_WalletCrypt.v", "walletcrypt_driver.ml", gen_ops, mode="ops",
            predicate="driver", nontrivial=lambda c: "enc:" in c, classify=lambda c: "faults" if re.search(r":[01]*0[01]*( |$)", c) else ("snap" if "@" in c else "plain"),
            shrink=shrink, canon=canon),
        Tie("crypter_bytes", "tie/drivers/walletcrypt_drv.cpp", "Extract_WalletCrypt.v", "walletcrypt_driver.ml", gen_bytes, mode="bytes",
            predicate="functional", nontrivial=lambda c: True)]

LEVEL_TEXT = ("Coq theorems over an abstract cipher with the round-trip premise (discharged for the AES-256-CBC model): for EVERY outcome of every database "
              "call, EncryptWallet either succeeds - committed database with the master key record and without any plaintext key record, file rewritten, "
              "wallet locked, every key encrypted under the master key with the IV from its public key, unlocking with the passphrase returns every "
              "original secret - or leaves the committed database exactly as it was; a plaintext key never reappears in any later history; a locked "
              "wallet cannot produce a private key; Unlock enters the unlocked state only when the decrypted keys match the stored public keys; a "
              "passphrase change keeps the master key in memory and on disk in step for either outcome of its write. The transcription is tied to the "
              "real CWallet (records, raw-file scan for the plaintext secret, signing ability, original keys, crash snapshots, injected failing calls, "
              "assert-aborts observed on disk) and the crypter to the SHA-512/AES models byte for byte.")
LEVEL_NOTE = ("Trusted: Coq kernel, extraction + driver glue, the failure-injection / abort-catching driver. Premises: cipher round trip (proved for the AES "
              "model), SQLite commit atomicity. Residue: SQLite free pages between commit and Rewrite() (observed, not modelled), EC key derivation abstract, "
              "decryption under a wrong key unconstrained (Unlock soundness is stated through the key check). History: the check found five places where "
              "the result of a database call was ignored (master key write, crypted key write, plaintext key erase, passphrase-change write, failed TxnBegin "
              "leaving the master key in memory): all keys lost / plaintext left / wallet unloadable / passphrase reverting / pseudo-encrypted wallet; fixed "
              "in /repo 21144c2, 767b57b, 8268070, e225567, eec7c54; the old transcription is `chk = false` with one theorem per defect, and `holds` still "
              "classifies each failure.")
TECHNIQUE = "Coq proof (state machine over an abstract cipher with an oracle for failing database calls; instantiation with the AES-256-CBC model) + differential correspondence with fault injection and raw-file scanning"
