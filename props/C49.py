from vlib.runner import Tie
from vlib import core

ID = "C49"
LEVEL = "proof"
DESIGN_REF = "DESIGN.md section 5, C49"
PROP_FILES = ["props/Properties_C49.v"]
RULE = ("cases: for each primitive, messages of every length around the block/padding boundaries (0,1,55,56,57,63,64,65,119,120,121,"
        "127,128,129,... and the analogous 111/112/128 for SHA-512, 135/136 for SHA3-256, 15/16/17 for Poly1305, 63/64/65 for ChaCha20) with "
        "random content, fed in every two-piece fragmentation that cuts at a boundary +-1, three-piece fragmentations whose cuts straddle "
        "block boundaries, byte-at-a-time, empty pieces, and seeded random fragmentations; longer random messages (up to ~2000 bytes); "
        "SHA-256 cases are run under every implementation SHA256AutoDetect can select (standard, sse4, sse4+avx2, shani) and SHA256D64 for "
        "1..17 blocks; AEAD: round trips and every single-bit tampering class (ciphertext, tag byte 0..15, aad). "
        "A case is non-trivial when the message is not empty; distinct = distinct case lines.")
ASSUMPTIONS = ["the compression / permutation / block functions of the C++ (sha256::Transform and its SSE4, AVX2, SHA-NI variants, sha1/sha512/ripemd160 "
               "Transform, KeccakF, the ChaCha20 block loop, poly1305_blocks limb arithmetic, SipRound) are not modelled at instruction level: the "
               "model of each C++ object calls the standard's function at that point, and equality is checked by the correspondence only",
               "total input length in bits fits the standard's length field (8*len < 2^64): premise of the streaming theorems",
               "a byte is a number below 256"]
TRUSTED = ["Coq 8.16.1 kernel (coqc; vm_compute for the standards' test vectors; no native_compute)",
           "extraction: ExtrOcamlBasic only; ocaml/conv.ml + crypto_driver.ml glue",
           "tie/drivers/crypto_drv.cpp feeds the real classes of src/crypto with one Write/Update/Crypt call per prescribed fragment and prints the result"]

BOUND64 = [0, 1, 2, 3, 31, 32, 33, 54, 55, 56, 57, 62, 63, 64, 65, 66, 118, 119, 120, 121, 126, 127, 128, 129, 130, 183, 184, 191, 192, 193, 255, 256, 257]


def rbytes(rng, n):
    return "".join("%02x" % rng.randrange(256) for _ in range(n)) if n else "-"


def chunks_str(sz):
    return ",".join(str(x) for x in sz) if sz else "-"


def fragmentations(rng, n, block, nrand):
    """Fragmentations of a message of n bytes aimed at the buffer logic of a block-`block` streaming object."""
    out = [[n]]
    if n == 0:
        return [[], [0], [0, 0]]
    cuts = set()
    for k in range(0, n // block + 2):
        for d in (-1, 0, 1):
            c = k * block + d
            if 0 <= c <= n:
                cuts.add(c)
    for c in (0, 1, n - 1, n, block - 9, block - 8, block - 7, 2 * block - 9, 2 * block - 8):
        if 0 <= c <= n:
            cuts.add(c)
    cuts = sorted(cuts)
    for c in cuts:
        out.append([c, n - c])
    # three pieces: first cut leaves a partial buffer, second cut lands around a boundary
    for a in cuts:
        for b in cuts:
            if a < b and (a % block) != 0 and rng.random() < 0.5:
                out.append([a, b - a, n - b])
    if n <= 200:
        out.append([1] * n)
    for _ in range(nrand):
        sz, left = [], n
        while left > 0:
            r = rng.random()
            if r < 0.1:
                k = 0
            elif r < 0.5:
                k = rng.randrange(1, min(left, block + 2) + 1)
            elif r < 0.8:
                k = min(left, rng.choice([block - 1, block, block + 1, 2 * block - 1, 2 * block, 2 * block + 1, block - (sum(sz) % block)]))
            else:
                k = rng.randrange(1, left + 1)
            sz.append(k); left -= k
        if rng.random() < 0.3:
            sz.append(0)
        out.append(sz)
    seen, res = set(), []
    for f in out:
        t = tuple(f)
        if t not in seen:
            seen.add(t); res.append(f)
    return res


def gen_md(name, block, bounds, rng, tier, nlong, per_len_cap):
    cases = []
    for n in bounds:
        m = rbytes(rng, n)
        fr = fragmentations(rng, n, block, 3 if tier == "quick" else 30)
        if tier == "quick" and len(fr) > per_len_cap:
            fr = fr[:per_len_cap // 2] + rng.sample(fr[per_len_cap // 2:], per_len_cap - per_len_cap // 2)
        for f in fr:
            cases.append("%s %s %s" % (name, m, chunks_str(f)))
    for _ in range(nlong):
        n = rng.choice([rng.randrange(0, 300), rng.randrange(300, 2100)])
        m = rbytes(rng, n)
        for f in rng.sample(fragmentations(rng, n, block, 2), 2):
            cases.append("%s %s %s" % (name, m, chunks_str(f)))
    return cases


def gen_sha256(rng, tier):
    cases = ["sha256 616263 3", "sha256 - -"]
    cases += gen_md("sha256", 64, BOUND64, rng, tier, 12 if tier == "quick" else 600, 40)
    for blocks in list(range(1, 18)) + ([] if tier == "quick" else [31, 32, 33, 64]):
        cases.append("sha256d64 %s" % rbytes(rng, 64 * blocks))
    return cases


BOUND128 = [0, 1, 2, 63, 64, 65, 110, 111, 112, 113, 126, 127, 128, 129, 130, 238, 239, 240, 241, 255, 256, 257, 383, 384, 385]
BOUND64S = [0, 1, 3, 55, 56, 57, 63, 64, 65, 119, 120, 121, 127, 128, 129, 191, 192, 193]


def gen_hashes(rng, tier):
    cases = []
    cases += gen_md("sha1", 64, BOUND64S, rng, tier, 6 if tier == "quick" else 300, 24)
    cases += gen_md("ripemd160", 64, BOUND64S, rng, tier, 6 if tier == "quick" else 300, 24)
    cases += gen_md("sha512", 128, BOUND128, rng, tier, 6 if tier == "quick" else 300, 20)
    return cases


def gen_hmac(rng, tier):
    cases = []
    for name, block in (("hmac256", 64), ("hmac512", 128)):
        keylens = [0, 1, block // 2 - 1, block // 2, block // 2 + 1, block - 1, block, block + 1, block + 2, 2 * block - 1, 2 * block, 2 * block + 1, 3 * block + 5]
        msglens = [0, 1, block - 9, block - 1, block, block + 1, 2 * block + 3]
        for kl in keylens:
            key = rbytes(rng, kl)
            for ml in (msglens if tier != "quick" else rng.sample(msglens, 4)):
                m = rbytes(rng, ml)
                fr = fragmentations(rng, ml, block, 2)
                for f in rng.sample(fr, min(len(fr), 3 if tier == "quick" else 12)):
                    cases.append("%s %s %s %s" % (name, key, m, chunks_str(f)))
    infolens = [0, 1, 22, 54, 55, 56, 63, 64, 65, 118, 119, 127, 128]
    for il in infolens:
        for sl in (0, 1, 32, 63, 64, 65, 100):
            if tier == "quick" and rng.random() < 0.5:
                continue
            cases.append("hkdf %s %s %s" % (rbytes(rng, rng.choice([0, 1, 16, 32, 33, 64, 100])), rbytes(rng, sl), rbytes(rng, il)))
    # the BIP324 use: salt "bitcoin_v2_shared_secret" + network magic, 32-byte ikm, short labels
    salt = "626974636f696e5f76325f7368617265645f736563726574f9beb4d9"
    for label in (b"initiator_L", b"initiator_P", b"responder_L", b"responder_P", b"garbage_terminators", b"session_id"):
        cases.append("hkdf %s %s %s" % (rbytes(rng, 32), salt, label.hex()))
    return cases


def gen_chacha(rng, tier):
    cases = []
    U32 = 0xffffffff
    # Crypt-only sequences around the 64-byte block boundary, counters including the wrap of the 32-bit block counter
    lens = [0, 1, 31, 32, 33, 63, 64, 65, 66, 127, 128, 129, 191, 192, 193, 255, 256, 257]
    for n in lens:
        key = rbytes(rng, 32); d = rbytes(rng, n)
        nf, ns = rng.choice([0, 1, U32, rng.randrange(1 << 32)]), rng.choice([0, 1, (1 << 64) - 1, rng.randrange(1 << 64)])
        fr = fragmentations(rng, n, 64, 3 if tier == "quick" else 20)
        if tier == "quick" and len(fr) > 12:
            fr = fr[:4] + rng.sample(fr[4:], 8)
        for f in fr:
            ctr = rng.choice([0, 1, 2, U32 - 2, U32 - 1, U32, rng.randrange(1 << 32)])
            ops = ",".join("c%d" % x for x in f) if f else "-"
            cases.append("chacha20 %s %d %d %d %s %s" % (key, nf, ns, ctr, d, ops))
    # mixed Crypt / Keystream sequences
    for _ in range(150 if tier == "quick" else 4000):
        key = rbytes(rng, 32); ops = []; total = 0
        for _ in range(rng.randrange(1, 7)):
            k = rng.choice([0, 1, 2, 31, 32, 33, 63, 64, 65, 127, 128, 129, rng.randrange(0, 200)])
            if rng.random() < 0.5:
                ops.append("c%d" % k); total += k
            else:
                ops.append("k%d" % k)
        cases.append("chacha20 %s %d %d %d %s %s" % (key, rng.randrange(1 << 32), rng.randrange(1 << 64),
                                                     rng.choice([0, 1, U32 - 1, U32, rng.randrange(1 << 32)]), rbytes(rng, total), ",".join(ops)))
    # FSChaCha20: rekey every `interval` chunks
    for interval in (1, 2, 3, 5, 224):
        for _ in range(2 if tier == "quick" else 20):
            nchunks = rng.choice([1, 2, 3, interval, interval + 1, 2 * interval + 1]) if interval < 50 else rng.choice([3, 230])
            chunks = [rbytes(rng, rng.choice([0, 1, 3, 3, 3, 31, 32, 33, 64, 65, 100])) for _ in range(nchunks)]
            cases.append("fschacha %s %d %s" % (rbytes(rng, 32), interval, ",".join(chunks)))
    return cases


def gen_poly(rng, tier):
    cases = []
    lens = [0, 1, 2, 14, 15, 16, 17, 18, 30, 31, 32, 33, 34, 47, 48, 49, 63, 64, 65, 100, 255, 256, 257]
    special_keys = ["00" * 32, "ff" * 32, "ff" * 16 + "00" * 16, "00" * 16 + "ff" * 16,
                    "0200000000000000000000000000000000000000000000000000000000000000",
                    "01000000000000000400000000000000" + "00" * 16]
    for n in lens:
        for key in [rbytes(rng, 32), rng.choice(special_keys)]:
            m = rbytes(rng, n) if rng.random() < 0.8 else ("ff" * n if n else "-")
            fr = fragmentations(rng, n, 16, 3 if tier == "quick" else 20)
            if tier == "quick" and len(fr) > 10:
                fr = fr[:3] + rng.sample(fr[3:], 7)
            for f in fr:
                cases.append("poly1305 %s %s %s" % (key, m, chunks_str(f)))
    # messages that drive the accumulator to the top of its range (all-ones blocks, r with all clamped bits set)
    for n in (16, 32, 48, 64, 160):
        cases.append("poly1305 %s %s %d" % ("ff" * 16 + rbytes(rng, 16), "ff" * n, n))
        cases.append("poly1305 %s %s %d" % ("ff" * 32, "ff" * n, n))
    for _ in range(20 if tier == "quick" else 1000):
        n = rng.randrange(0, 2000)
        m = rbytes(rng, n)
        f = rng.choice(fragmentations(rng, n, 16, 2))
        cases.append("poly1305 %s %s %s" % (rbytes(rng, 32), m, chunks_str(f)))
    return cases


def gen_aead(rng, tier):
    cases = []
    U32 = 0xffffffff
    plens = [0, 1, 15, 16, 17, 31, 32, 33, 63, 64, 65, 127, 128, 129, 200]
    alens = [0, 1, 12, 15, 16, 17, 32, 33]
    for pl in plens:
        for al in (alens if tier != "quick" else rng.sample(alens, 3)):
            key = rbytes(rng, 32); aad = rbytes(rng, al); p = rbytes(rng, pl)
            nf, ns = rng.choice([0, 1, U32, rng.randrange(1 << 32)]), rng.choice([0, (1 << 64) - 1, rng.randrange(1 << 64)])
            for len1 in sorted(set([0, pl, pl // 2, min(pl, 1), min(pl, 63), min(pl, 64), min(pl, 65)])):
                cases.append("aead_enc %s %d %d %s %s %d" % (key, nf, ns, aad, p, len1))
            # round trip + single-bit tamperings of every class (every tag byte, some ciphertext / aad bits)
            cases.append("aead_tamper %s %d %d %s %s %d none 0" % (key, nf, ns, aad, p, pl // 2))
            for byte in range(16):
                cases.append("aead_tamper %s %d %d %s %s %d tag %d" % (key, nf, ns, aad, p, pl // 2, 8 * byte + rng.randrange(8)))
            for _ in range(3):
                if pl:
                    cases.append("aead_tamper %s %d %d %s %s %d ct %d" % (key, nf, ns, aad, p, rng.randrange(pl + 1), rng.randrange(8 * pl)))
                if al:
                    cases.append("aead_tamper %s %d %d %s %s %d aad %d" % (key, nf, ns, aad, p, rng.randrange(pl + 1), rng.randrange(8 * al)))
    # decryption of arbitrary strings (almost surely rejected) incl. the shortest possible input
    for n in (16, 17, 32, 80):
        cases.append("aead_dec %s %d %d %s %s %d" % (rbytes(rng, 32), 5, 7, rbytes(rng, 3), rbytes(rng, n), 0))
    # FSChaCha20Poly1305: packet sequences crossing the rekey boundary
    for interval in (1, 2, 3, 4, 7):
        for _ in range(2 if tier == "quick" else 30):
            npk = rng.choice([1, interval, interval + 1, 2 * interval, 2 * interval + 1, 3 * interval + 2])
            pk = ["%s:%s" % (rbytes(rng, rng.choice([0, 1, 3, 16, 33, 64, 70])), rbytes(rng, rng.choice([0, 0, 1, 16, 20]))) for _ in range(npk)]
            cases.append("fsaead %s %d %s" % (rbytes(rng, 32), interval, ",".join(pk)))
    cases.append("fsaead %s %d %s" % (rbytes(rng, 32), 224, ",".join("%s:-" % rbytes(rng, 3) for _ in range(226 if tier == "quick" else 700))))
    return cases


def gen_sip_sha3(rng, tier):
    cases = []
    U64 = (1 << 64) - 1
    def key():
        return rng.choice([0, 1, U64, rng.getrandbits(64), 0x0706050403020100])
    # SipHash-2-4: every length 0..40, block / counter-wrap boundaries, fragments of 0,1,7,8,9 bytes
    for n in list(range(0, 41)) + [63, 64, 65, 255, 256, 257, 263, 264, 265, 511, 512, 513, 1000]:
        m = rbytes(rng, n)
        fr = fragmentations(rng, n, 8, 2 if tier == "quick" else 12)
        for f in ([fr[0]] + rng.sample(fr, min(len(fr), 3 if tier == "quick" else 10))):
            cases.append("siphash %d %d %s %s" % (key(), key(), m, chunks_str(f)))
    for n in (0, 8, 16, 24, 256, 264):
        cases.append("siphash_w64 %d %d %s" % (key(), key(), rbytes(rng, n)))
    for _ in range(20 if tier == "quick" else 500):
        v = rbytes(rng, 32)
        cases.append("siphash_u256 %d %d %s" % (key(), key(), v))
        cases.append("siphash_u256x %d %d %s %d" % (key(), key(), v, rng.choice([0, 1, 0xffffffff, rng.getrandbits(32)])))
        bl = [rbytes(rng, rng.choice([8, 32])) for _ in range(rng.randrange(0, 5))]
        cases.append("siphash13uj %d %d %s" % (key(), key(), ",".join(bl) if bl else "-"))
    # SHA3-256: 8-byte lane buffer and 136-byte rate boundaries
    for n in list(range(0, 20)) + [127, 128, 129, 134, 135, 136, 137, 138, 143, 144, 145, 271, 272, 273, 407, 408, 409, 500]:
        m = rbytes(rng, n)
        fr = fragmentations(rng, n, 8, 2) + fragmentations(rng, n, 136, 2)
        for f in ([fr[0]] + rng.sample(fr, min(len(fr), 4 if tier == "quick" else 16))):
            cases.append("sha3 %s %s" % (m, chunks_str(f)))
    for _ in range(4 if tier == "quick" else 100):
        cases.append("keccakf %s" % rbytes(rng, 200))
    cases.append("keccakf " + "00" * 200)
    return cases


def mk(name, gen):
    return Tie(name, "tie/drivers/crypto_drv.cpp", "Extract_Crypto.v", "crypto_driver.ml", gen,
               predicate="functional", nontrivial=lambda c: " - " not in c)


TIES = [mk("sha256", gen_sha256), mk("hashes", gen_hashes), mk("hmac_hkdf", gen_hmac),
        mk("chacha20", gen_chacha), mk("poly1305", gen_poly), mk("aead", gen_aead), mk("siphash_sha3", gen_sip_sha3)]

LEVEL_TEXT = ("Coq theorems for all inputs: the model of the C++ streaming hashers (bytes counter, partial-block buffer, the three phases of Write, "
              "the padding written by Finalize), proved once for any block size and compression function and instantiated for CSHA256, fed any "
              "fragmentation of a message (empty pieces, any initial buffer contents) returns the one-shot digest defined from FIPS 180-4. "
              "FIPS test vectors evaluated inside Coq pin the specification; the real classes are compared with the specification on boundary-length "
              "messages in boundary-straddling fragmentations under every SHA-256 backend the CPU offers.")
LEVEL_NOTE = ("Trusted: Coq kernel, extraction + driver glue. Not covered by proof: that the hand-optimised / intrinsics compression functions compute "
              "the standard's compression function (correspondence only).")
TECHNIQUE = "Coq proof (generic streaming-buffer refinement + vm_compute test vectors) + differential correspondence"
