from vlib.runner import Tie
from vlib import core

ID = "C49"
LEVEL = "proof"
DESIGN_REF = "DESIGN.md section 5, C49"
PROP_FILES = ["props/Properties_C49.v"]
RULE = ("cases: for each primitive, messages of every length around the block/padding boundaries (SHA-256/SHA-1/RIPEMD-160: 0,1,55,56,57,63,64,65,"
        "119,120,121,127,128,129,...; SHA-512: 111,112,113,127,128,129,239,240,...; SHA3-256: 134..137 and the 8-byte lane buffer; SipHash: 0..40, "
        "255..257 (uint8 counter wrap); Poly1305: 15,16,17,...; ChaCha20: 63,64,65,... and block counters 2^32-2..2^32-1) with random content, fed in "
        "every two-piece fragmentation that cuts at a boundary +-1, three-piece fragmentations whose cuts straddle block boundaries, byte-at-a-time, "
        "empty pieces and seeded random fragmentations; every length 0..260 (thorough tier: 0..2000) with a random fragmentation; longer random messages (up to ~2000 bytes); every SHA-256 case is run under every "
        "implementation SHA256AutoDetect can select (standard, sse4+sse41, +avx2, x86_shani on this CPU) and must agree; SHA256D64 for 1..17 blocks; "
        "HMAC keys of length 0..3*block around block/2 and block; HKDF info lengths 0..128; AEAD: encryptions with every plaintext split, round "
        "trips, single-bit tampering of every tag byte and of random ciphertext / aad bits, arbitrary strings to Decrypt; FSChaCha20Poly1305 / "
        "FSChaCha20 sequences crossing 1..3 rekeyings (interval 1..7 and 224); AES-256 blocks incl. unit vectors, CBC sizes 0..257 with and without "
        "padding, hand-made padding tails (pad byte 0,1,..,16,17,255, one broken padding byte); hash.h composites, BIP32Hash, MurmurHash3. "
        "A case is non-trivial when its message is not empty; distinct = distinct case lines.")
ASSUMPTIONS = ["proved at statement level against the standard: the C++ KeccakF (unrolled) and the poly1305_donna limb arithmetic. NOT modelled at "
               "instruction level (the model of each C++ object calls the standard's function there; equality is checked by the correspondence "
               "only): sha256::Transform and its SSE4 / AVX2 / SHA-NI variants and the 2/4/8-way double-hash kernels, sha1/sha512/ripemd160 "
               "Transform, the unrolled ChaCha20 block loop, SipRound as written in siphash.h is transcribed, the bitsliced ctaes AES code",
               "total input length in bits fits the standard's length field (8*len < 2^64) for the Merkle-Damgard hashers; ChaCha20 vs RFC 8439: "
               "the 32-bit block counter does not wrap (the model itself includes the C++ carry into the nonce word and is compared there too)",
               "a byte is a number below 256 (premise bytes_ok where a proof needs it)",
               "the AEAD 'rejects any modification' clause is proved in the form: acceptance implies the presented 16-byte tag equals Poly1305 of the "
               "presented (aad, ciphertext) under the one-time key; that no other transcript has that tag is the (unproved, probabilistic) security "
               "of Poly1305"]
TRUSTED = ["Coq 8.16.1 kernel (coqc; vm_compute for the standards' test vectors and finite case checks; no native_compute)",
           "extraction: ExtrOcamlBasic only; ocaml/conv.ml + crypto_driver.ml glue",
           "tie/drivers/crypto_drv.cpp feeds the real classes of src/crypto and src/hash.h with one Write/Update/Crypt call per prescribed "
           "fragment (each fragment in its own exact-size heap block) and prints the result"]

BOUND64 = [0, 1, 2, 3, 31, 32, 33, 54, 55, 56, 57, 62, 63, 64, 65, 66, 118, 119, 120, 121, 126, 127, 128, 129, 130, 183, 184, 191, 192, 193, 255, 256, 257]


def rbytes(rng, n):
    return "".join("%02x" % rng.randrange(256) for _ in range(n)) if n else "-"


def chunks_str(sz):
    return ",".join(str(x) for x in sz) if sz else "-"


def fragmentations(rng, n, block, nrand):
    """Fragmentations of a message of n bytes aimed at the buffer logic of a block-`block` streaming object."""
    out = [[n]]
    if n == 0:
        return [[], [0], [0, 0]]
    cuts = set()
    for k in range(0, n // block + 2):
        for d in (-1, 0, 1):
            c = k * block + d
            if 0 <= c <= n:
                cuts.add(c)
    for c in (0, 1, n - 1, n, block - 9, block - 8, block - 7, 2 * block - 9, 2 * block - 8):
        if 0 <= c <= n:
            cuts.add(c)
    cuts = sorted(cuts)
    for c in cuts:
        out.append([c, n - c])
    # three pieces: first cut leaves a partial buffer, second cut lands around a boundary
    for a in cuts:
        for b in cuts:
            if a < b and (a % block) != 0 and rng.random() < 0.5:
                out.append([a, b - a, n - b])
    if n <= 200:
        out.append([1] * n)
    for _ in range(nrand):
        sz, left = [], n
        while left > 0:
            r = rng.random()
            if r < 0.1:
                k = 0
            elif r < 0.5:
                k = rng.randrange(1, min(left, block + 2) + 1)
            elif r < 0.8:
                k = min(left, rng.choice([block - 1, block, block + 1, 2 * block - 1, 2 * block, 2 * block + 1, block - (sum(sz) % block)]))
            else:
                k = rng.randrange(1, left + 1)
            sz.append(k); left -= k
        if rng.random() < 0.3:
            sz.append(0)
        out.append(sz)
    seen, res = set(), []
    for f in out:
        t = tuple(f)
        if t not in seen:
            seen.add(t); res.append(f)
    return res


def gen_md(name, block, bounds, rng, tier, nlong, per_len_cap):
    cases = []
    for n in bounds:
        m = rbytes(rng, n)
        fr = fragmentations(rng, n, block, 3 if tier == "quick" else 30)
        if tier == "quick" and len(fr) > per_len_cap:
            fr = fr[:per_len_cap // 2] + rng.sample(fr[per_len_cap // 2:], per_len_cap - per_len_cap // 2)
        for f in fr:
            cases.append("%s %s %s" % (name, m, chunks_str(f)))
    for _ in range(nlong):
        n = rng.choice([rng.randrange(0, 300), rng.randrange(300, 2100)])
        m = rbytes(rng, n)
        for f in rng.sample(fragmentations(rng, n, block, 2), 2):
            cases.append("%s %s %s" % (name, m, chunks_str(f)))
    # every length 0..260 (thorough: 0..2000), one random fragmentation each
    for n in range(0, 261 if tier == "quick" else 2001):
        fr = fragmentations(rng, n, block, 1)
        cases.append("%s %s %s" % (name, rbytes(rng, n), chunks_str(fr[-1])))
    return cases


def gen_sha256(rng, tier):
    cases = ["sha256 616263 3", "sha256 - -"]
    cases += gen_md("sha256", 64, BOUND64, rng, tier, 12 if tier == "quick" else 600, 40)
    for blocks in list(range(1, 18)) + ([] if tier == "quick" else [31, 32, 33, 64]):
        cases.append("sha256d64 %s" % rbytes(rng, 64 * blocks))
    return cases


BOUND128 = [0, 1, 2, 63, 64, 65, 110, 111, 112, 113, 126, 127, 128, 129, 130, 238, 239, 240, 241, 255, 256, 257, 383, 384, 385]
BOUND64S = [0, 1, 3, 55, 56, 57, 63, 64, 65, 119, 120, 121, 127, 128, 129, 191, 192, 193]


def gen_hashes(rng, tier):
    cases = []
    cases += gen_md("sha1", 64, BOUND64S, rng, tier, 6 if tier == "quick" else 300, 24)
    cases += gen_md("ripemd160", 64, BOUND64S, rng, tier, 6 if tier == "quick" else 300, 24)
    cases += gen_md("sha512", 128, BOUND128, rng, tier, 6 if tier == "quick" else 300, 20)
    return cases


def gen_hmac(rng, tier):
    cases = []
    for name, block in (("hmac256", 64), ("hmac512", 128)):
        keylens = [0, 1, block // 2 - 1, block // 2, block // 2 + 1, block - 1, block, block + 1, block + 2, 2 * block - 1, 2 * block, 2 * block + 1, 3 * block + 5]
        msglens = [0, 1, block - 9, block - 1, block, block + 1, 2 * block + 3]
        for kl in keylens:
            key = rbytes(rng, kl)
            for ml in (msglens if tier != "quick" else rng.sample(msglens, 4)):
                m = rbytes(rng, ml)
                fr = fragmentations(rng, ml, block, 2)
                for f in rng.sample(fr, min(len(fr), 3 if tier == "quick" else 12)):
                    cases.append("%s %s %s %s" % (name, key, m, chunks_str(f)))
    infolens = [0, 1, 22, 54, 55, 56, 63, 64, 65, 118, 119, 127, 128]
    for il in infolens:
        for sl in (0, 1, 32, 63, 64, 65, 100):
            if tier == "quick" and rng.random() < 0.5:
                continue
            cases.append("hkdf %s %s %s" % (rbytes(rng, rng.choice([0, 1, 16, 32, 33, 64, 100])), rbytes(rng, sl), rbytes(rng, il)))
    # the BIP324 use: salt "bitcoin_v2_shared_secret" + network magic, 32-byte ikm, short labels
    salt = "626974636f696e5f76325f7368617265645f736563726574f9beb4d9"
    for label in (b"initiator_L", b"initiator_P", b"responder_L", b"responder_P", b"garbage_terminators", b"session_id"):
        cases.append("hkdf %s %s %s" % (rbytes(rng, 32), salt, label.hex()))
    return cases


def gen_chacha(rng, tier):
    cases = []
    U32 = 0xffffffff
    # Crypt-only sequences around the 64-byte block boundary, counters including the wrap of the 32-bit block counter
    lens = [0, 1, 31, 32, 33, 63, 64, 65, 66, 127, 128, 129, 191, 192, 193, 255, 256, 257]
    for n in lens:
        key = rbytes(rng, 32); d = rbytes(rng, n)
        nf, ns = rng.choice([0, 1, U32, rng.randrange(1 << 32)]), rng.choice([0, 1, (1 << 64) - 1, rng.randrange(1 << 64)])
        fr = fragmentations(rng, n, 64, 3 if tier == "quick" else 20)
        if tier == "quick" and len(fr) > 12:
            fr = fr[:4] + rng.sample(fr[4:], 8)
        for f in fr:
            ctr = rng.choice([0, 1, 2, U32 - 2, U32 - 1, U32, rng.randrange(1 << 32)])
            ops = ",".join("c%d" % x for x in f) if f else "-"
            cases.append("chacha20 %s %d %d %d %s %s" % (key, nf, ns, ctr, d, ops))
    # mixed Crypt / Keystream sequences
    for _ in range(150 if tier == "quick" else 4000):
        key = rbytes(rng, 32); ops = []; total = 0
        for _ in range(rng.randrange(1, 7)):
            k = rng.choice([0, 1, 2, 31, 32, 33, 63, 64, 65, 127, 128, 129, rng.randrange(0, 200)])
            if rng.random() < 0.5:
                ops.append("c%d" % k); total += k
            else:
                ops.append("k%d" % k)
        cases.append("chacha20 %s %d %d %d %s %s" % (key, rng.randrange(1 << 32), rng.randrange(1 << 64),
                                                     rng.choice([0, 1, U32 - 1, U32, rng.randrange(1 << 32)]), rbytes(rng, total), ",".join(ops)))
    # FSChaCha20: rekey every `interval` chunks
    for interval in (1, 2, 3, 5, 224):
        for _ in range(2 if tier == "quick" else 20):
            nchunks = rng.choice([1, 2, 3, interval, interval + 1, 2 * interval + 1]) if interval < 50 else rng.choice([3, 230])
            chunks = [rbytes(rng, rng.choice([0, 1, 3, 3, 3, 31, 32, 33, 64, 65, 100])) for _ in range(nchunks)]
            cases.append("fschacha %s %d %s" % (rbytes(rng, 32), interval, ",".join(chunks)))
    return cases


def gen_poly(rng, tier):
    cases = []
    lens = [0, 1, 2, 14, 15, 16, 17, 18, 30, 31, 32, 33, 34, 47, 48, 49, 63, 64, 65, 100, 255, 256, 257]
    special_keys = ["00" * 32, "ff" * 32, "ff" * 16 + "00" * 16, "00" * 16 + "ff" * 16,
                    "0200000000000000000000000000000000000000000000000000000000000000",
                    "01000000000000000400000000000000" + "00" * 16]
    for n in lens:
        for key in [rbytes(rng, 32), rng.choice(special_keys)]:
            m = rbytes(rng, n) if rng.random() < 0.8 else ("ff" * n if n else "-")
            fr = fragmentations(rng, n, 16, 3 if tier == "quick" else 20)
            if tier == "quick" and len(fr) > 10:
                fr = fr[:3] + rng.sample(fr[3:], 7)
            for f in fr:
                cases.append("poly1305 %s %s %s" % (key, m, chunks_str(f)))
    # messages that drive the accumulator to the top of its range (all-ones blocks, r with all clamped bits set)
    for n in (16, 32, 48, 64, 160):
        cases.append("poly1305 %s %s %d" % ("ff" * 16 + rbytes(rng, 16), "ff" * n, n))
        cases.append("poly1305 %s %s %d" % ("ff" * 32, "ff" * n, n))
    for _ in range(20 if tier == "quick" else 1000):
        n = rng.randrange(0, 2000)
        m = rbytes(rng, n)
        f = rng.choice(fragmentations(rng, n, 16, 2))
        cases.append("poly1305 %s %s %s" % (rbytes(rng, 32), m, chunks_str(f)))
    return cases


def gen_aead(rng, tier):
    cases = []
    U32 = 0xffffffff
    plens = [0, 1, 15, 16, 17, 31, 32, 33, 63, 64, 65, 127, 128, 129, 200]
    alens = [0, 1, 12, 15, 16, 17, 32, 33]
    for pl in plens:
        for al in (alens if tier != "quick" else rng.sample(alens, 3)):
            key = rbytes(rng, 32); aad = rbytes(rng, al); p = rbytes(rng, pl)
            nf, ns = rng.choice([0, 1, U32, rng.randrange(1 << 32)]), rng.choice([0, (1 << 64) - 1, rng.randrange(1 << 64)])
            for len1 in sorted(set([0, pl, pl // 2, min(pl, 1), min(pl, 63), min(pl, 64), min(pl, 65)])):
                cases.append("aead_enc %s %d %d %s %s %d" % (key, nf, ns, aad, p, len1))
            # round trip + single-bit tamperings of every class (every tag byte, some ciphertext / aad bits)
            cases.append("aead_tamper %s %d %d %s %s %d none 0" % (key, nf, ns, aad, p, pl // 2))
            for byte in range(16):
                cases.append("aead_tamper %s %d %d %s %s %d tag %d" % (key, nf, ns, aad, p, pl // 2, 8 * byte + rng.randrange(8)))
            for _ in range(3):
                if pl:
                    cases.append("aead_tamper %s %d %d %s %s %d ct %d" % (key, nf, ns, aad, p, rng.randrange(pl + 1), rng.randrange(8 * pl)))
                if al:
                    cases.append("aead_tamper %s %d %d %s %s %d aad %d" % (key, nf, ns, aad, p, rng.randrange(pl + 1), rng.randrange(8 * al)))
    # decryption of arbitrary strings (almost surely rejected) incl. the shortest possible input
    for n in (16, 17, 32, 80):
        cases.append("aead_dec %s %d %d %s %s %d" % (rbytes(rng, 32), 5, 7, rbytes(rng, 3), rbytes(rng, n), 0))
    # FSChaCha20Poly1305: packet sequences crossing the rekey boundary
    for interval in (1, 2, 3, 4, 7):
        for _ in range(2 if tier == "quick" else 30):
            npk = rng.choice([1, interval, interval + 1, 2 * interval, 2 * interval + 1, 3 * interval + 2])
            pk = ["%s:%s" % (rbytes(rng, rng.choice([0, 1, 3, 16, 33, 64, 70])), rbytes(rng, rng.choice([0, 0, 1, 16, 20]))) for _ in range(npk)]
            cases.append("fsaead %s %d %s" % (rbytes(rng, 32), interval, ",".join(pk)))
    cases.append("fsaead %s %d %s" % (rbytes(rng, 32), 224, ",".join("%s:-" % rbytes(rng, 3) for _ in range(226 if tier == "quick" else 700))))
    return cases


def gen_sip_sha3(rng, tier):
    cases = []
    U64 = (1 << 64) - 1
    def key():
        return rng.choice([0, 1, U64, rng.getrandbits(64), 0x0706050403020100])
    # SipHash-2-4: every length 0..40, block / counter-wrap boundaries, fragments of 0,1,7,8,9 bytes
    for n in list(range(0, 41)) + [63, 64, 65, 255, 256, 257, 263, 264, 265, 511, 512, 513, 1000]:
        m = rbytes(rng, n)
        fr = fragmentations(rng, n, 8, 2 if tier == "quick" else 12)
        for f in ([fr[0]] + rng.sample(fr, min(len(fr), 3 if tier == "quick" else 10))):
            cases.append("siphash %d %d %s %s" % (key(), key(), m, chunks_str(f)))
    for n in (0, 8, 16, 24, 256, 264):
        cases.append("siphash_w64 %d %d %s" % (key(), key(), rbytes(rng, n)))
    for _ in range(20 if tier == "quick" else 500):
        v = rbytes(rng, 32)
        cases.append("siphash_u256 %d %d %s" % (key(), key(), v))
        cases.append("siphash_u256x %d %d %s %d" % (key(), key(), v, rng.choice([0, 1, 0xffffffff, rng.getrandbits(32)])))
        bl = [rbytes(rng, rng.choice([8, 32])) for _ in range(rng.randrange(0, 5))]
        cases.append("siphash13uj %d %d %s" % (key(), key(), ",".join(bl) if bl else "-"))
    # SHA3-256: 8-byte lane buffer and 136-byte rate boundaries
    for n in list(range(0, 20)) + [127, 128, 129, 134, 135, 136, 137, 138, 143, 144, 145, 271, 272, 273, 407, 408, 409, 500]:
        m = rbytes(rng, n)
        fr = fragmentations(rng, n, 8, 2) + fragmentations(rng, n, 136, 2)
        for f in ([fr[0]] + rng.sample(fr, min(len(fr), 4 if tier == "quick" else 16))):
            cases.append("sha3 %s %s" % (m, chunks_str(f)))
    for _ in range(4 if tier == "quick" else 100):
        cases.append("keccakf %s" % rbytes(rng, 200))
    cases.append("keccakf " + "00" * 200)
    return cases


def gen_aes(rng, tier):
    cases = []
    def key():
        r = rng.random()
        if r < 0.1: return "00" * 32
        if r < 0.2: return "ff" * 32
        if r < 0.3: return "".join("%02x" % i for i in range(32))
        return rbytes(rng, 32)
    def block():
        r = rng.random()
        if r < 0.1: return "00" * 16
        if r < 0.2: return "ff" * 16
        if r < 0.35:
            b = [0] * 16; b[rng.randrange(16)] = 1 << rng.randrange(8)      # unit vectors: every S-box input / column position
            return "".join("%02x" % x for x in b)
        return rbytes(rng, 16)
    SIZES = [0, 1, 15, 16, 17, 31, 32, 33, 47, 48, 49, 63, 64, 65, 255, 256, 257]
    k32 = "".join("%02x" % i for i in range(32))
    cases.append("aes256_enc %s 00112233445566778899aabbccddeeff" % k32)      # FIPS 197 C.3
    cases.append("aes256_dec %s 8ea2b7ca516745bfeafc49904b496089" % k32)
    n = 60 if tier == "quick" else 3000
    for _ in range(n):
        cases.append("aes256_enc %s %s" % (key(), block()))
        cases.append("aes256_dec %s %s" % (key(), block()))
    for _ in range(n):
        sz = rng.choice(SIZES) if rng.random() < 0.7 else rng.randrange(0, 200)
        pad = rng.randrange(2)
        if pad == 0 and rng.random() < 0.7:
            sz = 16 * rng.randrange(0, 6)
        cases.append("aes256cbc_enc %s %s %s %d" % (key(), block(), rbytes(rng, sz), pad))
        # decryption of arbitrary strings (unaligned sizes, almost surely bad padding)
        cases.append("aes256cbc_dec %s %s %s %d" % (key(), block(), rbytes(rng, rng.choice(SIZES)), rng.randrange(2)))
    # padding check: hand-made plaintext tails (padding byte 0,1,2,..,16,17,255; one padding byte broken; byte before the padding equal to it)
    for _ in range(2 * n):
        nb = rng.choice([1, 1, 2, 3, 4])
        p = [rng.randrange(256) for _ in range(16 * nb)]
        pl = rng.choice([0, 1, 2, 3, 8, 15, 16, 16, 17, 32, 255, rng.randrange(256)])
        for j in range(min(pl, 16)):
            p[len(p) - 1 - j] = pl
        p[-1] = pl
        if 1 <= pl <= 16 and rng.random() < 0.5:
            j = rng.choice([1, pl - 1, pl - 1, rng.randrange(pl)])
            if j >= 1:
                p[len(p) - 1 - j] ^= 1 << rng.randrange(8)
        if rng.random() < 0.2 and pl < len(p):
            p[len(p) - 1 - pl] = pl & 255
        cases.append("aes256cbc_pt %s %s %s %d" % (key(), block(), "".join("%02x" % x for x in p), rng.choice([0, 1, 1, 1])))
    return cases


def gen_wrap(rng, tier):
    cases = []
    for name in ("hash256", "hash160"):
        for n in [0, 1, 31, 32, 33, 55, 56, 63, 64, 65, 80, 119, 120, 128, 200]:
            m = rbytes(rng, n)
            fr = fragmentations(rng, n, 64, 2)
            for f in rng.sample(fr, min(len(fr), 3 if tier == "quick" else 12)):
                cases.append("%s %s %s" % (name, m, chunks_str(f)))
    tags = [b"TapLeaf", b"TapBranch", b"TapTweak", b"BIP0340/challenge", b"BIP0340/aux", b"BIP0340/nonce", b"", b"x" * 64, b"y" * 65]
    for tag in tags:
        for n in (0, 1, 32, 63, 64, 65, 96, 150):
            m = rbytes(rng, n)
            f = rng.choice(fragmentations(rng, n, 64, 2))
            cases.append("taggedhash %s %s %s" % (tag.hex() if tag else "-", m, chunks_str(f)))
    for _ in range(20 if tier == "quick" else 500):
        cases.append("bip32hash %s %d %d %s" % (rbytes(rng, 32), rng.choice([0, 1, 0x7fffffff, 0x80000000, 0xffffffff, rng.getrandbits(32)]),
                                                rng.choice([0, 2, 3]), rbytes(rng, 32)))
    for n in list(range(0, 18)) + [31, 32, 33, 100]:
        for seed in (0, 1, 0xFBA4C795, 0xffffffff, rng.getrandbits(32)):
            cases.append("murmur3 %d %s" % (seed, rbytes(rng, n)))
    for d in ("-", "00", "ff", "0011", "001122", "00112233", "0011223344", "001122334455667788"):
        cases.append("murmur3 0 %s" % d)
    return cases


def mk(name, gen):
    return Tie(name, "tie/drivers/crypto_drv.cpp", "Extract_Crypto.v", "crypto_driver.ml", gen,
               predicate="functional", nontrivial=lambda c: " - " not in c)


TIES = [mk("sha256", gen_sha256), mk("hashes", gen_hashes), mk("hmac_hkdf", gen_hmac),
        mk("chacha20", gen_chacha), mk("poly1305", gen_poly), mk("aead", gen_aead), mk("siphash_sha3", gen_sip_sha3),
        mk("aes", gen_aes), mk("hash_wrappers", gen_wrap)]

LEVEL_TEXT = ("Coq theorems for all inputs (36 statements): (1) the streaming wrapper shared by CSHA256/CSHA1/CRIPEMD160/CSHA512 (bytes counter, "
              "partial-block buffer with arbitrary initial contents, the three phases of Write, Finalize's padding) is proved ONCE for any block size "
              "and compression function to return, for every fragmentation, the padded iteration of the standard, and instantiated for the four "
              "hashers with specifications written from FIPS 180-4 / the RIPEMD-160 paper; SHA3_256 and CSipHasher likewise (FIPS 202, SipHash paper; "
              "no length bound; the unrolled KeccakF is proved equal to Keccak-f[1600]); (2) CHMAC_SHA256/512 = RFC 2104 for every key length, "
              "CHKDF_HMAC_SHA256_L32 = RFC 5869; CHash256/CHash160/TaggedHash/BIP32Hash = their definitions; TransformD64Wrapper and the SHA256D64 "
              "dispatch loop = double SHA-256 per block; (3) ChaCha20: any sequence of Crypt/Keystream calls yields consecutive slices of the block "
              "stream (chunking independence, involution), equal to RFC 8439 while the 32-bit counter does not wrap; Poly1305: incremental Update = "
              "one-shot RFC 8439, and the 26-bit limb code of poly1305_donna (every uint32/uint64 operation explicit) is proved to compute it; "
              "(4) AEADChaCha20Poly1305: Encrypt = RFC 8439 2.8 for every plaintext split, Decrypt accepts iff the 16 tag bytes equal the Poly1305 "
              "tag of (aad, ciphertext) and then returns the plaintext, round trip, a modified tag is always rejected, acceptance implies a valid tag; "
              "FSChaCha20Poly1305's packet/rekey counters and FSChaCha20's chunk counter / key refresh realise BIP324's schedules; (5) AES-256: InvCipher inverts Cipher (FIPS 197, S-box from its "
              "definition), AES256CBC wrappers = SP 800-38A with PKCS#7, round trip, exact padding-check characterisation. Standards' test vectors "
              "evaluated inside Coq pin every specification. The real classes are compared with the specifications on boundary-length inputs in "
              "boundary-straddling fragmentations under every SHA-256 backend of the CPU, with tamperings and rekey crossings.")
LEVEL_NOTE = ("Trusted: Coq kernel, extraction + driver glue. Correspondence only (not proof): that the optimised compression / block functions named "
              "in ASSUMPTIONS compute the standard's function; FSChaCha20 (length cipher) and SipHasher13UJ are modelled and compared but have no "
              "BIP-level theorem. Lengths >= 2^61 bytes are outside the hashers' theorems (the standards do not define them either).")
TECHNIQUE = "Coq proof (generic streaming-buffer refinement, stream-reader refinement for ChaCha20, limb arithmetic, vm_compute test vectors) + differential correspondence"
