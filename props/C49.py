from vlib.runner import Tie
from vlib import core

ID = "C49"
LEVEL = "proof"
DESIGN_REF = "DESIGN.md section 5, C49"
PROP_FILES = ["props/Properties_C49.v"]
RULE = ("cases: for each primitive, messages of every length around the block/padding boundaries (0,1,55,56,57,63,64,65,119,120,121,"
        "127,128,129,... and the analogous 111/112/128 for SHA-512, 135/136 for SHA3-256, 15/16/17 for Poly1305, 63/64/65 for ChaCha20) with "
        "random content, fed in every two-piece fragmentation that cuts at a boundary +-1, three-piece fragmentations whose cuts straddle "
        "block boundaries, byte-at-a-time, empty pieces, and seeded random fragmentations; longer random messages (up to ~2000 bytes); "
        "SHA-256 cases are run under every implementation SHA256AutoDetect can select (standard, sse4, sse4+avx2, shani) and SHA256D64 for "
        "1..17 blocks; AEAD: round trips and every single-bit tampering class (ciphertext, tag byte 0..15, aad). "
        "A case is non-trivial when the message is not empty; distinct = distinct case lines.")
ASSUMPTIONS = ["the compression / permutation / block functions of the C++ (sha256::Transform and its SSE4, AVX2, SHA-NI variants, sha1/sha512/ripemd160 "
               "Transform, KeccakF, the ChaCha20 block loop, poly1305_blocks limb arithmetic, SipRound) are not modelled at instruction level: the "
               "model of each C++ object calls the standard's function at that point, and equality is checked by the correspondence only",
               "total input length in bits fits the standard's length field (8*len < 2^64): premise of the streaming theorems",
               "a byte is a number below 256"]
TRUSTED = ["Coq 8.16.1 kernel (coqc; vm_compute for the standards' test vectors; no native_compute)",
           "extraction: ExtrOcamlBasic only; ocaml/conv.ml + crypto_driver.ml glue",
           "tie/drivers/crypto_drv.cpp feeds the real classes of src/crypto with one Write/Update/Crypt call per prescribed fragment and prints the result"]

BOUND64 = [0, 1, 2, 3, 31, 32, 33, 54, 55, 56, 57, 62, 63, 64, 65, 66, 118, 119, 120, 121, 126, 127, 128, 129, 130, 183, 184, 191, 192, 193, 255, 256, 257]


def rbytes(rng, n):
    return "".join("%02x" % rng.randrange(256) for _ in range(n)) if n else "-"


def chunks_str(sz):
    return ",".join(str(x) for x in sz) if sz else "-"


def fragmentations(rng, n, block, nrand):
    """Fragmentations of a message of n bytes aimed at the buffer logic of a block-`block` streaming object."""
    out = [[n]]
    if n == 0:
        return [[], [0], [0, 0]]
    cuts = set()
    for k in range(0, n // block + 2):
        for d in (-1, 0, 1):
            c = k * block + d
            if 0 <= c <= n:
                cuts.add(c)
    for c in (0, 1, n - 1, n, block - 9, block - 8, block - 7, 2 * block - 9, 2 * block - 8):
        if 0 <= c <= n:
            cuts.add(c)
    cuts = sorted(cuts)
    for c in cuts:
        out.append([c, n - c])
    # three pieces: first cut leaves a partial buffer, second cut lands around a boundary
    for a in cuts:
        for b in cuts:
            if a < b and (a % block) != 0 and rng.random() < 0.5:
                out.append([a, b - a, n - b])
    if n <= 200:
        out.append([1] * n)
    for _ in range(nrand):
        sz, left = [], n
        while left > 0:
            r = rng.random()
            if r < 0.1:
                k = 0
            elif r < 0.5:
                k = rng.randrange(1, min(left, block + 2) + 1)
            elif r < 0.8:
                k = min(left, rng.choice([block - 1, block, block + 1, 2 * block - 1, 2 * block, 2 * block + 1, block - (sum(sz) % block)]))
            else:
                k = rng.randrange(1, left + 1)
            sz.append(k); left -= k
        if rng.random() < 0.3:
            sz.append(0)
        out.append(sz)
    seen, res = set(), []
    for f in out:
        t = tuple(f)
        if t not in seen:
            seen.add(t); res.append(f)
    return res


def gen_md(name, block, bounds, rng, tier, nlong, per_len_cap):
    cases = []
    for n in bounds:
        m = rbytes(rng, n)
        fr = fragmentations(rng, n, block, 3 if tier == "quick" else 30)
        if tier == "quick" and len(fr) > per_len_cap:
            fr = fr[:per_len_cap // 2] + rng.sample(fr[per_len_cap // 2:], per_len_cap - per_len_cap // 2)
        for f in fr:
            cases.append("%s %s %s" % (name, m, chunks_str(f)))
    for _ in range(nlong):
        n = rng.choice([rng.randrange(0, 300), rng.randrange(300, 2100)])
        m = rbytes(rng, n)
        for f in rng.sample(fragmentations(rng, n, block, 2), 2):
            cases.append("%s %s %s" % (name, m, chunks_str(f)))
    return cases


def gen_sha256(rng, tier):
    cases = ["sha256 616263 3", "sha256 - -"]
    cases += gen_md("sha256", 64, BOUND64, rng, tier, 12 if tier == "quick" else 600, 40)
    for blocks in list(range(1, 18)) + ([] if tier == "quick" else [31, 32, 33, 64]):
        cases.append("sha256d64 %s" % rbytes(rng, 64 * blocks))
    return cases


BOUND128 = [0, 1, 2, 63, 64, 65, 110, 111, 112, 113, 126, 127, 128, 129, 130, 238, 239, 240, 241, 255, 256, 257, 383, 384, 385]
BOUND64S = [0, 1, 3, 55, 56, 57, 63, 64, 65, 119, 120, 121, 127, 128, 129, 191, 192, 193]


def gen_hashes(rng, tier):
    cases = []
    cases += gen_md("sha1", 64, BOUND64S, rng, tier, 6 if tier == "quick" else 300, 24)
    cases += gen_md("ripemd160", 64, BOUND64S, rng, tier, 6 if tier == "quick" else 300, 24)
    cases += gen_md("sha512", 128, BOUND128, rng, tier, 6 if tier == "quick" else 300, 20)
    return cases


def gen_hmac(rng, tier):
    cases = []
    for name, block in (("hmac256", 64), ("hmac512", 128)):
        keylens = [0, 1, block // 2 - 1, block // 2, block // 2 + 1, block - 1, block, block + 1, block + 2, 2 * block - 1, 2 * block, 2 * block + 1, 3 * block + 5]
        msglens = [0, 1, block - 9, block - 1, block, block + 1, 2 * block + 3]
        for kl in keylens:
            key = rbytes(rng, kl)
            for ml in (msglens if tier != "quick" else rng.sample(msglens, 4)):
                m = rbytes(rng, ml)
                fr = fragmentations(rng, ml, block, 2)
                for f in rng.sample(fr, min(len(fr), 3 if tier == "quick" else 12)):
                    cases.append("%s %s %s %s" % (name, key, m, chunks_str(f)))
    infolens = [0, 1, 22, 54, 55, 56, 63, 64, 65, 118, 119, 127, 128]
    for il in infolens:
        for sl in (0, 1, 32, 63, 64, 65, 100):
            if tier == "quick" and rng.random() < 0.5:
                continue
            cases.append("hkdf %s %s %s" % (rbytes(rng, rng.choice([0, 1, 16, 32, 33, 64, 100])), rbytes(rng, sl), rbytes(rng, il)))
    # the BIP324 use: salt "bitcoin_v2_shared_secret" + network magic, 32-byte ikm, short labels
    salt = "626974636f696e5f76325f7368617265645f736563726574f9beb4d9"
    for label in (b"initiator_L", b"initiator_P", b"responder_L", b"responder_P", b"garbage_terminators", b"session_id"):
        cases.append("hkdf %s %s %s" % (rbytes(rng, 32), salt, label.hex()))
    return cases


def mk(name, gen):
    return Tie(name, "tie/drivers/crypto_drv.cpp", "Extract_Crypto.v", "crypto_driver.ml", gen,
               predicate="functional", nontrivial=lambda c: " - " not in c)


TIES = [mk("sha256", gen_sha256), mk("hashes", gen_hashes), mk("hmac_hkdf", gen_hmac)]

LEVEL_TEXT = ("Coq theorems for all inputs: the model of the C++ streaming hashers (bytes counter, partial-block buffer, the three phases of Write, "
              "the padding written by Finalize), proved once for any block size and compression function and instantiated for CSHA256, fed any "
              "fragmentation of a message (empty pieces, any initial buffer contents) returns the one-shot digest defined from FIPS 180-4. "
              "FIPS test vectors evaluated inside Coq pin the specification; the real classes are compared with the specification on boundary-length "
              "messages in boundary-straddling fragmentations under every SHA-256 backend the CPU offers.")
LEVEL_NOTE = ("Trusted: Coq kernel, extraction + driver glue. Not covered by proof: that the hand-optimised / intrinsics compression functions compute "
              "the standard's compression function (correspondence only).")
TECHNIQUE = "Coq proof (generic streaming-buffer refinement + vm_compute test vectors) + differential correspondence"
