from vlib.runner import Tie
from vlib import core

ID = "C34"
LEVEL = "proof"
DESIGN_REF = "DESIGN.md section 5, C34"
PROP_FILES = ["props/Properties_C34.v"]
RULE = ("cases: operation scripts (ReceivedInv / GetRequestable / RequestedTx / ReceivedResponse / ForgetTxHash / "
        "DisconnectedPeer) over 2-4 peers and 3-6 txhashes with request times, expiries and clock values within a few "
        "microseconds of each other (so that every <= / > boundary of SetTimePoint is hit, clock also moving backwards), "
        "preferred and non-preferred, txid and wtxid announcements, scripted request/response cycles; after every operation "
        "the C++ driver prints GetRequestable's answer, the expired set, Size and Count/CountInFlight/CountCandidates per "
        "peer and the candidate peers per txhash. A case is non-trivial when it contains a get after an inv; distinct = "
        "distinct case lines.")
ASSUMPTIONS = ["fewer than 2^59 announcements are created in the lifetime of a tracker (m_sequence is a 59-bit field); the "
               "theorems quantify over operation sequences whose sequence counter stays below that",
               "theorems that speak about 'the best' candidate hold for every priority function; the comparison with the "
               "reference model assumes that two announcements of one txhash from different peers never have equal priority "
               "(63-bit SipHash collision), and 'preferred first' assumes preferred priorities exceed non-preferred ones "
               "(proved for the modelled PriorityComputer: bit 63)",
               "the boost multi_index container is modelled as a list with the queries its sort orders define; the model is a "
               "hand transcription tied by the correspondence on the listed cases"]
TRUSTED = ["Coq 8.16.1 kernel (coqc; no native_compute)",
           "extraction: ExtrOcamlBasic only; ocaml/conv.ml + txrequest_driver.ml glue (zarith only to parse/print text)",
           "tie/drivers/txrequest_drv.cpp drives the real TxRequestTracker(deterministic=true) and prints its public accessors"]


_POOL = {}


def _pool(rng):
    # a run uses one pool of txhashes (the modelled SipHash is slow on Coq integers and is memoised per run)
    k = id(rng)
    if k not in _POOL:
        _POOL.clear()
        _POOL[k] = (["%x" % rng.randrange(1, 1 << 16) for _ in range(14)],
                    ["%x" % rng.getrandbits(256) for _ in range(8)] + ["%x" % ((1 << 256) - 1), "0"])
    return _POOL[k]


def _hex(rng, wide):
    short, long_ = _pool(rng)
    return rng.choice(long_ if wide else short)


def gen_script(rng, nops, style):
    npeers = rng.choice([2, 3, 3, 4])
    peers = rng.sample([0, 1, 2, 3, 4, 5, 7], npeers)
    if rng.random() < 0.08:
        peers[0] = rng.choice([-1, 9223372036854775807, -9223372036854775808])
    ntx = rng.choice([1, 2, 3, 4, 5, 6]) if style != "single" else 1
    wide = rng.random() < 0.3
    txs = []
    while len(txs) < ntx:
        h = _hex(rng, wide)
        if h not in txs:
            txs.append(h)
    base = rng.choice([0, 100, 1000, 244466666])
    now = base
    ops = []
    announced = []  # (peer, tx)
    for _ in range(nops):
        r = rng.random()
        # clock: mostly creeping forward by 0..2, sometimes backwards
        def t_near():
            return now + rng.choice([-2, -1, 0, 0, 1, 1, 2, 3])
        if style == "cycle":
            wts = (0.30, 0.62, 0.80, 0.92, 0.96)
        elif style == "time":
            wts = (0.35, 0.80, 0.90, 0.95, 0.98)
        else:
            wts = (0.30, 0.58, 0.76, 0.90, 0.95)
        if r < wts[0]:
            p = rng.choice(peers); h = rng.choice(txs)
            rt = t_near() if rng.random() < 0.85 else rng.choice([-9223372036854775808, now - 1000, now + 1000])
            ops.append("inv %d %s %d %d %d" % (p, h, rng.randrange(2), 1 if rng.random() < 0.4 else 0, rt))
            announced.append((p, h))
        elif r < wts[1]:
            d = rng.choice([0, 0, 1, 1, 1, 2, 3, -1, -2]) if rng.random() < 0.9 else rng.choice([-50, 50, 1000])
            now += d
            ops.append("get %d %d" % (rng.choice(peers), now))
        elif r < wts[2]:
            if announced and rng.random() < 0.9:
                p, h = rng.choice(announced)
            else:
                p = rng.choice(peers); h = rng.choice(txs)
            ops.append("req %d %s %d" % (p, h, t_near() + rng.choice([0, 0, 1, 2, 5])))
        elif r < wts[3]:
            if announced and rng.random() < 0.9:
                p, h = rng.choice(announced)
            else:
                p = rng.choice(peers); h = rng.choice(txs)
            ops.append("resp %d %s" % (p, h))
        elif r < wts[4]:
            ops.append("forget %s" % rng.choice(txs))
        else:
            ops.append("disc %d" % rng.choice(peers))
    return " ; ".join(ops)


def gen(rng, tier):
    n = 1800 if tier == "quick" else 60000
    cases = []
    for i in range(n):
        style = rng.choice(["mixed", "mixed", "cycle", "time", "single"])
        nops = rng.choice([4, 8, 12, 20, 30, 45, 70])
        cases.append(gen_script(rng, nops, style))
    return cases


def shrink(case):
    ops = case.split(" ; ")
    n = len(ops)
    # drop the tail after a failure point is found fastest by halving, then single ops
    if n > 4:
        yield " ; ".join(ops[: n // 2])
        yield " ; ".join(ops[: (3 * n) // 4])
        for k in (8, 4, 2):
            if n > 2 * k:
                for s in range(0, n, k):
                    yield " ; ".join(ops[:s] + ops[s + k:])
    for i in range(n - 1, -1, -1):
        if n > 1:
            yield " ; ".join(ops[:i] + ops[i + 1:])


def nontrivial(c):
    i = c.find("inv ")
    return i >= 0 and c.find("get ", i) >= 0


TIES = [Tie("txrequest_ops", "tie/drivers/txrequest_drv.cpp", "Extract_TxRequest.v", "txrequest_driver.ml", gen,
            predicate="driver", nontrivial=nontrivial, classify=lambda c: "len<=%d" % (8 if c.count(";") < 8 else 20 if c.count(";") < 20 else 70),
            shrink=shrink)]

LEVEL_TEXT = ("Coq theorems, by induction over ALL operation sequences (any arguments, clock in any order, any priority function) of an "
              "executable transcription of TxRequestTracker::Impl: every SanityCheck clause and PostGetRequestableSanityCheck hold in "
              "every reachable state (at most one REQUESTED/BEST per txhash, COMPLETED-only txhashes deleted, per-peer counters equal "
              "their recomputation, no failing assert, loop fuel sufficient); GetRequestable returns exactly the peer's BEST "
              "announcements in sequence order, each a never-requested candidate whose reqtime has passed, of maximal priority, "
              "preferred first; no stall; an announcement is never requested twice; and the whole run refines an announcement-level "
              "reference specification (same GetRequestable answers, expired sets, Count*/Size/GetCandidatePeers). Model and "
              "reference tied to the real TxRequestTracker by differential execution of operation scripts.")
LEVEL_NOTE = ("Premises kept in the statements: fewer than 2^59 operations (59-bit m_sequence); for 'matches the reference model' "
              "no two peers share a priority for one txhash (63-bit SipHash collision); 'preferred first' for priority functions "
              "ranking preferred above non-preferred (proved for the modelled SipHash-based PriorityComputer). The boost "
              "multi_index container is modelled as a list plus the queries its sort orders define (order among equal keys is not "
              "modelled: expired lists are compared as sets). Trusted: Coq kernel; extraction (ExtrOcamlBasic) and OCaml/C++ "
              "driver glue; the model is a hand transcription checked by correspondence, not by a semantics of C++.")
TECHNIQUE = "Coq proof (induction over all operation sequences of an executable transcription) + differential correspondence against the real TxRequestTracker and an extracted reference model"
