from vlib.runner import Tie
from vlib import core
from props import script_gen as G
from props.script_gen import O, op, push, push_int, scriptnum, hx

ID = "C12"
LEVEL = "proof"
DESIGN_REF = "DESIGN.md section 5, C12"
PROP_FILES = ["props/Properties_C12.v"]
RULE = ("cases: `eval <sigversion> <flags> <script> <oracle bits> <weight> <initial stack>` lines run through the real EvalScript "
        "(stub BaseSignatureChecker answering from the oracle bits) and through the extracted Coq interpreter; scripts come from a "
        "grammar over every opcode aimed at each limit (200/201/202 counted ops incl. the CHECKMULTISIG key count, 520/521-byte pushes, "
        "999/1000/1001 stack+altstack items, script size 10000/10001, numbers at +-2^31 and 4/5/6-byte operands, non-minimal pushes and "
        "numbers with/without MINIMALDATA, PICK/ROLL index -1/0/size-1/size, nested and unbalanced IF/ELSE/ENDIF, disabled and unknown "
        "opcodes in executed and unexecuted branches, CHECKSIG/CHECKMULTISIG with well-formed and defective DER signatures and "
        "public keys under every encoding flag, NULLDUMMY/NULLFAIL, FindAndDelete/CODESEPARATOR, CLTV/CSV operands, tapscript "
        "CHECKSIGADD / validation weight 49/50 / MINIMALIF), random opcode soup and random bytes; every vector of "
        "src/test/data/script_tests.json replayed as scriptSig-then-scriptPubKey evaluation under several oracles and through the "
        "whole VerifyScript (P2SH, witness v0, CLEANSTACK; taproot templates skipped); CHECKMULTISIG key/signature matching for "
        "every key count 0..21 with the oracle deciding each pair; taproot script-path spends of real TaprootBuilder trees (NUMS internal key, "
        "1 or 2 leaves) and key-path spends through VerifyScript: leaf scripts with / without each OP_SUCCESSx opcode at every position, "
        "before and after truncated pushes, arguments of 520/521 bytes, 1000/1001 arguments, annex present / absent, DISCOURAGE_OP_SUCCESS on / off, "
        "leaf versions, control blocks truncated / extended / bit-flipped, the validation-weight boundary; plus direct "
        "CScriptNum / CastToBool / FindAndDelete / CheckSignatureEncoding cases. Non-trivial = an eval case whose script has at "
        "least two instructions; distinct = distinct case lines.")
ASSUMPTIONS = ["hash functions are parameters of the model (Section variables); the limits theorem assumes only their output lengths (20/32 bytes)",
               "signature, locktime and sequence checks are an arbitrary function (record `checker`) in every theorem",
               "bytes are integers in [0,256) (premise of the CScriptNum theorems)",
               "the model is a hand transcription of EvalScript; tied by the correspondence on the listed cases"]
TRUSTED = ["Coq 8.16.1 kernel (coqc; vm_compute for the generated-constant lemmas)",
           "tie/params/script.h + dump_params.cpp print opcode values, flag bit positions and limits from the compiled tree",
           "extraction: ExtrOcamlBasic only; ocaml/conv.ml + script_driver.ml glue; ocaml/script_hashes.ml (SHA-256/SHA-1/RIPEMD-160 for the hash opcodes)",
           "tie/drivers/script_drv.cpp calls EvalScript / VerifyScript / CScriptNum / FindAndDelete / CheckSignatureEncoding with a stub checker that is the same function of the oracle bits as the model's stub_checker; "
           "for taproot cases it builds the tree with TaprootBuilder on XOnlyPubKey::NUMS_H and the model side is told only whether the control block was tampered with"]

NFLAGS = 21
ALL = (1 << NFLAGS) - 1


def ev(sv, flags, script, obits=0xffffffff, weight=1000, stack=()):
    return "eval %d %d %s %d %d %d%s" % (sv, flags, hx(script), obits, weight, len(stack), "".join(" " + hx(e) for e in stack))


def flagsets(rng, B, k=3):
    """a few flag sets: none, all, and random ones"""
    out = [0, ALL]
    for _ in range(k):
        out.append(G.rand_flags(rng, NFLAGS))
    return out


def gen_limits(rng, B, tier):
    c = []
    MD = 1 << B["MINIMALDATA"]
    for sv in (0, 1, 3):
        # counted opcodes 200/201/202 (OP_NOP), pushes do not count, OP_RESERVED/VERIF in a dead branch do
        for n in (200, 201, 202):
            c.append(ev(sv, 0, op("1") + op("NOP") * n))
            c.append(ev(sv, 0, op("1") * 300 + op("NOP") * n))
            c.append(ev(sv, 0, op("0") + op("IF") + op("NOP") * (n - 2) + op("ENDIF") + op("1")))
            c.append(ev(sv, 0, op("0") + op("IF") + bytes([0x50]) * 50 + op("NOP") * (n - 2) + op("ENDIF") + op("1")))
            c.append(ev(sv, 0, op("0") + op("IF") + bytes([0xbb]) * (n - 2) + op("ENDIF") + op("1")))
        # CHECKMULTISIG adds the key count
        for nk in (0, 1, 19, 20, 21):
            for pad in (201 - 1 - nk - 1, 201 - 1 - nk, 201 - nk):
                if pad < 0: continue
                s = op("NOP") * pad + op("0") + op("0") + op("1") * nk + push_int(nk) + op("CHECKMULTISIG")
                c.append(ev(sv, 0, s))
        # element size 519/520/521 through every push opcode
        for n in (75, 76, 255, 256, 519, 520, 521, 522, 65535, 65536):
            d = bytes([7]) * n
            for enc in (push(d), bytes([0x4d, n & 0xff, (n >> 8) & 0xff]) + d if n <= 0xffff else None, bytes([0x4e]) + n.to_bytes(4, "little") + d):
                if enc is None: continue
                for fl in (0, MD):
                    c.append(ev(sv, fl, enc))
                    c.append(ev(sv, fl, op("0") + op("IF") + enc + op("ENDIF") + op("1")))
        # truncated pushes
        for s in (b"\x4c", b"\x4d\x01", b"\x4e\x01\x00\x00", b"\x05\x01\x02", b"\x4c\x05\x01", b"\x4e\xff\xff\xff\xff\x00", b"\x4e\xff\xff\xff\x7f"):
            c.append(ev(sv, 0, op("1") + s))
            c.append(ev(sv, 0, op("RETURN") + s))
            c.append(ev(sv, 0, op("0") + op("IF") + s))
        # stack + altstack 999/1000/1001
        for n in (998, 999, 1000, 1001):
            c.append(ev(sv, 0, op("1") * n))
            c.append(ev(sv, 0, op("1") * (n - 1) + op("DUP")))
            c.append(ev(sv, 0, op("1") * (n - 3) + op("3DUP")))
            c.append(ev(sv, 0, op("1") * (n - 1) + op("TOALTSTACK") * 100 + op("DUP")))
            c.append(ev(sv, 0, op("1") * (n - 1) + op("DEPTH")))
            c.append(ev(sv, 0, op("1") * (n - 1) + op("0") + op("IF") + op("ENDIF")))
            c.append(ev(sv, 0, op("NOP"), stack=[b"\x01"] * n))
            c.append(ev(sv, 0, b"", stack=[b"\x01"] * n))
            c.append(ev(sv, 0, op("DROP"), stack=[b"\x01"] * n))
            c.append(ev(sv, 0, op("DUP") + op("DROP"), stack=[b"\x01"] * (n - 1)))
        # script size
        for n in (9999, 10000, 10001):
            c.append(ev(sv, 0, op("1") + op("0") + op("IF") + bytes([0x50]) * (n - 4) + op("ENDIF")))
            c.append(ev(sv, 0, push(bytes(500)) * (n // 503) + op("1") * (n - 503 * (n // 503))))
        # initial elements larger than 520 are not checked by EvalScript
        c.append(ev(sv, 0, op("SIZE"), stack=[bytes(521)]))
        c.append(ev(sv, 0, op("DUP") + op("SHA256"), stack=[bytes(70000)]))
    return c


def gen_numbers(rng, B, tier):
    c = []
    MD = 1 << B["MINIMALDATA"]
    vals = [scriptnum(n) for n in G.NUMS] + G.NONMIN
    for sv in (0, 3):
        for fl in (0, MD):
            for v in vals:
                for u in G.UNARY:
                    c.append(ev(sv, fl, push(v) + op(u)))
                c.append(ev(sv, fl, op(rng.choice(G.UNARY)), stack=[v]))
                c.append(ev(sv, fl, op("1") + op("SWAP") + op("PICK"), stack=[v]))
                c.append(ev(sv, fl | (1 << B["CHECKLOCKTIMEVERIFY"]), op("CHECKLOCKTIMEVERIFY"), obits=rng.getrandbits(32), stack=[v]))
                c.append(ev(sv, fl | (1 << B["CHECKSEQUENCEVERIFY"]), op("CHECKSEQUENCEVERIFY"), obits=rng.getrandbits(32), stack=[v]))
                c.append(ev(sv, fl, op("CHECKLOCKTIMEVERIFY") + op("CHECKSEQUENCEVERIFY"), stack=[v]))
            pairs = [(a, b) for a in vals for b in vals]
            rng.shuffle(pairs)
            for a, b in pairs[:(400 if tier == "quick" else 4000)]:
                c.append(ev(sv, fl, op(rng.choice(G.BINARY)), stack=[a, b]))
            for _ in range(150 if tier == "quick" else 3000):
                a, b, d = rng.choice(vals), rng.choice(vals), rng.choice(vals)
                c.append(ev(sv, fl, op("WITHIN"), stack=[a, b, d]))
                x = rng.randrange(-5, 6); lo = rng.randrange(-5, 6); hi = rng.randrange(-5, 6)
                c.append(ev(sv, fl, push_int(x) + push_int(lo) + push_int(hi) + op("WITHIN")))
            # results of 5 bytes can be pushed but not consumed
            for a, b in ((G.I31 - 1, G.I31 - 1), (-(G.I31 - 1), -(G.I31 - 1)), (G.I31 - 1, 1), (-(G.I31 - 1), -1)):
                c.append(ev(sv, fl, push_int(a) + push_int(b) + op("ADD")))
                c.append(ev(sv, fl, push_int(a) + push_int(b) + op("ADD") + op("1ADD")))
                c.append(ev(sv, fl, push_int(a) + push_int(-b) + op("SUB") + op("SIZE")))
                c.append(ev(sv, fl, push_int(a) + push_int(b) + op("ADD") + op("0") + op("ADD")))
    for n in G.NUMS + [-(2 ** 63), 2 ** 63 - 1, -(2 ** 63) + 1] + [rng.randrange(-2 ** 40, 2 ** 40) for _ in range(200)]:
        if -(2 ** 63) <= n < 2 ** 63:
            c.append("enc %d" % n)
    for v in vals + [bytes(rng.randrange(256) for _ in range(rng.randrange(0, 9))) for _ in range(400)]:
        for rm in (0, 1):
            for mx in (4, 5):
                if len(v) <= 8:
                    c.append("num %s %d %d" % (hx(v), rm, mx))
        c.append("castbool %s" % hx(v))
    for v in (b"", b"\x00", b"\x80", b"\x00\x80", b"\x80\x00", b"\x00\x00\x80", b"\x01", b"\x00\x01\x80", bytes(520) + b"\x80", bytes(521)):
        c.append("castbool %s" % hx(v))
    return c


def gen_stackops(rng, B, tier):
    c = []
    MD = 1 << B["MINIMALDATA"]
    elems = [b"", b"\x01", b"\x02", b"\x03", b"\x04", b"\x05", b"\x06", b"\x07", b"\x80", b"\x00", b"abc"]
    for depth in range(0, 9):
        st = elems[1:1 + depth]
        for name in G.STACKOPS + G.HASHES + ["CHECKSIG", "CHECKSIGVERIFY", "CHECKMULTISIG", "WITHIN", "ADD", "1ADD", "IF", "NOTIF", "CHECKSIGADD"]:
            for sv in (0, 1, 3):
                c.append(ev(sv, 0, op(name) + (op("ENDIF") if name in ("IF", "NOTIF") else b""), stack=st))
        # PICK / ROLL indexes -1, 0, size-1, size (size = depth after popping the index)
        for idx in (-1, 0, 1, depth - 1, depth, depth + 1):
            for name in ("PICK", "ROLL"):
                c.append(ev(0, 0, push_int(idx) + op(name), stack=st))
                c.append(ev(0, MD, push(scriptnum(idx) + (b"\x00" if idx > 0 else b"")) + op(name), stack=st))
        c.append(ev(0, 0, op("TOALTSTACK") * depth + op("FROMALTSTACK") * (depth + 1), stack=st))
        c.append(ev(0, 0, op("TOALTSTACK") * depth + op("FROMALTSTACK") * depth, stack=st))
        c.append(ev(0, 0, op("TOALTSTACK") * depth, stack=st))
    for a in elems:
        for b in elems:
            c.append(ev(0, 0, op("EQUAL"), stack=[a, b]))
            c.append(ev(0, 0, op("EQUALVERIFY") + op("1"), stack=[a, b]))
        c.append(ev(0, 0, op("IFDUP"), stack=[a]))
        c.append(ev(0, 0, op("VERIFY"), stack=[b"\x09", a]))
        c.append(ev(0, 0, op("SIZE"), stack=[a]))
    return c


def rand_block(rng, depth, budget):
    """a random mostly-well-formed code block; returns bytes"""
    out = bytearray()
    n = rng.randrange(1, 7)
    for _ in range(n):
        r = rng.random()
        if r < 0.3:
            out += G.any_push(rng, G.rand_num_bytes(rng))
        elif r < 0.4:
            out += push_int(rng.randrange(-1, 17))
        elif r < 0.55:
            out += op(rng.choice(G.STACKOPS))
        elif r < 0.63:
            out += op(rng.choice(G.UNARY))
        elif r < 0.71:
            out += op(rng.choice(G.BINARY + ["WITHIN"]))
        elif r < 0.74:
            out += op(rng.choice(G.HASHES))
        elif r < 0.78:
            out += op(rng.choice(G.NOPS))
        elif r < 0.90 and depth < 4 and budget > 0:
            out += push_int(rng.choice([0, 1, 1, 2, -1])) if rng.random() < 0.8 else b""
            out += op(rng.choice(["IF", "NOTIF"]))
            out += rand_block(rng, depth + 1, budget - 1)
            if rng.random() < 0.6:
                out += op("ELSE") + rand_block(rng, depth + 1, budget - 1)
                if rng.random() < 0.1:
                    out += op("ELSE") + rand_block(rng, depth + 1, budget - 1)
            if rng.random() < 0.93:
                out += op("ENDIF")
        elif r < 0.92:
            out += op(rng.choice(["ELSE", "ENDIF", "RETURN", "VERIFY", "CODESEPARATOR"]))
        elif r < 0.94:
            out += op(rng.choice(G.DISABLED))
        elif r < 0.96:
            out.append(rng.choice(G.BADOPS))
        elif r < 0.98:
            out += push(G.rand_pubkey(rng)) + op(rng.choice(["CHECKSIG", "CHECKSIGVERIFY", "CHECKSIGADD"]))
        else:
            out += op("DEPTH") + op(rng.choice(["PICK", "ROLL", "1SUB"]))
    return bytes(out)


def gen_flow(rng, B, tier):
    c = []
    IFS = [op("IF"), op("NOTIF")]
    conds = [b"", b"\x01", b"\x02", b"\x00", b"\x80", b"\x01\x00", b"\x00\x01", b"\x00\x80"]
    MI = 1 << B["MINIMALIF"]
    for sv in (0, 1, 3):
        for fl in (0, MI, ALL):
            for cnd in conds:
                for i in IFS:
                    c.append(ev(sv, fl, i + op("2") + op("ELSE") + op("3") + op("ENDIF"), stack=[cnd]))
            # unbalanced shapes
            for s in ("IF", "IF ELSE", "ELSE", "ENDIF", "IF ENDIF ENDIF", "IF ELSE ELSE ENDIF", "IF IF ENDIF", "IF ELSE ENDIF ELSE", "NOTIF IF ELSE ENDIF",
                      "IF IF ELSE ENDIF ELSE IF ENDIF ENDIF", "IF ENDIF", "IF ELSE ELSE ELSE ENDIF", "IF NOTIF ELSE ELSE ENDIF ELSE ENDIF"):
                code = b"".join(op(w) for w in s.split())
                for cnd in (b"", b"\x01"):
                    c.append(ev(sv, fl, op("1") + code, stack=[cnd, cnd, cnd]))
                    c.append(ev(sv, fl, code + op("1"), stack=[cnd]))
            # disabled / unknown / reserved opcodes in executed and unexecuted branches
            for b in [O[n] for n in G.DISABLED] + G.BADOPS + [O["CODESEPARATOR"], O["RETURN"], O["NOP1"], O["CHECKMULTISIG"], O["CHECKSIG"], O["CHECKLOCKTIMEVERIFY"], O["VERIFY"], O["2DROP"]]:
                for cnd in (0, 1):
                    c.append(ev(sv, fl, push_int(cnd) + op("IF") + bytes([b]) + op("ELSE") + op("ENDIF") + op("1")))
                    c.append(ev(sv, fl, push_int(cnd) + op("IF") + op("ELSE") + bytes([b]) + op("ENDIF") + op("1")))
                c.append(ev(sv, fl, op("1") + bytes([b])))
    # every single opcode byte alone and after a false IF
    for b in range(256):
        for sv in (0, 1, 3):
            c.append(ev(sv, 0, bytes([b]), stack=[b"\x01", b"\x02", b"\x03"]))
            c.append(ev(sv, 0, op("0") + op("IF") + bytes([b]) + op("ENDIF"), stack=[b"\x01", b"\x02", b"\x03"]))
            c.append(ev(sv, ALL, bytes([b]), stack=[b"\x01", b"\x02", b"\x03"]))
    n = 2500 if tier == "quick" else 60000
    for _ in range(n):
        sv = rng.choice([0, 0, 1, 3])
        st = [G.rand_num_bytes(rng) for _ in range(rng.randrange(0, 6))]
        c.append(ev(sv, G.rand_flags(rng, NFLAGS), rand_block(rng, 0, 6) + rand_block(rng, 0, 3), obits=rng.getrandbits(32), weight=rng.choice([0, 49, 50, 99, 100, 1000]), stack=st))
    return c


def gen_sigs(rng, B, tier):
    c = []
    n = 1500 if tier == "quick" else 40000
    for _ in range(n):
        sv = rng.choice([0, 0, 1, 1, 3])
        fl = G.rand_flags(rng, NFLAGS)
        sig = G.rand_sig(rng)
        pk = G.rand_pubkey(rng)
        ob = rng.choice([0, 0xffffffff, rng.getrandbits(32)])
        w = rng.choice([0, 49, 50, 99, 100, 149, 150, 100000])
        r = rng.random()
        if r < 0.35:
            s = push(pk) + op(rng.choice(["CHECKSIG", "CHECKSIGVERIFY", "CHECKSIG", "CHECKSIGADD"]))
            pre = rng.choice([b"", op("CODESEPARATOR"), op("NOP") + op("CODESEPARATOR"), push(sig), push(sig) + op("DROP"), push(sig) + op("DROP") + op("CODESEPARATOR"),
                              op("0") + op("IF") + op("CODESEPARATOR") + op("ENDIF")])
            post = rng.choice([b"", op("NOT"), op("1"), push(sig), op("CODESEPARATOR")])
            c.append(ev(sv, fl, pre + s + post, ob, w, stack=[b"\x07", sig] if s[-1] != O["CHECKSIGADD"] else [sig, rng.choice([b"", b"\x01", b"\xff\xff\xff\x7f", b"\x00", b"\x01\x00\x00\x00\x00"])]))
        elif r < 0.45:
            # tapscript sequences of CHECKSIG / CHECKSIGADD around the weight budget
            k = rng.randrange(1, 5)
            st = [rng.choice([sig, b"", b"\x01", bytes(64)]) for _ in range(k)]
            s = op("0")
            for i in range(k):
                s += push(rng.choice([pk, bytes(32), bytes([i + 1]) * 32])) + op("CHECKSIGADD")
            c.append(ev(3, fl, s + rng.choice([b"", push_int(k) + op("NUMEQUAL")]), ob, w, stack=st))
        else:
            nk = rng.choice([0, 1, 2, 3, 3, 5, 19, 20, 21])
            ns = rng.choice([0, 1, 1, 2, nk, nk + 1, max(0, nk - 1)])
            keys = [rng.choice([pk, G.rand_pubkey(rng), bytes([2]) + bytes([i]) * 32]) for i in range(nk)]
            sigs = [rng.choice([sig, sig, b"", G.rand_sig(rng), bytes([0x30, i])]) for i in range(ns)]
            dummy = rng.choice([b"", b"", b"", b"\x00", b"\x01"])
            nkv = rng.choice([push_int(nk)] * 6 + [push(scriptnum(nk) + b"\x00"), push_int(-1), push_int(nk + 1)])
            nsv = rng.choice([push_int(ns)] * 6 + [push(scriptnum(ns) + b"\x00"), push_int(-1)])
            body = nsv + b"".join(push(k) for k in keys) + nkv + op(rng.choice(["CHECKMULTISIG", "CHECKMULTISIG", "CHECKMULTISIGVERIFY"]))
            pre = rng.choice([b"", b"", op("CODESEPARATOR"), op("NOP") * rng.choice([0, 179, 180, 181, 182, 199]), push(sig) + op("DROP")])
            post = rng.choice([b"", op("NOT"), op("1"), op("DEPTH")])
            st = ([dummy] if rng.random() < 0.95 else []) + sigs
            c.append(ev(sv, fl, pre + body + post, ob, w, stack=st))
    # FindAndDelete directly
    for _ in range(300 if tier == "quick" else 5000):
        sig = bytes(rng.randrange(4) for _ in range(rng.randrange(0, 4)))
        pat = push(sig)
        parts = []
        for _ in range(rng.randrange(0, 8)):
            parts.append(rng.choice([pat, pat, pat[:-1] if pat else b"", bytes([rng.randrange(4)]), push(pat), b"\x4c", op("CODESEPARATOR"), bytes([len(pat)]) if len(pat) < 5 else b"\x01"]))
        c.append("fad %s %s" % (hx(b"".join(parts)), hx(sig)))
    for _ in range(600 if tier == "quick" else 20000):
        c.append("sigenc %d %s" % (G.rand_flags(rng, NFLAGS), hx(G.rand_sig(rng))))
    return c


def gen_multisig_clean(rng, B, tier):
    """CHECKMULTISIG key/signature matching with undecorated byte strings (no encoding flags), so that the oracle alone
    decides which signature matches which key: every nKeys 0..20(21), nSigs 0..nKeys(+1), NULLDUMMY / NULLFAIL on and off"""
    c = []
    safe = [B["NULLFAIL"], B["NULLDUMMY"], B["MINIMALDATA"], B["CONST_SCRIPTCODE"], B["P2SH"], B["CLEANSTACK"], B["DISCOURAGE_UPGRADABLE_NOPS"]]
    n = 1200 if tier == "quick" else 30000
    for _ in range(n):
        nk = rng.choice([0, 1, 2, 3, 4, 5, 7, 19, 20, 20, 21])
        ns = rng.choice([0, 1, 2, 3, nk, max(0, nk - 1), nk + 1])
        keys = [bytes([rng.randrange(1, 256), i]) for i in range(nk)]
        sigs = [rng.choice([bytes([rng.randrange(1, 256), 0x40 + i]), b""]) if rng.random() < 0.85 else b"" for i in range(ns)]
        fl = 0
        for b in safe:
            if rng.random() < 0.4:
                fl |= 1 << b
        dummy = rng.choice([b"", b"", b"", b"\x00", b"\x01"])
        verify = rng.random() < 0.25
        body = push_int(ns) + b"".join(push(k) for k in keys) + push_int(nk) + op("CHECKMULTISIGVERIFY" if verify else "CHECKMULTISIG")
        pad = op("NOP") * rng.choice([0, 0, 0, 200 - nk - 1, 200 - nk, 201 - nk, 150])
        post = rng.choice([b"", op("1") if verify else b"", op("DEPTH"), op("NOT")])
        sv = rng.choice([0, 0, 1])
        ob = rng.choice([0, 0xffffffff, rng.getrandbits(32), rng.getrandbits(32) | rng.getrandbits(32), rng.getrandbits(32) & rng.getrandbits(32)])
        c.append(ev(sv, fl, pad + body + post, ob, 0, stack=[b"\x09", dummy] + sigs))
        if rng.random() < 0.1:
            c.append(ev(sv, fl, pad + body + post, ob, 0, stack=sigs))          # no dummy element
    return c


OP_SUCCESS = [80, 98] + list(range(126, 130)) + list(range(131, 135)) + [137, 138, 141, 142] + list(range(149, 154)) + list(range(187, 255))


def tap(flags, leafver, depth, script, obits=0xffffffff, commit_ok=1, trunc=0, annex=None, args=()):
    return "tapspend %d %d %d %s %d %d %d %s %d%s" % (flags, leafver, depth, hx(script), obits, commit_ok, trunc,
                                                      "x" if annex is None else hx(annex), len(args), "".join(" " + hx(a) for a in args))


def gen_taproot(rng, B, tier):
    """taproot script-path and key-path spends through the real VerifyScript: leaf scripts with / without each OP_SUCCESSx at every
    position (also before and after a truncated push), witness arguments of 520/521 bytes, 1000/1001 arguments, annex, leaf versions,
    control block sizes and broken commitments, with and without DISCOURAGE_OP_SUCCESS"""
    c = []
    F0 = (1 << B["P2SH"]) | (1 << B["WITNESS"]) | (1 << B["TAPROOT"])
    DOS = 1 << B["DISCOURAGE_OP_SUCCESS"]
    bases = [(op("1"), []), (op("DROP") + op("1"), [b"\x01"]), (op("DROP") + op("DROP") + op("1"), [b"\x01", b"\x02"]),
             (op("IF") + op("1") + op("ELSE") + op("1") + op("ENDIF"), [b"\x01"]), (push(b"abc") + op("DROP") + op("1"), []),
             (op("SIZE") + op("NIP"), [b"\x07" * 3]), (op("DEPTH") + op("0") + op("EQUAL"), [])]
    argsets = lambda a: [a, [bytes(520)] + a[1:] if a else [bytes(520)], [bytes(521)] + a[1:] if a else [bytes(521)], a + [bytes(521)],
                         [b"\x01"] * 1000, [b"\x01"] * 1001, [b"\x01"] * 999 + [bytes(521)], [bytes(521)] + [b"\x01"] * 1000, []]
    def flagsets():
        return [F0, F0 | DOS, F0 | rng.getrandbits(NFLAGS), (F0 | rng.getrandbits(NFLAGS)) & ~DOS, F0 & ~(1 << B["TAPROOT"]), ALL]
    # every OP_SUCCESSx opcode, at a random position of a random base script, against every argument shape
    for sop in OP_SUCCESS:
        script, a = rng.choice(bases)
        ops = G.parse_ops(script)
        pos = rng.randrange(len(ops) + 1)
        s2 = b"".join(o[2] for o in ops[:pos]) + bytes([sop]) + b"".join(o[2] for o in ops[pos:])
        for args in argsets(list(a)):
            for fl in (F0, F0 | DOS):
                c.append(tap(fl, 0xc0, rng.choice([0, 1]), s2, args=args, annex=rng.choice([None, None, b"\x50", b"\x50\xaa"])))
    # one opcode at every position of every base script; truncated pushes before / after; the byte as push data; the nearest non-success opcodes
    for script, a in bases:
        ops = G.parse_ops(script)
        for pos in range(len(ops) + 1):
            for sop in (80, rng.choice(OP_SUCCESS), 0xbb, 0xfe, 0xff, 0xba, 0x61, 0x83):
                s2 = b"".join(o[2] for o in ops[:pos]) + bytes([sop]) + b"".join(o[2] for o in ops[pos:])
                for fl in flagsets():
                    c.append(tap(fl, 0xc0, 0, s2, args=rng.choice(argsets(list(a)))))
        for sop in (80, 0xfe):
            for s2 in (b"\x02\x01" + bytes([sop]), bytes([sop]) + b"\x02\x01", script + bytes([sop]) + b"\x4c", script + b"\x4d\x01" , b"\x4e\xff\xff\xff\xff" + bytes([sop]),
                       b"\x01" + bytes([sop]) + script, script + b"\x01" + bytes([sop]), bytes([sop]) + b"\x4e\x01", op("0") + op("IF") + bytes([sop]) + op("ENDIF") + script):
                for args in ([], list(a), [bytes(521)], [b"\x01"] * 1001):
                    for fl in (F0, F0 | DOS):
                        c.append(tap(fl, 0xc0, rng.choice([0, 1]), s2, args=args, annex=rng.choice([None, b"\x50"])))
    # without OP_SUCCESSx: limits, leaf versions, control block, commitment, annex look-alikes, signature opcodes and the weight budget
    n = 500 if tier == "quick" else 20000
    for _ in range(n):
        script, a = rng.choice(bases)
        r = rng.random()
        if r < 0.3:
            script = rand_block(rng, 0, 3)
            a = [G.rand_num_bytes(rng) for _ in range(rng.randrange(0, 4))]
        elif r < 0.45:
            k = rng.randrange(1, 4)
            a = [rng.choice([b"", b"\x01", bytes(64)]) for _ in range(k)]
            script = op("0") + b"".join(push(rng.choice([bytes(32), bytes([i + 1]) * 32, bytes(33), b""])) + op("CHECKSIGADD") for i in range(k))
        args = rng.choice(argsets(list(a))) if rng.random() < 0.5 else list(a)
        c.append(tap(rng.choice(flagsets()), rng.choice([0xc0, 0xc0, 0xc0, 0xc2, 0x66, 0xfe]), rng.choice([0, 1]), script, rng.choice([0, 0xffffffff, rng.getrandbits(32)]),
                     rng.choice([1, 1, 1, 0]), rng.choice([0, 0, 0, 0, 1, 32, 33, -1, -32, -32 * 127, -32 * 128]),
                     rng.choice([None, None, b"\x50", b"\x50" + bytes(600), b"\x51", b""]) if False else rng.choice([None, None, b"\x50", b"\x50" + bytes(600)]), args))
    # validation weight budget = serialized witness size + 50, 50 per executed non-empty signature check
    for k in range(4, 10):
        for pad in (0, 1, 2, 3, 5, 13):
            s = (op("DUP") + push(bytes([7]) * 32) + op("CHECKSIG") + op("DROP")) * k + op("NOP") * pad + op("DROP") + op("1")
            for ann in (None, b"\x50", b"\x50" + bytes(40)):
                c.append(tap(F0, 0xc0, rng.choice([0, 1]), s, 0xffffffff, args=[b"\x01"], annex=ann))
    for _ in range(60 if tier == "quick" else 2000):
        c.append("tapkey %d %d %s %s" % (rng.choice(flagsets()), rng.choice([0, 0xffffffff, rng.getrandbits(32)]),
                                        hx(rng.choice([b"", bytes([rng.randrange(256)]) + bytes(63), bytes(65), b"\x01"])), rng.choice(["x", "50", "50aa"])))
    return c


def gen_soup(rng, B, tier):
    c = []
    n = 2500 if tier == "quick" else 80000
    interesting = list(range(0x4f, 0xbb)) + [0, 1, 2, 0x4c, 0x4d, 0xff]
    for _ in range(n):
        sv = rng.choice([0, 0, 1, 3])
        ln = rng.choice([1, 2, 3, 5, 8, 12, 20, 40])
        if rng.random() < 0.7:
            s = bytearray()
            for _ in range(ln):
                b = rng.choice(interesting)
                if b in (1, 2):
                    s += bytes([b]) + bytes(rng.randrange(256) for _ in range(b))
                else:
                    s.append(b)
        else:
            s = bytes(rng.randrange(256) for _ in range(ln))
        st = [G.rand_num_bytes(rng) for _ in range(rng.randrange(0, 8))]
        c.append(ev(sv, G.rand_flags(rng, NFLAGS), bytes(s), rng.getrandbits(32), rng.choice([0, 50, 1000]), st))
    return c


def gen_json(rng, B, tier):
    """script_tests.json replayed at EvalScript level: scriptSig on the empty stack, then scriptPubKey on the result
    (what VerifyScript does first), under the vector's flags, with three oracles."""
    c = []
    for (wit, ssig, spk, fl, exp) in G.json_vectors():
        for ob in (0xffffffff, 0, rng.getrandbits(32)):
            c.append("evalpair %d %s %s %d" % (fl, hx(ssig), hx(spk), ob))
        # the whole VerifyScript (P2SH, witness v0, CLEANSTACK ...) under the vector's flags; taproot is outside the model
        vf = fl
        if vf >> B["CLEANSTACK"] & 1:
            vf |= (1 << B["P2SH"]) | (1 << B["WITNESS"])
        if vf >> B["WITNESS"] & 1:
            vf |= 1 << B["P2SH"]
        c.append("verify %d %s %s %d %d%s" % (vf, hx(ssig), hx(spk), rng.choice([0, 0xffffffff]), len(wit), "".join(" " + hx(e) for e in wit)))
        for w in wit[-1:]:
            # the witness script of P2WSH vectors, run as witness v0 on the rest of the witness stack
            c.append(ev(1, fl, w, rng.choice([0, 0xffffffff]), 0, stack=wit[:-1]))
    return c


def gen(rng, tier):
    B = G.flag_bits()
    c = []
    for g in (gen_limits, gen_numbers, gen_stackops, gen_flow, gen_sigs, gen_multisig_clean, gen_taproot, gen_soup, gen_json):
        c += g(rng, B, tier)
    return c


def shrink(case):
    """candidates: drop one instruction of the script / one initial stack element / clear flag bits"""
    w = case.split(" ")
    if w[0] != "eval":
        return
    sv, fl, script, ob, wt, n = w[1], int(w[2]), w[3], w[4], w[5], int(w[6])
    st = w[7:7 + n]
    sb = bytes.fromhex(script) if script != "-" else b""
    ops = G.parse_ops(sb)
    for i in range(len(ops)):
        s2 = b"".join(o[2] for j, o in enumerate(ops) if j != i)
        yield "eval %s %d %s %s %s %d%s" % (sv, fl, hx(s2), ob, wt, n, "".join(" " + e for e in st))
    for i in range(n):
        st2 = st[:i] + st[i + 1:]
        yield "eval %s %d %s %s %s %d%s" % (sv, fl, script, ob, wt, n - 1, "".join(" " + e for e in st2))
    for b in range(NFLAGS):
        if fl >> b & 1:
            yield "eval %s %d %s %s %s %d%s" % (sv, fl & ~(1 << b), script, ob, wt, n, "".join(" " + e for e in st))


def nontrivial(c):
    w = c.split(" ")
    return (w[0] in ("eval", "evalpair", "verify") and len(w[3]) >= 4) or w[0] in ("tapspend", "tapkey")


TIES = [Tie("evalscript_fn", "tie/drivers/script_drv.cpp", "Extract_Script.v", "script_driver.ml", gen,
            predicate="functional", nontrivial=nontrivial, shrink=shrink, extra_ml=("script_hashes.ml",))]

LEVEL_TEXT = ("Coq theorems about an executable Gallina transcription of EvalScript (all opcodes, all three script sigversions, signature "
              "checks delegated to an arbitrary checker function): CScriptNum encode/decode round trip, uniqueness of the minimal encoding, "
              "4-byte operand range and 5-byte results; totality (every script yields Ok or a named error); the resource invariant "
              "(stack+altstack <= 1000, elements <= 520 bytes, opcount <= 201) on every state of every successful run; unbalanced "
              "conditionals rejected; disabled opcodes fail in unexecuted branches while other opcodes there are skipped; the "
              "ConditionStack pair (size, first false) implements a stack of booleans; per-opcode stack-effect lemmas (stack ops, PICK/ROLL, "
              "arithmetic, WITHIN); CHECKMULTISIG's loop succeeds exactly when the signatures match, in order, distinct keys in order; VerifyScript rules (P2SH/SIGPUSHONLY need a push-only scriptSig, CLEANSTACK leaves one true element, native "
              "witness programs need an empty scriptSig); tapscript: OP_SUCCESSx overrides everything (every witness stack succeeds, or DISCOURAGE_OP_SUCCESS), "
              "otherwise stack > 1000 / element > 520 are rejected before execution, and a well-formed script-path spend is decided by "
              "ExecuteWitnessScript on the arguments; the opcode table agrees with the compiled tree. The model is tied to the real EvalScript by differential execution (result, error name, final stack, "
              "validation weight, codeseparator position) on grammar-generated scripts at every limit and on script_tests.json.")
LEVEL_NOTE = ("Trusted: Coq kernel, dump_params.cpp + tie/params/script.h, extraction + driver glue, the OCaml hash functions. "
              "Modelled: every opcode EvalScript handles (pushes, flow control, stack, arithmetic, hashes via parameters, CODESEPARATOR, "
              "CHECKSIG/CHECKSIGVERIFY/CHECKSIGADD/CHECKMULTISIG(VERIFY) with FindAndDelete and the DER/pubkey encoding checks, NOPs, CLTV, CSV) "
              "under BASE, WITNESS_V0 and TAPSCRIPT; VerifyScript with P2SH, witness v0 and taproot: ExecuteWitnessScript in the code's order "
              "(tapscript OP_SUCCESSx pre-scan, initial stack size, element sizes, EvalScript, cleanstack/true), annex removal, key path vs script "
              "path, control-block size rule, leaf version dispatch, validation-weight initialisation from the serialized witness size. "
              "Still not modelled (oracles): the real signature / locktime checkers (C10) and the taproot commitment check itself "
              "(ComputeTapleafHash, ComputeTaprootMerkleRoot, XOnlyPubKey::CheckTapTweak) - a Section oracle in the theorems, genuine "
              "TaprootBuilder trees on the NUMS key in the correspondence; the sighash-side use of annex / tapleaf hash / codeseparator position "
              "by the Schnorr checker. The statement's 'agrees with an independent reference interpreter' is the differential tie, not a "
              "theorem about the C++.")
TECHNIQUE = "Coq proof (executable reference interpreter with proved rule-level properties) + differential correspondence"
