from vlib.runner import Tie
from vlib import core
from props import C04 as m4

ID = "C38"
LEVEL = "proof"
DESIGN_REF = "DESIGN.md section 5, C38"
PROP_FILES = ["props/Properties_C38.v"]
RULE = ("cases: cmpct: real segwit blocks of 1..40 transactions (coinbase with commitment, witness and legacy transactions) announced as "
        "compact blocks over the wire format with every kind of prefilled set (coinbase only, coinbase+last, a prefix, random, everything), "
        "mempools holding none / some / all of the block's transactions plus unrelated ones, extra-pool subsets (also overlapping the "
        "mempool), and blocktxn responses that are exact, one short, one long, swapped, contain a foreign transaction, or empty; segwit "
        "active and inactive; wrong header merkle root; witness stripping by the peer (prefilled coinbase without its witness reserved value, "
        "witness-stripped versions of all / all but one / one of the witness transactions in the prefilled set or the response, with nothing or "
        "the untouched transactions in the mempool); cmpctraw: hand-made announcements exercising the prefilled index arithmetic "
        "(differential indexes 0, at and beyond shorttxids.size()+i, 65535 sums, null transactions, null header, empty announcement, "
        "the transaction-count limit). Non-trivial = at least two transactions; distinct = distinct lines.")
ASSUMPTIONS = ["the final guarantee goes through C04: SHA256d collision free on the values in play and no txid is an inner-node value (premises of C38_fill_ok_is_announced)",
               "the mempool / extra-pool lookup of InitData (48-bit short ids, unordered_map bucket limit) is not modelled: the theorems hold for every "
               "content of txn_available, the correspondence uses the availability the implementation reports (collisions are not engineered)",
               "the models are hand transcriptions; tied by the correspondence on the listed cases"]
TRUSTED = ["Coq 8.16.1 kernel (coqc)",
           "extraction: ExtrOcamlBasic only; ocaml/conv.ml, merkle_sha256.ml and cmpct_driver.ml glue",
           "tie/drivers/cmpct_drv.cpp writes the announcement in the wire format and deserializes it (public API only), "
           "fills a real CTxMemPool and calls PartiallyDownloadedBlock::InitData / IsTxAvailable / FillBlock"]


def idx(l):
    return ",".join(str(i) for i in sorted(set(l))) if l else "-"


def gen(rng, tier):
    cases = []
    quick = tier == "quick"
    sizes = [1, 2, 3, 4, 5, 8, 13, 21, 40] if quick else list(range(1, 30)) + [40, 64, 100]
    specs = ["exact", "exact", "short", "long", "swap", "wrong", "none"]
    for n in sizes:
        for rep in range(2 if quick else 5):
            nonce32 = rng.randbytes(32)
            body = [(m4.witness_tx(rng, rng.randrange(1, 3)) if rng.random() < 0.6 else m4.legacy_tx(rng)) for _ in range(n - 1)]
            tmp_cb = m4.coinbase_tx(rng)
            com = m4.witness_commitment([tmp_cb] + body, nonce32)
            cbtx = m4.coinbase_tx(rng, [m4.COMMIT_HDR + com], [nonce32])
            txs = [cbtx] + body
            root = m4.merkle_root([m4.txid(t) for t in txs])
            other = m4.legacy_tx(rng, extra_sig=2)
            presets = [[0], [0, n - 1], list(range(min(n, 3))), list(range(n)),
                       sorted(set([0] + [i for i in range(1, n) if rng.random() < 0.3])),
                       sorted(set([i for i in range(1, n) if rng.random() < 0.3]))]     # coinbase not prefilled
            for pre in presets:
                rest = [i for i in range(1, n) if i not in pre]
                memsets = [[], list(rest), [i for i in rest if rng.random() < 0.5]]
                for mem in memsets:
                    for spec in (specs if (n <= 8 or not quick) else rng.sample(specs, 3)):
                        extra = [i for i in rest if rng.random() < 0.25]
                        segwit = 0 if rng.random() < 0.15 else 1
                        hdr = root if rng.random() > 0.07 else rng.randbytes(32)
                        cases.append("cmpct %d %d %s 1 %s %s %s %s %s %d %s - %s %s" % (
                            segwit, rng.getrandbits(64), hdr.hex(), com.hex(), m4.stack_tok([nonce32]),
                            idx(pre), idx(mem), idx(extra), rng.choice([0, 1, 5]), spec, m4.tok(other),
                            " ".join(m4.tok(t) for t in txs)))
            # witness stripping by the announcing peer (txids, merkle root and block hash unchanged): the prefilled coinbase
            # without its witness reserved value and / or witness-stripped versions of the witness-carrying transactions
            wit = [i for i in range(n) if txs[i][0] != txs[i][1]]          # includes the coinbase (position 0)
            strips = [wit, [0], [i for i in wit if i != 0]]
            if len(wit) >= 2:
                strips += [wit[:-1], wit[1:-1] + [0] if len(wit) > 2 else [0], [rng.choice(wit[1:])]]
            for st in strips:
                for pre in ([0], [0, n - 1], list(range(n)), sorted(set([0] + [i for i in range(1, n) if rng.random() < 0.4]))):
                    rest = [i for i in range(1, n) if i not in pre]
                    for mem in ([], [i for i in rest if i not in st]):
                        for segwit in (1, 1, 0):
                            cases.append("cmpct %d %d %s 1 %s %s %s %s - %d exact %s %s %s" % (
                                segwit, rng.getrandbits(64), root.hex(), com.hex(), m4.stack_tok([nonce32]),
                                idx(pre), idx(mem), rng.choice([0, 2]), idx(st), m4.tok(other), " ".join(m4.tok(t) for t in txs)))
            # a block with a duplicated tail (CVE-2012-2459 shape): duplicate short ids
            if n in (3, 5):
                dup = txs + [txs[-1]]
                cases.append("cmpct 1 %d %s 1 %s %s 0 - - 0 exact - %s %s" % (rng.getrandbits(64), root.hex(), com.hex(), m4.stack_tok([nonce32]),
                                                                            m4.tok(other), " ".join(m4.tok(t) for t in dup)))
                # ... with one of the copies prefilled, so that the short ids are distinct
                cases.append("cmpct 1 %d %s 1 %s %s %s %s - 0 exact - %s %s" % (rng.getrandbits(64), root.hex(), com.hex(), m4.stack_tok([nonce32]),
                                                                             idx([0, len(dup) - 1]), idx(list(range(1, n))), m4.tok(other),
                                                                             " ".join(m4.tok(t) for t in dup)))
    # hand-made announcements: prefilled index arithmetic
    raws = [("0", 4, ["0:t"]), ("0", 4, ["0:t", "0:t", "0:t"]), ("0", 4, ["4:t"]), ("0", 4, ["5:t"]), ("0", 4, ["3:t", "1:t"]),
            ("0", 4, ["3:t", "2:t"]), ("0", 0, ["0:t"]), ("0", 0, ["1:t"]), ("0", 0, []), ("1", 3, ["0:t"]), ("0", 3, ["0:null"]),
            ("0", 3, ["0:t", "1:null"]), ("0", 70000, ["65535:t"]), ("0", 65535, ["0:t"]), ("0", 65535, []), ("0", 65534, ["65534:t"]),
            ("0", 65534, ["65535:t"]), ("0", 65000, ["65000:t"]), ("0", 65000, ["65001:t"]), ("0", 65000, ["32767:t", "32231:t", "0:t"]),
            ("0", 65000, ["32767:t", "32232:t", "1:t"]), ("0", 65000, ["32767:t", "32232:t", "2:t"]),
            ("0", 1, []), ("0", 12, ["12:t"]), ("0", 12, ["13:t"])]
    for (hn, ns, pre) in raws:
        cases.append("cmpctraw %s %d %s" % (hn, ns, ",".join(pre) if pre else "-"))
    for _ in range(40 if quick else 400):
        ns = rng.randrange(0, 12)
        k = rng.randrange(0, 6)
        pre = ["%d:%s" % (rng.choice([0, 0, 1, 2, 3, ns, ns + 1]), "null" if rng.random() < 0.05 else "t") for _ in range(k)]
        cases.append("cmpctraw %d %d %s" % (1 if rng.random() < 0.05 else 0, ns, ",".join(pre) if pre else "-"))
    return cases


def canon(s):
    return "EXC" if s.startswith("EXC") else s


TIES = [Tie("cmpct_fn", "tie/drivers/cmpct_drv.cpp", "Extract_Cmpct.v", "cmpct_driver.ml", gen,
            predicate="driver", canon=canon, nontrivial=lambda c: len(c.split()) >= 16 or c.startswith("cmpctraw"), extra_ml=("merkle_sha256.ml",))]

LEVEL_TEXT = ("Coq theorems: FillBlock returns READ_STATUS_INVALID exactly when the object is unused or the blocktxn response does not have one "
              "transaction per unavailable slot; an OK result is the available transactions with the response merged in order and has passed "
              "IsBlockMutated; hence (C04 binding, hash premises in the statement) an OK reconstruction has the txids and wtxids of the announced "
              "block, whatever InitData put into txn_available (short-id collisions, wrong mempool matches) and whatever the peer sent; the "
              "prefilled-index loop of InitData writes strictly increasing slots inside txn_available or reports INVALID. Model tied to the real "
              "PartiallyDownloadedBlock (real mempool, wire round trip of the announcement) by differential execution.")
LEVEL_NOTE = ("Not modelled: the short-id hash map of InitData (bucket-size limit, duplicate short ids) and the mempool scan; the theorems quantify "
              "over every resulting txn_available, and engineered 48-bit collisions are not part of the cases. net_processing's handling of the "
              "statuses (fallback to a full block request) is outside this check. Trusted: Coq kernel; extraction and the OCaml/C++ glue.")
TECHNIQUE = "Coq proof (structural induction; reuse of the C04 binding theorems) + differential correspondence"
