"""Case generators for the keys family (C45 / C50). Python stdlib only; all randomness from rng.
The small reference encoders here only *construct inputs* (valid strings to mutate); verdicts come
from the extracted Coq model and the real C++."""
import hashlib, os, re
from vlib import core

CHARSET = "qpzry9x8gf2tvdw0s3jn54khce6mua7l"
B58 = "123456789ABCDEFGHJKLMNPQRSTUVWXYZabcdefghijkmnopqrstuvwxyz"
GEN = [0x3b6a57b2, 0x26508e6d, 0x1ea119fa, 0x3d4233dd, 0x2a1462b3]
CONST = {1: 1, 2: 0x2bc830a3}


def hx(b):
    b = bytes(b)
    return b.hex() if b else "-"


def shex(s):
    if isinstance(s, str):
        s = s.encode("latin-1")
    return hx(s)


def polymod(values):
    c = 1
    for v in values:
        c0 = c >> 25
        c = ((c & 0x1ffffff) << 5) ^ v
        for i in range(5):
            if (c0 >> i) & 1:
                c ^= GEN[i]
    return c


def hrp_expand(h):
    return [x >> 5 for x in h] + [0] + [x & 31 for x in h]


def b32_encode(enc, hrp, data):
    """hrp: bytes, data: list of 5-bit ints -> bytes"""
    pm = polymod(hrp_expand(hrp) + list(data) + [0] * 6) ^ CONST[enc]
    chk = [(pm >> (5 * (5 - i))) & 31 for i in range(6)]
    return bytes(hrp) + b"1" + bytes(ord(CHARSET[d]) for d in list(data) + chk)


def convertbits(data, frm, to, pad=True):
    acc = 0; bits = 0; out = []
    for v in data:
        acc = (acc << frm) | v
        bits += frm
        while bits >= to:
            bits -= to
            out.append((acc >> bits) & ((1 << to) - 1))
    if pad and bits:
        out.append((acc << (to - bits)) & ((1 << to) - 1))
    return out


def b58_encode(b):
    b = bytes(b)
    z = len(b) - len(b.lstrip(b"\0"))
    n = int.from_bytes(b, "big")
    s = ""
    while n:
        n, r = divmod(n, 58)
        s = B58[r] + s
    return "1" * z + s


def sha256d(b):
    return hashlib.sha256(hashlib.sha256(bytes(b)).digest()).digest()


def b58c_encode(b):
    b = bytes(b)
    return b58_encode(b + sha256d(b)[:4])


def keyio_chains():
    """[(pubkey_prefix, script_prefix, secret_prefix, xpub_prefix, xprv_prefix, hrp)] as bytes, from Params_gen.v"""
    txt = open(os.path.join(core.COQ, "gen", "Params_gen.v")).read()
    m = re.search(r"Definition KEYIO_CHAINS.*?:= \((.*?)\)\.\n", txt, re.S)
    rows = []
    for line in m.group(1).strip().split("\n"):
        lists = re.findall(r"\(((?:\(\d+\)%Z :: )*)nil\)", line)
        rows.append(tuple(bytes(int(x) for x in re.findall(r"\((\d+)\)%Z", l)) for l in lists))
    return rows


def rbytes(rng, n):
    return bytes(rng.randrange(256) for _ in range(n))


def rand_hrp(rng, n=None):
    n = n or rng.choice([1, 1, 2, 2, 3, 4, 5, 10, 20, 40, 83])
    ok = [c for c in range(33, 127) if not (65 <= c <= 90)]
    r = rng.random()
    if r < 0.5:
        return bytes(rng.choice(b"abcdefghijklmnopqrstuvwxyz") for _ in range(n))
    if r < 0.7:
        return bytes(rng.choice(b"0123456789") for _ in range(n))   # letterless HRP
    return bytes(rng.choice(ok) for _ in range(n))


def gen_bech32(rng, tier):
    N = 1 if tier == "quick" else 20
    cases = []
    valid = []
    # encode: HRP case rules, lengths around the 90 character limit
    for _ in range(120 * N):
        hrp = rand_hrp(rng)
        room = 90 - len(hrp) - 1 - 6
        dl = rng.choice([0, 1, 2, 10, 33, 53, max(0, room - 1), max(0, room), room + 1, room + 2])
        dl = max(0, dl)
        data = [rng.randrange(32) for _ in range(dl)]
        enc = rng.choice([1, 2])
        cases.append("b32enc %d %s %s" % (enc, hx(hrp), hx(data)))
        valid.append((enc, hrp, data))
    for hrp in (b"bc", b"tb", b"bcrt", b"1", b"11", b"a1b", b"~", b"!", b"1qq", b"split1checkupstagehandshakeupstreamerranterredcaperred"):
        for enc in (1, 2):
            for data in ([], [0], [31] * 10, list(range(32))):
                cases.append("b32enc %d %s %s" % (enc, hx(hrp), hx(data)))
                valid.append((enc, hrp, data))
    # precondition violations: uppercase HRP, symbol >= 32; HRP bytes >= 128 and < 33 (Encode does not check them)
    cases.append("b32enc 1 %s %s" % (hx(b"Bc"), hx([1, 2])))
    cases.append("b32enc 2 %s %s" % (hx(b"bZ"), hx([1, 2])))
    cases.append("b32enc 1 %s %s" % (hx(b"bc"), hx([32])))
    cases.append("b32enc 1 %s %s" % (hx(b"bc"), hx([1, 255])))
    for h in (b"\x80", b"\xff\x01", b" a", b"\x7f", b"a\xc3\xa9"):
        cases.append("b32enc 1 %s %s" % (hx(h), hx([3, 4, 5])))
        cases.append("b32enc 2 %s %s" % (hx(h), hx([])))
    # decode
    def dec(s):
        cases.append("b32dec %s" % shex(s))
    for (enc, hrp, data) in valid:
        s = b32_encode(enc, hrp, data)
        r = rng.random()
        dec(s)
        if r < 0.25:
            dec(s.upper())
        elif r < 0.45 and len(s) > 0:
            i = rng.randrange(len(s)); t = bytearray(s); t[i] = ord(chr(t[i]).upper()); dec(bytes(t))     # one upper-cased char
        elif r < 0.6:
            dec(b32_encode(3 - enc, hrp, data))
        elif r < 0.75 and len(data) > 0:
            # single substitution in the data part / adjacent transposition
            t = bytearray(s); i = rng.randrange(len(hrp) + 1, len(s)); t[i] = ord(rng.choice(CHARSET)); dec(bytes(t))
            t = bytearray(s); i = rng.randrange(len(hrp) + 1, len(s) - 1); t[i], t[i + 1] = t[i + 1], t[i]; dec(bytes(t))
        elif r < 0.85:
            t = bytearray(s); i = rng.randrange(len(s)); t[i] = rng.randrange(256); dec(bytes(t))
        else:
            dec(hrp.upper() + s[len(hrp):])
    base = b32_encode(1, b"bc", [0] + convertbits(rbytes(rng, 20), 8, 5))
    for c in range(256):        # every character code at a data position and at an HRP position
        t = bytearray(base); t[10] = c; dec(bytes(t))
        t = bytearray(base); t[0] = c; dec(bytes(t))
    for s in (b"", b"1", b"1qqqqqq", b"a1qqqqq", b"a1qqqqqq", b"qqqqqqqq", b"a" * 84 + b"1qqqqqq", b"bc1", b"10a06t8", b"1qzzfhee",
              b"A12UEL5L", b"a12uel5l", b"A1G7SGD8", b"a1lqfn3a", b"abcdef1qpzry9x8gf2tvdw0s3jn54khce6mua7lmqqqxw"):
        dec(s)
    for total in (88, 89, 90, 91, 92):
        for enc in (1, 2):
            hrp = rand_hrp(rng, rng.choice([1, 2, 4, 30]))
            data = [rng.randrange(32) for _ in range(total - len(hrp) - 7)]
            s = b32_encode(enc, hrp, data)
            dec(s); dec(s.upper())
    # substitutions: 1..4 characters of a valid string replaced (never by the other case of the same letter)
    for _ in range(400 * N):
        enc, hrp, data = rng.choice(valid)
        if any(v >= 32 for v in data) or len(hrp) + 7 + len(data) > 90:
            continue
        s = b32_encode(enc, hrp, data)
        k = rng.choice([1, 1, 2, 3, 4, 4])
        lo = 0 if rng.random() < 0.15 else len(hrp) + 1
        pos = rng.sample(range(lo, len(s)), min(k, len(s) - lo))
        subs = []
        for p in pos:
            while True:
                c = ord(rng.choice(CHARSET)) if rng.random() < 0.9 else rng.randrange(33, 127)
                if chr(c).lower() != chr(s[p]).lower():
                    break
            subs += [str(p), str(c)]
        cases.append("b32sub %d %s %s %s" % (enc, hx(hrp), hx(data), " ".join(subs)))
    # ConvertBits
    for n in list(range(0, 45)) + [64, 65]:
        cases.append("cbits 85 %s" % hx(rbytes(rng, n)))
        cases.append("cbits 85 %s" % hx(bytes([rng.choice([0, 255, 1, 128])] * n)))
    for n in list(range(0, 70)):
        d = [rng.randrange(32) for _ in range(n)]
        cases.append("cbits 58 %s" % hx(d))
        cases.append("cbits 58 %s" % hx(convertbits(rbytes(rng, (n * 5) // 8), 8, 5)))
        if n:
            d[-1] = 0
            cases.append("cbits 58 %s" % hx(d))
            d[-1] = rng.choice([1, 2, 4, 8, 16])
            cases.append("cbits 58 %s" % hx(d))
        cases.append("cbits 58 %s" % hx([rng.randrange(256) for _ in range(n)]))
    return cases


def gen_base58(rng, tier):
    N = 1 if tier == "quick" else 20
    cases = []
    for _ in range(150 * N):
        z = rng.choice([0, 0, 0, 1, 2, 5])
        n = rng.choice([0, 1, 2, 3, 4, 5, 20, 21, 25, 32, 33, 34, 37, 38, 74, 78, 82, 100, 200])
        b = bytes(z) + rbytes(rng, n)
        if rng.random() < 0.1:
            b = bytes([rng.choice([0, 255])]) * (z + n)
        cases.append("b58enc %s" % hx(b))
        cases.append("b58cenc %s" % hx(b))
        s = b58_encode(b)
        L = len(b)
        for mx in (L - 1, L, L + 1, 0, 1000):
            if mx >= 0:
                cases.append("b58dec %s %d" % (shex(s), mx))
        sc = b58c_encode(b)
        for mx in (L - 1, L, L + 1):
            if mx >= 0:
                cases.append("b58cdec %s %d" % (shex(sc), mx))
        r = rng.random()
        t = bytearray(sc.encode())
        if r < 0.2 and t:
            i = rng.randrange(len(t)); t[i] = ord(rng.choice(B58)); cases.append("b58cdec %s %d" % (shex(bytes(t)), L + 4))
        elif r < 0.4 and t:
            i = rng.randrange(len(t)); t[i] = rng.choice(b"0OIl +/\x00\x80\xff"); cases.append("b58cdec %s %d" % (shex(bytes(t)), L + 4))
            cases.append("b58dec %s %d" % (shex(bytes(t)), L + 8))
        elif r < 0.6:
            pre = rng.choice([b" ", b"\t\n", b" \f\r\v", b""]); post = rng.choice([b" ", b"  \n", b" x", b" 1", b""])
            cases.append("b58cdec %s %d" % (shex(pre + bytes(t) + post), L))
            cases.append("b58dec %s %d" % (shex(pre + s.encode() + post), L))
        elif r < 0.7 and len(t) > 2:
            i = rng.randrange(1, len(t)); t.insert(i, 32); cases.append("b58cdec %s %d" % (shex(bytes(t)), L + 4))
    for s in (b"", b" ", b"1", b"11", b"1111", b"11111", b"3QJmnh", b"z", b"zz", b"1z", b" 1 ", b"\x00", b"1\x00", b"2g", b"5Q"):
        for mx in (0, 1, 2, 3, 4, 5, 100):
            cases.append("b58dec %s %d" % (shex(s), mx))
            cases.append("b58cdec %s %d" % (shex(s), mx))
    cases.append("b58cdec %s 2147483647" % shex(b58c_encode(b"abc")))
    cases.append("b58cdec %s 2147483644" % shex(b58c_encode(b"abc")))
    cases.append("b58cdec %s 2147483643" % shex(b58c_encode(b"abc")))
    return cases


DEST_SIZES = {"pkh": 20, "sh": 20, "wpkh": 20, "wsh": 32, "tr": 32}


def segwit_addr(hrp, ver, prog, enc=None):
    if enc is None:
        enc = 1 if ver == 0 else 2
    return b32_encode(enc, hrp, [ver] + convertbits(prog, 8, 5))


def gen_addr(rng, tier):
    N = 1 if tier == "quick" else 20
    chains = keyio_chains()
    cases = []
    for ci, ch in enumerate(chains):
        hrp = ch[5]
        for _ in range(6 * N):
            for ty, sz in DEST_SIZES.items():
                h = rbytes(rng, sz) if rng.random() < 0.8 else bytes([rng.choice([0, 255])]) * sz
                cases.append("addr %d %s %s" % (ci, ty, hx(h)))
        cases.append("addr %d anchor -" % ci)
        cases.append("addr %d none -" % ci)
        for ver in range(0, 18):
            for ln in (1, 2, 3, 20, 31, 32, 33, 40, 41):
                if N == 1 and rng.random() < 0.5 and ver not in (0, 1, 16, 17):
                    continue
                cases.append("addr %d wit%d %s" % (ci, ver, hx(rbytes(rng, ln))))
        cases.append("addr %d wit1 4e73" % ci)
        cases.append("addr %d wit2 4e73" % ci)
        cases.append("addr %d wit1 4e74" % ci)
        # decode: malformed / boundary strings
        def dec(s):
            cases.append("addrdec %d %s" % (ci, shex(s)))
        for ver in list(range(0, 32)):
            for ln in (0, 1, 2, 20, 32, 40, 41, 42):
                if N == 1 and rng.random() < 0.6 and ver not in (0, 1, 2, 16, 17):
                    continue
                prog = rbytes(rng, ln)
                for enc in (1, 2):
                    s = segwit_addr(hrp, ver, prog, enc)
                    if len(s) <= 95:
                        dec(s)
                if rng.random() < 0.3:
                    dec(segwit_addr(hrp, ver, prog).upper())
        for _ in range(30 * N):
            ver = rng.choice([0, 0, 1, 1, 2, 16])
            ln = rng.choice([2, 20, 32, 32, 40])
            prog = rbytes(rng, ln)
            d5 = [ver] + convertbits(prog, 8, 5)
            enc = 1 if ver == 0 else 2
            r = rng.random()
            if r < 0.15:
                d5[-1] ^= rng.choice([1, 2, 4, 8, 16, 31]); dec(b32_encode(enc, hrp, d5))            # non-zero padding
            elif r < 0.3:
                dec(b32_encode(enc, hrp, d5 + [0]))                                                # a whole extra group
            elif r < 0.4:
                dec(b32_encode(enc, hrp, d5[:-1]))
            elif r < 0.5:
                oh = rng.choice([c[5] for c in chains] + [b"bc1", b"tc", b"b"]); dec(segwit_addr(oh, ver, prog))
            elif r < 0.6:
                s = bytearray(segwit_addr(hrp, ver, prog)); i = rng.randrange(len(s)); s[i] = ord(chr(s[i]).upper()); dec(bytes(s))
            elif r < 0.8:
                s = bytearray(segwit_addr(hrp, ver, prog)); i = rng.randrange(len(s)); s[i] = ord(rng.choice(CHARSET)); dec(bytes(s))
            elif r < 0.9:
                s = bytearray(segwit_addr(hrp, ver, prog)); i = rng.randrange(len(hrp) + 1, len(s) - 1); s[i], s[i + 1] = s[i + 1], s[i]; dec(bytes(s))
            else:
                dec(b" " + segwit_addr(hrp, ver, prog)); dec(segwit_addr(hrp, ver, prog) + b" ")
        dec(b32_encode(1, hrp, [])); dec(b32_encode(2, hrp, [])); dec(b32_encode(1, hrp, [0])); dec(b32_encode(2, hrp, [1]))
        dec(hrp); dec(hrp + b"1"); dec(hrp.upper()); dec(hrp[:1]); dec(b"")
        for _ in range(25 * N):
            pre = rng.choice([ch[0], ch[1], ch[2], bytes([rng.randrange(256)]), ch[0] + ch[0], b""])
            ln = rng.choice([19, 20, 20, 20, 21, 24, 0, 4])
            payload = pre + rbytes(rng, ln)
            s = b58c_encode(payload).encode()
            r = rng.random()
            if r < 0.5:
                dec(s)
            elif r < 0.65:
                t = bytearray(s); i = rng.randrange(len(t)); t[i] = ord(rng.choice(B58)); dec(bytes(t))
            elif r < 0.75:
                dec(b" " + s + b"  ")
            elif r < 0.85:
                dec(b58_encode(payload).encode())            # no checksum
            else:
                t = bytearray(s); i = rng.randrange(len(t)); t[i] = rng.choice(b"0OIl\x00\xff"); dec(bytes(t))
        # a base58 string that begins with the HRP (is_bech32 is decided on the prefix alone)
        dec(hrp + b58c_encode(ch[0] + rbytes(rng, 20)).encode())
        dec(hrp.upper() + b"1" + b"q" * 10)
    return cases


# ---------------------------------------------------------------------------------------------------
# secp256k1 in python, only to construct inputs (valid points, signatures, extended keys)
def secp_consts():
    P = core.parse_params()
    return P["SECP256K1_P"], P["SECP256K1_N"], (P["SECP256K1_GX"], P["SECP256K1_GY"])


def pt_add(p, A, B):
    if A is None: return B
    if B is None: return A
    (x1, y1), (x2, y2) = A, B
    if x1 == x2:
        if (y1 + y2) % p == 0: return None
        l = 3 * x1 * x1 * pow(2 * y1, -1, p) % p
    else:
        l = (y2 - y1) * pow(x2 - x1, -1, p) % p
    x3 = (l * l - x1 - x2) % p
    return (x3, (l * (x1 - x3) - y1) % p)


def pt_mul(p, k, A):
    R = None
    while k:
        if k & 1: R = pt_add(p, R, A)
        A = pt_add(p, A, A)
        k >>= 1
    return R


def b32(v):
    return int(v).to_bytes(32, "big")


def ser_pub(pt, compressed=True):
    x, y = pt
    return (bytes([2 + (y & 1)]) + b32(x)) if compressed else (b"\x04" + b32(x) + b32(y))


def rand_scalar(rng, n):
    r = rng.random()
    if r < 0.6: return rng.randrange(1, n)
    if r < 0.8: return rng.choice([1, 2, 3, n - 1, n - 2, n // 2, n // 2 + 1, (n + 1) // 2])
    return rng.randrange(1, 1 << rng.choice([8, 64, 128, 200]))


def gen_bip32(rng, tier):
    N = 1 if tier == "quick" else 10
    p, n, G = secp_consts()
    H = 1 << 31
    cases = []
    def code_prv(depth, fpr, child, cc, key, pad=0):
        return bytes([depth]) + fpr + child.to_bytes(4, "big") + cc + bytes([pad]) + b32(key)
    def code_pub(depth, fpr, child, cc, pub33):
        return bytes([depth]) + fpr + child.to_bytes(4, "big") + cc + pub33
    idxs = [0, 1, 2, H - 1, H, H + 1, (1 << 32) - 1]
    for _ in range(3 * N):
        cases.append("seed %s" % hx(rbytes(rng, rng.choice([16, 32, 64]))))
    cases.append("seed %s" % hx(rbytes(rng, 15)))
    for _ in range(3 * N):
        path = [rng.choice(idxs + [rng.randrange(1 << 32)]) for _ in range(rng.choice([1, 2, 3]))]
        cases.append("path %s %s" % (hx(rbytes(rng, 32)), " ".join(map(str, path))))
    cases.append("path 000102030405060708090a0b0c0d0e0f %d 1 %d" % (H, H + 2))        # BIP32 test vector 1 prefix
    for i in idxs + [rng.randrange(H) for _ in range(3 * N)] + [H + rng.randrange(H) for _ in range(2 * N)]:
        depth = rng.choice([0, 1, 2, 5, 254])
        fpr = bytes(4) if depth == 0 else rbytes(rng, 4)
        child = 0 if depth == 0 else rng.randrange(1 << 32)
        cases.append("ckd %s %d" % (hx(code_prv(depth, fpr, child, rbytes(rng, 32), rand_scalar(rng, n))), i))
    cases.append("ckd %s 0" % hx(code_prv(255, rbytes(rng, 4), 7, rbytes(rng, 32), 5)))       # depth 255: Derive returns false
    cases.append("ckd %s %d" % (hx(code_prv(254, rbytes(rng, 4), 7, rbytes(rng, 32), n - 1)), H))
    # Decode validity rules
    cc = rbytes(rng, 32)
    for (depth, fpr, child, key, pad) in [(0, bytes(4), 0, 1, 0), (0, bytes(4), 1, 1, 0), (0, b"\0\0\0\1", 0, 1, 0), (0, b"\1\0\0\0", 0, 1, 0),
                                          (1, bytes(4), 0, 1, 0), (3, rbytes(rng, 4), H, n - 1, 0), (3, rbytes(rng, 4), 5, n, 0),
                                          (3, rbytes(rng, 4), 5, 0, 0), (3, rbytes(rng, 4), 5, n + 1, 0), (3, rbytes(rng, 4), 5, 7, 1),
                                          (3, rbytes(rng, 4), 5, 7, 255), (255, rbytes(rng, 4), (1 << 32) - 1, (1 << 256) - 1, 0)]:
        cases.append("extdec prv %s" % hx(code_prv(depth, fpr, child, cc, key, pad)))
    pk = pt_mul(p, rand_scalar(rng, n), G)
    pub = ser_pub(pk)
    bad_x = next(x for x in range(1, 100) if pow((x ** 3 + 7) % p, (p - 1) // 2, p) != 1)
    for (depth, fpr, child, pb) in [(0, bytes(4), 0, pub), (0, bytes(4), 2, pub), (0, b"\0\1\0\0", 0, pub), (2, rbytes(rng, 4), 9, pub),
                                    (2, rbytes(rng, 4), 9, bytes([5 - pub[0]]) + pub[1:]), (2, rbytes(rng, 4), 9, b"\x04" + pub[1:]),
                                    (2, rbytes(rng, 4), 9, b"\x02" + b32(bad_x)), (2, rbytes(rng, 4), 9, b"\x02" + b32(p)),
                                    (2, rbytes(rng, 4), 9, b"\x00" + pub[1:]), (2, rbytes(rng, 4), 9, b"\x06" + pub[1:])]:
        cases.append("extdec pub %s" % hx(code_pub(depth, fpr, child, cc, pb)))
    for i in [0, H - 1, H, rng.randrange(H)]:
        cases.append("ckdpub %s %d" % (hx(code_pub(2, rbytes(rng, 4), 9, rbytes(rng, 32), pub)), i))
    cases.append("ckdpub %s 0" % hx(code_pub(255, rbytes(rng, 4), 9, rbytes(rng, 32), pub)))
    # strings: xprv/xpub/WIF per chain, decoded on every chain
    for ci in range(5):
        cases.append("xkey %d prv %s" % (ci, hx(code_prv(3, rbytes(rng, 4), rng.randrange(1 << 32), rbytes(rng, 32), rand_scalar(rng, n)))))
        cases.append("xkey %d pub %s" % (ci, hx(code_pub(3, rbytes(rng, 4), rng.randrange(1 << 32), rbytes(rng, 32), pub))))
        cases.append("wif %d %s %d" % (ci, hx(b32(rand_scalar(rng, n))), rng.randrange(2)))
    cases.append("wif 0 %s 1" % hx(b32(0)))
    cases.append("wif 0 %s 0" % hx(b32(n)))
    cases.append("wif 0 %s 0" % hx(b32(n - 1)))
    return cases


def gen_ec_light(rng, tier):
    N = 1 if tier == "quick" else 30
    p, n, G = secp_consts()
    cases = []
    edge = [0, 1, 2, n // 2 - 1, n // 2, n // 2 + 1, n // 2 + 2, n - 2, n - 1, n, n + 1, p - 1, p, (1 << 256) - 1, 1 << 255, (1 << 255) - 1,
            (1 << 64) - 1, 1 << 64, (1 << 128) - 1, 1 << 128, (1 << 192) - 1, 1 << 192]
    # limb-boundary values around n/2 and n: change one 64-bit limb by +-1
    for base in (n // 2, n):
        for i in range(4):
            for d in (-1, 1):
                v = base + d * (1 << (64 * i))
                if 0 <= v < (1 << 256): edge.append(v)
            limb = (base >> (64 * i)) & ((1 << 64) - 1)
            edge.append(base - (limb << (64 * i)))                       # limb zeroed
            edge.append((base | (((1 << 64) - 1) << (64 * i))) & ((1 << 256) - 1))   # limb all ones
    def sc():
        r = rng.random()
        if r < 0.5: return rng.choice(edge)
        if r < 0.8: return rng.randrange(1 << 256)
        return rng.randrange(n)
    for s in edge:
        cases.append("signorm %s %s" % (hx(b32(1)), hx(b32(s))))
        cases.append("seckey_verify %s" % hx(b32(s)))
        cases.append("seckey_negate %s" % hx(b32(s)))
    for _ in range(200 * N):
        cases.append("signorm %s %s" % (hx(b32(sc())), hx(b32(sc()))))
    for _ in range(150 * N):
        a, b = sc(), sc()
        if rng.random() < 0.2: b = (n - a) % n if a < n else b
        cases.append("seckey_tweak_add %s %s" % (hx(b32(a)), hx(b32(b))))
        cases.append("seckey_tweak_mul %s %s" % (hx(b32(a)), hx(b32(b))))
    return cases


def gen_ec_heavy(rng, tier):
    N = 1 if tier == "quick" else 10
    p, n, G = secp_consts()
    cases = []
    def is_qr(a): return a % p == 0 or pow(a % p, (p - 1) // 2, p) == 1
    pts = [pt_mul(p, k, G) for k in (1, 2, 3, n - 1, n - 2, n // 2)] + [pt_mul(p, rng.randrange(1, n), G) for _ in range(4 * N)]
    for pt in pts:
        x, y = pt
        cases.append("pubkey_parse %s" % hx(ser_pub(pt)))
        cases.append("pubkey_parse %s" % hx(bytes([2 + (1 - (y & 1))]) + b32(x)))
        if rng.random() < 0.7:
            cases.append("pubkey_parse %s" % hx(ser_pub(pt, False)))
            cases.append("pubkey_parse %s" % hx(bytes([6 + (y & 1)]) + b32(x) + b32(y)))       # hybrid, right parity
            cases.append("pubkey_parse %s" % hx(bytes([7 - (y & 1)]) + b32(x) + b32(y)))       # hybrid, wrong parity
            cases.append("pubkey_parse %s" % hx(b"\x04" + b32(x) + b32((y + 1) % p)))           # not on the curve
            cases.append("pubkey_parse %s" % hx(b"\x04" + b32(x) + b32(p - y)))
    xs = [0, 1, 2, 3, 4, 5, 6, 7, p - 1, p - 2, p - 3, p, p + 1, p + 2, (1 << 256) - 1, (1 << 256) - 2, n, n - 1] + [rng.randrange(p) for _ in range(6 * N)]
    for x in xs:
        cases.append("pubkey_parse %s" % hx(bytes([rng.choice([2, 3])]) + b32(x)))
        cases.append("xonly_parse %s" % hx(b32(x)))
    # x < p but its 52-bit limbs hit the pattern tested by fe_set_b32_limit partially
    for x in (p - (1 << 52), p - (1 << 104), p - 1 - (1 << 208), (p | ((1 << 52) - 1)) & ((1 << 256) - 1), p - (p & ((1 << 52) - 1))):
        cases.append("pubkey_parse %s" % hx(b"\x02" + b32(x)))
        cases.append("xonly_parse %s" % hx(b32(x)))
    g = ser_pub(G)
    for bad in (b"", b"\x02", g[:32], g + b"\0", b"\x00" + g[1:], b"\x01" + g[1:], b"\x04" + g[1:], b"\x05" + g[1:], b"\x02" + g[1:] + bytes(32),
                ser_pub(G, False)[:64], ser_pub(G, False) + b"\0", b"\x02" + ser_pub(G, False)[1:], b"\x08" + ser_pub(G, False)[1:]):
        cases.append("pubkey_parse %s" % hx(bad))
    for k in [0, 1, 2, n - 1, n, n + 1, (1 << 256) - 1, n // 2] + [rng.randrange(1, n) for _ in range(6 * N)]:
        cases.append("pubkey_create %s" % hx(b32(k)))
    for _ in range(6 * N):
        k = rng.randrange(1, n)
        pt = pt_mul(p, k, G)
        t = rng.choice([0, 1, n - k, (n - k + 1) % n, n, n - 1, rng.randrange(n), (1 << 256) - 1])
        cases.append("pubkey_tweak_add %s %s" % (hx(ser_pub(pt)), hx(b32(t))))
    for pt in pts[:6]:
        cases.append("pubkey_negate %s" % hx(ser_pub(pt)))
        cases.append("xonly_from %s" % hx(ser_pub(pt)))
        cases.append("xonly_from %s" % hx(ser_pub((pt[0], p - pt[1]))))
    for _ in range(6 * N):
        k = rng.randrange(1, n)
        pt = pt_mul(p, k, G)
        if pt[1] & 1: k = n - k
        t = rng.choice([0, 1, n - k, n, rng.randrange(n), rng.randrange(n)])
        cases.append("xonly_tweak_add %s %s" % (hx(b32(pt[0])), hx(b32(t))))
    # ECDSA verification: valid low-S / its high-S twin / wrong message / degenerate r, s
    for j in range(3 * N):
        d = rng.randrange(1, n); Q = pt_mul(p, d, G)
        m = rng.randrange(1 << 256) if j else (n + 5)                 # message >= n is reduced
        k = rng.randrange(1, n); R = pt_mul(p, k, G); r = R[0] % n
        s = pow(k, -1, n) * ((m % n) + r * d) % n
        lo, hi = min(s, n - s), max(s, n - s)
        pub = hx(ser_pub(Q, rng.random() < 0.7))
        cases.append("verify %s %s %s %s" % (pub, hx(b32(m)), hx(b32(r)), hx(b32(lo))))
        cases.append("verify %s %s %s %s" % (pub, hx(b32(m)), hx(b32(r)), hx(b32(hi))))
        if j == 0:
            cases.append("verify %s %s %s %s" % (pub, hx(b32(m ^ 1)), hx(b32(r)), hx(b32(lo))))
            cases.append("verify %s %s %s %s" % (pub, hx(b32(m)), hx(b32(0)), hx(b32(lo))))
            cases.append("verify %s %s %s %s" % (pub, hx(b32(m)), hx(b32(r)), hx(b32(0))))
            cases.append("verify %s %s %s %s" % (pub, hx(b32(m)), hx(b32(r)), hx(b32(n))))
    # CKey::Sign: RFC6979 nonce, low-S, low-R grinding -- byte-equal signatures
    for key in [1, n - 1] + [rng.randrange(1, n) for _ in range(2 * N)]:
        cases.append("sign %s %s" % (hx(b32(key)), hx(b32(rng.randrange(1 << 256)))))
    cases.append("sign %s %s" % (hx(b32(rng.randrange(1, n))), hx(b32(n + 1))))
    cases.append("sign %s %s" % (hx(b32(0)), hx(b32(5))))
    return cases
