from vlib.runner import Tie
from vlib import core

ID = "C57"
LEVEL = "proof"
DESIGN_REF = "DESIGN.md section 5, C57"
PROP_FILES = ["props/Properties_C57.v"]
RULE = ("av cases: the real Chainstate::ConnectBlock (fJustCheck) of a block holding a transaction with an invalid signature, directly above the "
        "active tip of a regtest node whose block index holds two competing header chains of 2140 and 2200 headers (real ProcessNewBlockHeaders); "
        "the assumevalid hash (none / not in the index / the block itself / below it / above it / on the competing branch), the best header "
        "(on either chain, at every distance around the 2016/2017-block boundary, below the block) and the minimum chain work (around the best "
        "header's work) vary per case; observed: accepted (scripts skipped) or rejected by script verification. "
        "ept / proof cases: GetBlockProofEquivalentTime and GetBitsProof on synthetic index entries with 256-bit work values (equal, adjacent, "
        "extreme, products that wrap 2^256, quotients around 2^63, zero proof). non-trivial = every av case and every ept case with distinct works")
ASSUMPTIONS = ["CBlockIndex::GetAncestor(h) returns the block at height h on the path to the genesis block (the skip-list walk is C54's subject)",
               "theorems about the decision assume |work difference| * spacing < 2^256 and a spacing that fits uint64 (wf_works); the wrapping product "
               "is in the model and in the correspondence, only the closed formula needs the premise",
               "TWO_WEEKS_IN_SECONDS is a function-local constant of ConnectBlock: it is tied by the 2016/2017 boundary cases, not generated"]
TRUSTED = ["Coq 8.16.1 kernel (coqc)", "tie/dump_params.cpp prints nPowTargetSpacing of every chain (cp_target_spacing)",
           "extraction: ExtrOcamlBasic only; ocaml/conv.ml + assumevalid_driver.ml glue (the abstract block index of the fixture: ids, heights, works)",
           "tie/drivers/assumevalid_drv.cpp sets m_options.assumed_valid_block / minimum_chain_work in place and points m_best_header at an index entry "
           "before calling the real ConnectBlock; header chains are submitted through the real ProcessNewBlockHeaders"]

A_TOP, B_TOP, P = 2240, 2300, 101


def work(h):
    return 2 * (h + 1)


def gen(rng, tier):
    cases = []
    # ---- the decision ----
    avs = ["none", "unknown", "A0", "A50", "A100", "A101", "A102", "A2116", "A2117", "A2118", "A2119", "A2240", "B101", "B102", "B2118", "B2300"]
    bests = ["A50", "A100", "A101", "A102", "A1000", "A2115", "A2116", "A2117", "A2118", "A2119", "A2120", "A2240", "B101", "B2117", "B2118", "B2300"]
    def mws(best):
        h = int(best[1:])
        w = work(h)
        return ["0", "1", "%x" % max(0, w - 1), "%x" % w, "%x" % (w + 1), "%x" % (1 << 255), "f" * 64]
    for av in avs:
        for best in bests:
            for mw in ("0", "%x" % work(int(best[1:])), "%x" % (work(int(best[1:])) + 1)):
                cases.append("av %s %s %s" % (av, best, mw))
    n = 1500 if tier == "quick" else 40000
    for _ in range(n):
        r = rng.random()
        if r < 0.15: av = rng.choice(avs)
        elif r < 0.75: av = "A%d" % rng.choice([rng.randrange(0, A_TOP + 1), rng.randrange(95, 110), rng.randrange(2110, 2125)])
        else: av = "B%d" % rng.randrange(101, B_TOP + 1)
        r = rng.random()
        if r < 0.15: best = rng.choice(bests)
        elif r < 0.8: best = "A%d" % rng.choice([rng.randrange(0, A_TOP + 1), rng.randrange(2110, 2125), rng.randrange(2100, A_TOP + 1)])
        else: best = "B%d" % rng.choice([rng.randrange(101, B_TOP + 1), rng.randrange(2110, 2125)])
        cases.append("av %s %s %s" % (av, best, rng.choice(mws(best))))
    # ---- GetBitsProof ----
    bits = [0, 1, 0x207fffff, 0x1d00ffff, 0x1b0404cb, 0x1e0377ae, 0x170331db, 0x03000001, 0x03800001, 0x04800001, 0x01010000, 0x02010000,
            0x00ffffff, 0x20ffffff, 0x21010000, 0x2100ffff, 0x22000100, 0x220000ff, 0x23000001, 0x23000000, 0x2200ffff, 0xff000001, 0xff7fffff,
            0x01003456, 0x02123456, 0x03123456, 0x04123456, 0x05009234, 0x20123456]
    for _ in range(300 if tier == "quick" else 5000):
        size = rng.choice([0, 1, 2, 3, 4, 5, 16, 29, 30, 31, 32, 33, 34, 35, 36, rng.randrange(0, 256)])
        mant = rng.choice([0, 1, 0xff, 0x100, 0xffff, 0x10000, 0x7fffff, rng.randrange(0, 1 << 23)])
        sign = rng.choice([0, 0, 0, 0x800000])
        bits.append((size << 24) | sign | mant)
    for b in bits:
        cases.append("proof %d" % b)
    # ---- GetBlockProofEquivalentTime ----
    M = (1 << 256) - 1
    def wk():
        r = rng.random()
        if r < 0.2: return rng.choice([0, 1, 2, M, M - 1, 1 << 255, 1 << 64, (1 << 64) - 1, 1 << 63])
        if r < 0.6: return rng.getrandbits(rng.choice([8, 32, 64, 80, 96, 128, 200, 256]))
        return rng.getrandbits(256) >> rng.randrange(0, 256)
    ebits = [0x207fffff, 0x1d00ffff, 0x170331db, 0x1b0404cb, 0x03000001, 0x04000001, 0x20010000, 0x00000000, 0x04800001, 0x23000001, 0x1d00ffff]
    spc = [600, 600, 600, 1, 0, 2, 150, 9223372036854775807, -1, -600, 1 << 40]
    for _ in range(1500 if tier == "quick" else 40000):
        a = wk()
        r = rng.random()
        if r < 0.25: b = a
        elif r < 0.5: b = max(0, min(M, a + rng.choice([-1, 1, -2, 2, -4033, 4033, -4032, 4032])))
        else: b = wk()
        cases.append("ept %x %x %d %d" % (a, b, rng.choice(ebits), rng.choice(spc)))
    # quotients around 2^63 (the clamp) with proof 2 (regtest) and 1 (target 2^255..): diff * spacing / proof ~ 2^63
    for d in (-2, -1, 0, 1, 2):
        for sp in (1, 2, 600):
            q = (1 << 63) + d
            diff = (q * 2 + sp - 1) // sp
            cases.append("ept %x %x %d %d" % (diff + 7, 7, 0x207fffff, sp))
            cases.append("ept %x %x %d %d" % (7, diff + 7, 0x207fffff, sp))
    # products around 2^256
    for sp in (2, 600, 1 << 40):
        for d in (-1, 0, 1):
            diff = ((1 << 256) // sp) + d
            if 0 <= diff <= M:
                cases.append("ept %x 0 %d %d" % (diff, 0x207fffff, sp))
    return cases


def nontrivial(c):
    w = c.split()
    return w[0] == "av" or (w[0] == "ept" and w[1] != w[2])


TIES = [Tie("assumevalid", "tie/drivers/assumevalid_drv.cpp", "Extract_AssumeValid.v", "assumevalid_driver.ml", gen,
            predicate="driver", nontrivial=nontrivial)]

LEVEL_TEXT = ("Coq theorems over every block index (tree of entries with parent, height, chain work, nBits), configuration and block of an executable "
              "transcription of the script_check_reason computation of Chainstate::ConnectBlock, GetBlockProofEquivalentTime (256-bit wrap, 63-bit "
              "clamp, sign) and GetBitsProof: scripts are skipped if and only if assumevalid is configured and indexed, the block is an ancestor of it, "
              "the block is on the best header chain, the best header has the minimum chain work and (two weeks + 1 s) * proof(best) <= work "
              "difference * spacing; every other block (competing branch, too close, low-work header chain) is verified; a skipped block has more than "
              "2016 blocks of the best header's difficulty on top (generated 600 s spacing); each condition is shown necessary by a witness; the "
              "equivalent-time formula floor(|dw| * spacing / proof) with its INT64_MAX clamp and GetBitsProof = floor(2^256/(target+1)). Model tied to "
              "the real ConnectBlock verdict on an invalid-script block under 2 300 configurations and to the two arithmetic functions on 3 000 inputs.")
LEVEL_NOTE = ("Trusted: Coq kernel, dump_params.cpp, extraction + driver glue. The driver injects the configuration (assumevalid hash, minimum chain work, "
              "m_best_header pointer) into the real ChainstateManager instead of restarting a node per configuration; the block under test is always the "
              "block directly above the active tip (ConnectBlock needs the UTXO view of its parent), its position relative to the assumevalid block and to "
              "the best header is varied by moving those. GetAncestor is modelled as the plain walk (C54 ties the skip list). TWO_WEEKS_IN_SECONDS is a "
              "local constant tied by boundary cases. The first script-check decision only: the script-execution cache and parallel checking are C13/C14.")
TECHNIQUE = "Coq proof (case analysis of the decision chain, floor-division arithmetic, vm_compute witnesses) + differential correspondence on the real ConnectBlock"
