from vlib.runner import Tie
from vlib import core

ID = "C29"
LEVEL = "proof"
DESIGN_REF = "DESIGN.md section 5, C29"
PROP_FILES = ["props/Properties_C29.v"]
RULE = ("wf cases: packages of 0-27 real CTransactions (count 24/25/26, total weight MAX_PACKAGE_WEIGHT-1/0/+1 with 1 and 2+ "
        "transactions, a single overweight transaction), random dependency graphs given in sorted, swapped, reversed and shuffled "
        "order, repeated entries, same-txid-different-witness twins, two transactions spending one outpoint, one transaction spending an "
        "outpoint twice, empty-vin transactions, child-with-all/some/no-parents, parents spending each other; one 21 MB transaction "
        "repeated 25 times (int accumulator wrap). acc cases: real ProcessNewPackage on a regtest chain with 64 confirmed anyone-can-spend "
        "coins: 1-parent-1-child with every fee class pair (0, min-1, min, package-min-1, package-min, high) and the parent fresh / "
        "already in the mempool / present as a different-witness twin; single-transaction packages; ill-formed packages over valid "
        "transactions (unsorted, duplicate, twin duplicate, in-package conflict, not child-with-parents, grandparent, 26 members); random "
        "child-with-parents packages of 2-25 transactions with low-fee parents, missing inputs, parents spending parents, mempool "
        "parents outside the package, over random mempool pre-states; replacement inside the call: a later parent double-spends the "
        "confirmed input of a mempool ancestor of an earlier member (victim already in the mempool / accepted on its own earlier in the same "
        "call; with a child in the mempool; two victims; both member orders), ordinary replacement by a package member or a single-transaction "
        "package with fees at the PaysForRBF boundary -1/0 and far above, replacement spending what it evicts. non-trivial = at least two built transactions; distinct = distinct case lines")
ASSUMPTIONS = ["txids/wtxids are abstracted to labels: distinct built transactions have distinct txids, a witness-only change keeps the txid "
               "(SHA256d collision freedom; the driver builds real transactions so the real hashes are what the C++ side compares)",
               "premise of the well-formedness theorems: package size fits unsigned int and each weight w satisfies 0 <= w and "
               "w * MAX_PACKAGE_COUNT <= INT32_MAX (true of anything that fits a P2P message: theorem C29_p2p_weight_within_bound); "
               "outside it the int accumulator wraps (C29_weight_accumulator_wraps_refuted, replayed by the 'big' case)",
               "premises of C29_accept_package on the sub-evaluations (single_ok, multi_ok, trim_ok: failed evaluation leaves the mempool alone; "
               "a sub-package is submitted entirely or not at all; evicted sets are descendant-closed; inputs of an accepted transaction are "
               "mempool outputs or confirmed coins) - they are facts about PreChecks/SubmitPackage/TrimToSize (C22/C26/C28 territory), shown "
               "satisfiable together by C29_premises_satisfiable and exercised on the real code by the acc correspondence",
               "acc scenarios: version-2 standard transactions with valid scripts; a mempool conflict is only met by a transaction evaluated "
               "alone and replacing with a fee far above everything it evicts or of equal size (the feerate-diagram rule and package RBF are not modelled); default "
               "mempool size (LimitMempoolSize never evicts): there acceptance is decided by input availability and fee rate, which is what "
               "the scenario evaluator (toy_single/toy_multi) computes"]
TRUSTED = ["Coq 8.16.1 kernel (coqc; vm_compute for the witness lemma)",
           "tie/dump_params.cpp + tie/params/mempoolpol.h print MAX_PACKAGE_COUNT, MAX_PACKAGE_WEIGHT, MAX_PROTOCOL_MESSAGE_LENGTH from the compiled tree",
           "extraction: ExtrOcamlBasic only; ocaml/conv.ml + package_driver.ml glue (labels for hashes)",
           "tie/drivers/package_drv.cpp builds the CTransactions it is told to, checks the claimed weights against GetTransactionWeight and prints the real functions' answers; "
           "in accept mode it funds 64 P2WSH(OP_DROP OP_TRUE) coins on a TestChain100Setup, submits the pre-state with ProcessTransaction, calls the real "
           "ProcessNewPackage and prints the package state, per-transaction result kinds and mempool membership before/after"]


def cs(n):
    return 1 if n < 253 else 3 if n <= 0xffff else 5 if n <= 0xffffffff else 9


def tx_weight(nin, pad, wit):
    base = 4 + cs(nin) + 4 + cs(1) + (8 + cs(1) + 1)
    for i in range(nin):
        sl = pad if i == 0 else 0
        base += 36 + cs(sl) + sl + 4
    total = base
    if wit > 0 and nin > 0:
        total += 2 + (1 + cs(wit) + wit) + (nin - 1)
    return 3 * base + total


class B:
    """builder of one wf case"""
    def __init__(self):
        self.built = []     # ("n", inputs, pad, wit) | ("t", j, wit)
        self.pkg = []

    def new(self, inputs, pad=0, wit=0):
        self.built.append(["n", list(inputs), pad, wit]); return len(self.built) - 1

    def twin(self, j, wit):
        self.built.append(["t", j, wit]); return len(self.built) - 1

    def shape(self, b):
        e = self.built[b]
        if e[0] == "n":
            return len(e[1]), e[2], e[3]
        nin, pad, _ = self.shape(e[1])
        return nin, pad, e[2]

    def weight(self, b):
        return tx_weight(*self.shape(b))

    def line(self):
        out = ["wf", str(len(self.built))]
        for b, e in enumerate(self.built):
            if e[0] == "n":
                out += ["n", str(len(e[1]))]
                for (k, a, n) in e[1]:
                    out += [k, str(a), str(n)]
                out += [str(e[2]), str(e[3]), str(self.weight(b))]
            else:
                out += ["t", str(e[1]), str(e[2]), str(self.weight(b))]
        out += [str(len(self.pkg))] + [str(i) for i in self.pkg]
        return " ".join(out)


def set_total_weight(bd, target):
    """re-pad built tx 0 (a 'n' entry with >= 1 input, in the package once) so that the package weighs target"""
    e = bd.built[0]
    for wit in (0, 1, 2, 3, 4, 5, 6, 7):
        e[3] = wit
        for extra in range(0, 4):
            e[2] = 0
            cur = sum(bd.weight(i) for i in bd.pkg)
            need = target - cur
            if need < 0:
                return False
            e[2] = max(0, need // 4 - extra)
            if sum(bd.weight(i) for i in bd.pkg) == target:
                return True
    return False


def random_graph(rng, n, bd, ext_range=40):
    """n new transactions, each spending external outpoints and/or outputs of earlier ones"""
    ids = []
    for k in range(n):
        nin = rng.choice([1, 1, 1, 2, 2, 3, 4])
        if rng.random() < 0.03:
            nin = 0
        ins = []
        for _ in range(nin):
            if ids and rng.random() < 0.35:
                ins.append(("p", rng.choice(ids), rng.randrange(0, 2)))
            else:
                ins.append(("e", rng.randrange(0, ext_range), rng.randrange(0, 2)))
        if ins and rng.random() < 0.04:
            ins.append(ins[0])          # the same outpoint twice inside one transaction
        ids.append(bd.new(ins, 0, rng.choice([0, 0, 0, 5])))
    return ids


def gen(rng, tier):
    P = core.parse_params()
    MAXC = P["MPP_MAX_PACKAGE_COUNT"]; MAXW = P["MPP_MAX_PACKAGE_WEIGHT"]
    cases = []
    # the accumulator wrap (outside the theorems' premise: judged 'na', compared with the model's wrap32)
    bd = B(); bd.new([("e", 1, 0)], 21500000, 0); bd.pkg = [0] * MAXC; cases.append(bd.line())
    bd = B(); bd.new([("e", 1, 0)], 21400000, 0); bd.pkg = [0] * MAXC; cases.append(bd.line())
    # empty and singletons
    bd = B(); cases.append(bd.line())
    for pad in (0, 100000, 101000, 120000):
        bd = B(); bd.new([("e", 1, 0)], pad, 0); bd.pkg = [0]; cases.append(bd.line())
    bd = B(); bd.new([]); bd.pkg = [0]; cases.append(bd.line())
    # count boundary, with and without other violations
    for n in (MAXC - 1, MAXC, MAXC + 1, MAXC + 2):
        for flavour in ("distinct", "dup", "conflict", "unsorted", "heavy"):
            bd = B()
            ids = [bd.new([("e", 100 + i, 0)]) for i in range(n)]
            bd.pkg = list(ids)
            if flavour == "dup": bd.pkg[-1] = bd.pkg[0]
            if flavour == "conflict": bd.built[n - 1][1] = [("e", 100, 0)]
            if flavour == "unsorted":
                c = bd.new([("p", ids[3], 0)]); bd.pkg[0] = c
            if flavour == "heavy": set_total_weight(bd, MAXW + 1)
            cases.append(bd.line())
    # weight boundary with 1, 2, 3, 25 transactions, alone and together with each later violation
    for n in (1, 2, 3, MAXC):
        for target in (MAXW - 1, MAXW, MAXW + 1, MAXW + 4):
            for flavour in ("distinct", "dup", "conflict", "unsorted", "twin"):
                bd = B()
                ids = [bd.new([("e", 100 + i, 0)]) for i in range(n)]
                bd.pkg = list(ids)
                if n >= 2:
                    if flavour == "dup": bd.pkg[-1] = bd.pkg[-2] if n > 2 else bd.pkg[0]
                    if flavour == "conflict": bd.built[n - 1][1] = [("e", 100 + n - 2, 0)]
                    if flavour == "unsorted":
                        c = bd.new([("p", ids[n - 1], 0)]); bd.pkg[n - 2] = c
                    if flavour == "twin":
                        t = bd.twin(ids[n - 1], 9); bd.pkg[n - 2] = t
                if len(set(bd.pkg)) < len(bd.pkg) and bd.pkg.count(0) != 1:
                    continue
                if set_total_weight(bd, target):
                    cases.append(bd.line())
    # duplicates by txid: same entry twice, witness twins (same txid, different wtxid), at every pair of positions
    for n in (2, 3, 5):
        for i in range(n):
            for j in range(i + 1, n):
                for kind in ("same", "twin", "twin0"):
                    bd = B()
                    ids = [bd.new([("e", 100 + k, 0)], 0, 4 if kind == "twin0" else 0) for k in range(n)]
                    bd.pkg = list(ids)
                    if kind == "same": bd.pkg[j] = ids[i]
                    else: bd.pkg[j] = bd.twin(ids[i], 0 if kind == "twin0" else 6)
                    cases.append(bd.line())
    # topology: a child before its parent at every pair of positions; via first / last input
    for n in (2, 3, 4, 6):
        for i in range(n):
            for j in range(n):
                if i == j: continue
                for where in ("only", "first", "last"):
                    bd = B()
                    par = bd.new([("e", 7, 0)])
                    ins = [("p", par, 0)]
                    if where == "first": ins = ins + [("e", 8, 0), ("e", 9, 1)]
                    if where == "last": ins = [("e", 8, 0), ("e", 9, 1)] + ins
                    ch = bd.new(ins)
                    others = [bd.new([("e", 100 + k, 0)]) for k in range(n - 2)]
                    pkg = [None] * n
                    pkg[i] = par; pkg[j] = ch
                    it = iter(others)
                    pkg = [x if x is not None else next(it) for x in pkg]
                    bd.pkg = pkg
                    cases.append(bd.line())
    # conflicts: two transactions sharing an outpoint (same hash other index is no conflict) at each position of the input lists
    for n in (2, 3, 5):
        for i in range(n):
            for j in range(i + 1, n):
                for (pi, pj, same) in ((0, 0, True), (2, 0, True), (0, 2, True), (1, 1, False), (2, 2, True)):
                    bd = B()
                    ids = []
                    for k in range(n):
                        ins = [("e", 200 + 3 * k + m, 0) for m in range(3)]
                        ids.append(bd.new(ins))
                    shared = ("e", 500, 1)
                    bd.built[i][1][pi] = shared
                    bd.built[j][1][pj] = shared if same else ("e", 500, 0)
                    bd.pkg = ids
                    cases.append(bd.line())
    # one transaction spending an outpoint twice (not this function's business), empty vin at each position
    for n in (1, 2, 4):
        for i in range(n):
            bd = B(); ids = [bd.new([("e", 100 + k, 0)]) for k in range(n)]
            bd.built[i][1] = [("e", 100 + i, 0), ("e", 100 + i, 0)]; bd.pkg = ids; cases.append(bd.line())
            bd = B(); ids = [bd.new([("e", 100 + k, 0)]) for k in range(n)]
            bd.built[i][1] = []; bd.pkg = ids; cases.append(bd.line())
            bd = B(); ids = [bd.new([("e", 100 + k, 0)]) for k in range(n)]
            bd.built[i][1] = []; bd.built[(i + 1) % n][1] = []; bd.pkg = ids; cases.append(bd.line())
    # child-with-parents shapes
    for npar in (1, 2, 3, 24):
        for shape in ("all", "missing_first", "missing_last", "extra_ext", "chain", "chain_not_child", "child_first", "grandparent"):
            bd = B()
            g = bd.new([("e", 950, 0)]) if shape == "grandparent" else None
            pars = [bd.new([("e", 100 + k, 0)]) for k in range(npar)]
            if g is not None: bd.built[pars[0]][1] = [("p", g, 0)]
            if shape in ("chain", "chain_not_child") and npar >= 2:
                bd.built[pars[1]][1] = [("p", pars[0], 0)]
            cins = [("p", q, 0) for q in pars]
            if shape == "missing_first": cins = cins[1:] + [("e", 900, 0)]
            if shape == "missing_last": cins = cins[:-1] + [("e", 900, 0)]
            if shape == "extra_ext": cins = [("e", 900, 0)] + cins + [("e", 901, 0)]
            if shape == "chain_not_child" and npar >= 2: cins = cins[1:]
            ch = bd.new(cins if cins else [("e", 900, 0)])
            bd.pkg = pars + [ch]
            if g is not None: bd.pkg = [g] + bd.pkg
            if shape == "child_first": bd.pkg = [ch] + pars
            cases.append(bd.line())
    # random structured
    nrand = 2500 if tier == "quick" else 80000
    for _ in range(nrand):
        bd = B()
        n = rng.choice([1, 2, 2, 3, 3, 4, 5, 6, 8, 12, MAXC - 1, MAXC, MAXC + 1])
        style = rng.choice(["graph", "graph", "cwp", "cwp", "tree"])
        if style == "graph":
            ids = random_graph(rng, n, bd, ext_range=rng.choice([6, 40, 400]))
        else:
            npar = max(1, n - 1)
            pars = []
            for k in range(npar):
                ins = [("e", 100 + k, 0)]
                if style == "cwp" and pars and rng.random() < 0.3:
                    ins.append(("p", rng.choice(pars), 0))
                if rng.random() < 0.1:
                    ins.append(("e", rng.randrange(100, 100 + npar), rng.choice([0, 0, 1])))
                pars.append(bd.new(ins, 0, rng.choice([0, 0, 3])))
            cins = [("p", q, rng.choice([0, 0, 1])) for q in pars if rng.random() < 0.93]
            if rng.random() < 0.3 or not cins: cins.append(("e", 900, 0))
            rng.shuffle(cins)
            ids = pars + [bd.new(cins)]
        pkg = list(ids)
        r = rng.random()
        if r < 0.12 and len(pkg) >= 2:
            i, j = rng.sample(range(len(pkg)), 2); pkg[i], pkg[j] = pkg[j], pkg[i]
        elif r < 0.16: pkg.reverse()
        elif r < 0.22: rng.shuffle(pkg)
        r = rng.random()
        if r < 0.08 and pkg:
            pkg[rng.randrange(len(pkg))] = rng.choice(pkg)
        elif r < 0.16 and pkg:
            src = rng.choice(pkg)
            if bd.shape(src)[0] > 0:
                t = bd.twin(src, rng.choice([0, 1, 7]) if bd.shape(src)[2] == 0 else rng.choice([0, 3, 5]))
                if rng.random() < 0.5: pkg[rng.randrange(len(pkg))] = t
                else: pkg.insert(rng.randrange(len(pkg) + 1), t)
        bd.pkg = pkg
        if rng.random() < 0.15 and pkg and bd.built[0][0] == "n" and bd.built[0][1] and pkg.count(0) == 1:
            set_total_weight(bd, MAXW + rng.choice([-5, -1, 0, 1, 2, 3, 4, 400]))
        cases.append(bd.line())
    return cases



# ---------------------------------------------------------------------------------------------------
# acceptance scenarios (tie package_accept)
NSTOCK = 64


def acc_weight(nin, nout, wit):
    base = 4 + cs(nin) + nin * 41 + cs(nout) + nout * 43 + 4
    total = base + 2 + nin * (1 + cs(wit) + wit + 3)
    return 3 * base + total


class A:
    """builder of one acc case; stock coins are handed out once (no double spends against the mempool)"""
    def __init__(self, rng):
        self.rng = rng
        self.built = []
        self.free = list(range(NSTOCK))
        rng.shuffle(self.free)
        self.pre = []
        self.pkg = []

    def coin(self):
        return ("u", self.free.pop())

    def new(self, inputs, nout=1, fee=10000, wit=1, ver=2):
        self.built.append(["n", ver, list(inputs), nout, fee, wit]); return len(self.built) - 1

    def twin(self, j, wit):
        self.built.append(["t", j, wit]); return len(self.built) - 1

    def shape(self, b):
        e = self.built[b]
        if e[0] == "n":
            return len(e[2]), e[3], e[5]
        nin, nout, _ = self.shape(e[1])
        return nin, nout, e[2]

    def weight(self, b):
        return acc_weight(*self.shape(b))

    def vsize(self, b):
        return (self.weight(b) + 3) // 4

    def line(self):
        out = ["acc", str(len(self.built))]
        for b, e in enumerate(self.built):
            if e[0] == "n":
                out += ["n", str(e[1]), str(len(e[2]))]
                for i in e[2]:
                    out += [str(x) for x in i]
                out += [str(e[3]), str(e[4]), str(e[5]), str(self.weight(b))]
            else:
                out += ["t", str(e[1]), str(e[2]), str(self.weight(b))]
        out += [str(len(self.pre))] + [str(i) for i in self.pre]
        out += [str(len(self.pkg))] + [str(i) for i in self.pkg]
        return " ".join(out)


def fee_for(minrelay, vsize):
    return (minrelay * vsize + 999) // 1000


def gen_acc(rng, tier):
    P = core.parse_params()
    MINR = P["MPP_DEFAULT_MIN_RELAY_TX_FEE"]
    cases = []

    def fees(a, b):
        return fee_for(MINR, a.vsize(b))

    # 1 parent 1 child, every combination of fee classes, parent optionally already in the mempool / as a twin
    for pf in ("zero", "min-1", "min", "high"):
        for cf in ("zero", "min-1", "min", "pkgmin-1", "pkgmin", "high"):
            for where in ("fresh", "parent_in_pool", "twin_in_pool", "both_in_pool"):
                a = A(rng)
                par = a.new([a.coin()], nout=2)
                ch = a.new([("p", par, 0)], nout=1)
                fp = {"zero": 0, "min-1": fees(a, par) - 1, "min": fees(a, par), "high": 10000}[pf]
                tot = fee_for(MINR, a.vsize(par) + a.vsize(ch))
                fc = {"zero": 0, "min-1": fees(a, ch) - 1, "min": fees(a, ch), "pkgmin-1": max(0, tot - fp - 1), "pkgmin": max(0, tot - fp), "high": 20000}[cf]
                a.built[par][4] = fp; a.built[ch][4] = fc
                if where == "parent_in_pool": a.pre = [par]
                if where == "both_in_pool": a.pre = [par, ch]
                a.pkg = [par, ch]
                if where == "twin_in_pool":
                    tw = a.twin(par, 9); a.pre = [tw]
                cases.append(a.line())
    # single-transaction packages
    for f in ("zero", "min-1", "min", "high"):
        for kind in ("stock", "missing", "mempool_parent", "in_pool", "twin_in_pool"):
            a = A(rng)
            if kind == "mempool_parent":
                par = a.new([a.coin()]); a.pre = [par]; t = a.new([("p", par, 0)])
            elif kind == "missing":
                t = a.new([("x", 5)])
            else:
                t = a.new([a.coin()])
            a.built[t][4] = {"zero": 0, "min-1": fees(a, t) - 1, "min": fees(a, t), "high": 10000}[f]
            if kind == "in_pool": a.pre = [t]
            if kind == "twin_in_pool": a.pre = [a.twin(t, 4)]
            a.pkg = [t]
            cases.append(a.line())
    # ill-formed packages over valid transactions: nothing may be evaluated
    for n in (2, 3, 5):
        for flavour in ("unsorted", "dup", "conflict", "not_cwp", "grandparent", "toomany", "twin_dup"):
            a = A(rng)
            pars = [a.new([a.coin()]) for _ in range(n - 1)]
            ch = a.new([("p", q, 0) for q in pars])
            a.pkg = pars + [ch]
            if flavour == "unsorted": a.pkg = [ch] + pars
            if flavour == "dup": a.pkg = pars + [pars[0], ch]
            if flavour == "twin_dup": a.pkg = pars + [a.twin(pars[0], 5), ch]
            if flavour == "conflict":
                a.built[pars[-1]][2] = list(a.built[pars[0]][2]) if n > 2 else a.built[pars[-1]][2]
                if n == 2:
                    other = a.new(list(a.built[pars[0]][2])); a.pkg = pars + [other, ch]
            if flavour == "not_cwp":
                extra = a.new([a.coin()]); a.pkg = pars + [extra, ch]
            if flavour == "grandparent":
                g = a.new([a.coin()]); a.built[pars[0]][2] = [("p", g, 0)]
                # g must be built before pars[0]: rebuild in order
                a2 = A(rng); g2 = a2.new([a2.coin()]); p0 = a2.new([("p", g2, 0)])
                rest = [a2.new([a2.coin()]) for _ in range(n - 2)]
                c2 = a2.new([("p", q, 0) for q in [p0] + rest]); a2.pkg = [g2, p0] + rest + [c2]; a = a2
            if flavour == "toomany":
                a = A(rng); pars = [a.new([a.coin()]) for _ in range(25)]; ch = a.new([("p", q, 0) for q in pars]); a.pkg = pars + [ch]
            if rng.random() < 0.5 and a.built[0][0] == "n" and a.built[0][2] and a.built[0][2][0][0] == "u":
                a.pre = [0]
            cases.append(a.line())

    # --- replacement by a package member (RBF inside AcceptPackage) -------------------------------------------
    INCR = P["MPP_DEFAULT_INCREMENTAL_RELAY_FEE"]
    BIG = 2000000
    # a later parent replaces a mempool ancestor of an earlier package member: the earlier member (already in the
    # mempool, or accepted on its own earlier in the same call) is evicted with it and its result must say so
    for victim_in_pool in (True, False):
        for order in ("ABC", "BAC"):
            for extra in ("none", "b_own_coin", "a_has_child_in_pool", "second_victim"):
                a = A(rng)
                cm = a.coin()
                m = a.new([cm], nout=2, fee=10000)
                ta = a.new([("p", m, 0)], nout=2, fee=10000)
                bins = [cm] + ([a.coin()] if extra == "b_own_coin" else [])
                tb = a.new(bins, nout=2, fee=BIG)
                a.pre = [m] + ([ta] if victim_in_pool else [])
                if extra == "a_has_child_in_pool" and victim_in_pool:
                    a.pre.append(a.new([("p", ta, 1)], nout=1, fee=10000))
                pars = [ta, tb]
                if extra == "second_victim":
                    t2 = a.new([("p", m, 1)], nout=2, fee=10000); pars = [ta, t2, tb]
                    if victim_in_pool: a.pre.append(t2)
                tc = a.new([("p", q, 0) for q in pars], nout=1, fee=10000)
                if order == "BAC": pars = [tb] + [q for q in pars if q != tb]
                a.pkg = pars + [tc]
                cases.append(a.line())
    # ordinary replacement by a package member / by a single-transaction package, PaysForRBF boundaries (victim and
    # replacement have the same size, so the feerate diagram improves whenever the fee rules pass)
    for shape in ("single", "parent_of_child", "victim_with_descendant", "spends_conflict"):
        for fee_class in ("big", "pays", "pays-1", "below"):
            if shape != "single" and fee_class in ("pays-1", "below"):
                continue                  # a reconsiderable failure inside a multi-transaction package leads to package RBF (not modelled)
            a = A(rng)
            cx = a.coin()
            x = a.new([cx], nout=2, fee=10000)
            a.pre = [x]
            old = 10000
            if shape == "victim_with_descendant":
                d = a.new([("p", x, 0)], nout=1, fee=7000); a.pre.append(d); old += 7000
            rins = [cx] + ([("p", x, 1)] if shape == "spends_conflict" else [])
            r = a.new(rins, nout=2, fee=0)
            need = old + fee_for(INCR, a.vsize(r))
            a.built[r][4] = {"big": BIG, "pays": need, "pays-1": need - 1, "below": old - 1}[fee_class]
            if shape in ("victim_with_descendant", "spends_conflict") and fee_class == "pays":
                a.built[r][4] = BIG       # keep clear of the diagram rule when sizes differ
            if shape == "parent_of_child":
                c = a.new([("p", r, 0)], nout=1, fee=10000); a.pkg = [r, c]
            elif shape == "single" or shape == "victim_with_descendant" or shape == "spends_conflict":
                a.pkg = [r]
                if shape != "single":
                    c = a.new([("p", r, 0)], nout=1, fee=10000); a.pkg = [r, c]
            cases.append(a.line())
    # random child-with-parents packages over random mempool pre-states
    nrand = 700 if tier == "quick" else 20000
    for _ in range(nrand):
        a = A(rng)
        npar = rng.choice([1, 1, 2, 2, 3, 4, 6, 10, 24])
        # mempool transactions outside the package that package transactions may spend
        outside = []
        for _ in range(rng.choice([0, 0, 1, 2])):
            outside.append(a.new([a.coin()], nout=2, fee=10000))
        pars = []
        out_coin = {}
        for k in range(npar):
            ins = []
            r = rng.random()
            if outside and k > 0 and rng.random() < 0.12:
                # replaces an outside mempool transaction (and whatever descends from it, earlier parents included)
                o = rng.choice(outside)
                ins = [a.built[o][2][0]]
                pars.append(a.new(ins, nout=2, fee=2000000, wit=1)); continue
            if r < 0.08: ins.append(("x", rng.randrange(0, 5)))
            elif r < 0.25 and outside: ins.append(("p", rng.choice(outside), rng.choice([0, 1, 1])))
            else: ins.append(a.coin())
            if rng.random() < 0.2 and len(a.free) > 30: ins.append(a.coin())
            if pars and rng.random() < 0.08: ins.append(("p", rng.choice(pars), 1))      # parent spending a parent (still child-with-parents)
            fee = rng.choice([0, 0, 0, 5, 10000, 10000, 30000])
            pars.append(a.new(ins, nout=2, fee=fee, wit=rng.choice([1, 1, 3])))
        # two transactions spending the same output of an outside transaction would be a mempool double spend: drop repeats
        seen = set()
        for q in pars + []:
            e = a.built[q]
            e[2] = [i for i in e[2] if not (i[0] == "p" and (i in seen or seen.add(i)))] or [a.coin()]
        cins = [("p", q, 0) for q in pars if rng.random() < 0.95]
        if rng.random() < 0.25: cins.append(a.coin())
        if rng.random() < 0.05: cins.append(("x", 7))
        if not cins: cins = [a.coin()]
        rng.shuffle(cins)
        ch = a.new(cins, nout=1, fee=rng.choice([0, 0, 10, 10000, 10000, 50000, 200000]))
        # boundary: make the child pay exactly (or one less than) what the not-yet-accepted transactions need together
        if rng.random() < 0.2:
            low = [q for q in pars if a.built[q][4] < fees(a, q)] + [ch]
            need = fee_for(MINR, sum(a.vsize(q) for q in low)) - sum(a.built[q][4] for q in low if q != ch)
            a.built[ch][4] = max(0, need - rng.choice([0, 1]))
        a.pkg = pars + [ch]
        # pre-state: outside transactions, some parents, sometimes a twin of a parent, sometimes the child's twin
        a.pre = list(outside)
        for q in pars:
            r = rng.random()
            if r < 0.15: a.pre.append(q)
            elif r < 0.22: a.pre.append(a.twin(q, a.shape(q)[2] + 1))
        if rng.random() < 0.03: a.pre.append(a.pkg[-1])
        rng.shuffle(a.pre)
        # occasional ill-formed variants
        r = rng.random()
        if r < 0.04 and len(a.pkg) >= 2:
            i, j = rng.sample(range(len(a.pkg)), 2); a.pkg[i], a.pkg[j] = a.pkg[j], a.pkg[i]
        elif r < 0.06:
            a.pkg.insert(rng.randrange(len(a.pkg)), rng.choice(a.pkg))
        elif r < 0.09:
            a.pkg.insert(0, a.new([a.coin()]))
        cases.append(a.line())
    return cases


def nontrivial(c):
    w = c.split()
    # package entries follow the build list; cheap proxy: at least two trailing indices
    try:
        nb = int(w[1])
    except Exception:
        return False
    return nb >= 2


TIES = [Tie("package_wf", "tie/drivers/package_drv.cpp", "Extract_Package.v", "package_driver.ml", gen, mode="wf",
            predicate="driver", nontrivial=nontrivial),
        Tie("package_accept", "tie/drivers/package_drv.cpp", "Extract_Package.v", "package_driver.ml", gen_acc, mode="accept",
            predicate="driver", nontrivial=nontrivial)]

LEVEL_TEXT = ("Coq theorems over all packages and all behaviours of the sub-evaluations within named premises: AcceptPackage evaluates "
              "nothing unless the package is well-formed and child-with-parents, its result map covers exactly the package's wtxids, every "
              "reported result matches mempool membership afterwards, no package transaction stays in the mempool without its in-package "
              "parent; and over all packages: IsWellFormedPackage's model accepts iff count, weight (for 2+ transactions), distinct "
              "txids, topological order and input-disjointness all hold, and its reject reason is the first violated clause in the "
              "code's order; IsChildWithParents / IsChildWithParentsTree hold iff the package is parents ++ [child] with every parent "
              "spent by the child (and no parent spending a parent); the int accumulator of std::accumulate cannot wrap under the "
              "count limit for weights up to INT32_MAX/25 (and does wrap beyond: witness). Model tied to the real functions on real "
              "CTransactions by differential execution; the violation search evaluates an independent quadratic specification.")
LEVEL_NOTE = ("Trusted: Coq kernel, dump_params.cpp, extraction + driver glue. Hashes are labels in the model (collision freedom assumed).")
TECHNIQUE = "Coq proof (model = declarative spec, iff; invariants over the acceptance control flow) + differential correspondence"
