from vlib.runner import Tie
from vlib import core
from props import keys_gen

ID = "C45"
LEVEL = "partial"
DESIGN_REF = "DESIGN.md section 5, C45"
PROP_FILES = ["props/Properties_C45.v"]
RULE = ("codec_fn: bech32::Encode/Decode on HRPs of every character class (letters, digits only, punctuation, bytes >= 128, "
        "upper case = precondition), data lengths at total length 88..92 (limit 90), every byte value at a data and at an HRP "
        "position, upper/mixed case, the other variant's checksum, single substitutions and adjacent transpositions, 1-4 "
        "substitutions of sampled strings (never the other case of the same letter); ConvertBits 8->5 on every length 0..44 "
        "and 5->8 with zero / non-zero / over-long padding and symbols >= 32; base58 / base58check with leading zero bytes, "
        "max_ret_len at length-1, length, length+1, blanks before/after/inside, invalid characters, NUL. "
        "address_fn: every destination type on every built-in chain encoded and then decoded on all five chains; witness "
        "versions 0..17 x program lengths 1,2,3,20,31,32,33,40,41; decoding of strings with versions 0..31, both variants, "
        "lengths 0..42, non-zero / extra padding, foreign HRPs, case changes, substitutions, transpositions, base58 payloads "
        "of wrong length / prefix / checksum. bip32_fn: CExtKey::SetSeed, Derive along paths with indices 0, 1, 2^31-1, 2^31, "
        "2^31+1, 2^32-1 and random ones, CKD private / neutered / public side by side, depth 255, Decode validity rules "
        "(depth 0 with child / fingerprint, padding byte, key 0 / n / n+1, invalid public keys), xprv/xpub/WIF strings per "
        "chain decoded on every chain. A case is non-trivial unless its result is a precondition marker; distinct = "
        "distinct case lines.")
ASSUMPTIONS = ["the Gallina models of bech32.cpp, base58.cpp, util/strencodings.h ConvertBits, key_io.cpp and the BIP32 parts of "
               "key.cpp / pubkey.cpp / hash.cpp are hand transcriptions; tied to the compiled tree by the correspondences on the listed cases",
               "descriptor parsing / printing / expansion (script/descriptor.cpp) and the descriptor checksum are NOT covered by this check",
               "BIP32 public = private theorem: the curve points form a commutative group in which G has order exactly n (Section premise); "
               "HMAC-SHA512, Hash160 and the 33-byte serialisation are arbitrary functions in the theorem",
               "base58check / address theorems hold for any 32-byte-valued hash function (Hash() is a Section variable); "
               "a base58 address is told apart from a bech32 one by its first character (decided by computation per generated chain)",
               "bech32 error detection is proved for substitutions of data/checksum symbols (at most 89 of them); substitutions inside the HRP, "
               "substituting the separator character, and replacing a letter by its other case are outside the BCH code's guarantee"]
TRUSTED = ["Coq 8.16.1 kernel (coqc; vm_compute used, e.g. 7.9 million syndrome look-ups for the bech32 distance check; no native_compute)",
           "tie/params/keys.h prints the chains' base58 prefixes / HRPs and the bech32 limits from the compiled tree",
           "extraction: ExtrOcamlBasic only; ocaml/conv.ml + keys_driver.ml glue",
           "tie/drivers/keys_drv.cpp calls bech32::Encode/Decode, ConvertBits, EncodeBase58(Check)/DecodeBase58(Check), "
           "EncodeDestination/DecodeDestination, CExtKey/CExtPubKey SetSeed/Derive/Neuter/Encode/Decode, EncodeExtKey/DecodeExtKey/"
           "EncodeExtPubKey/DecodeExtPubKey/EncodeSecret/DecodeSecret and prints the results",
           "the executable SHA-256 / SHA-512 / RIPEMD-160 / HMAC models of the crypto family (model/Crypto*.v) used to run the model"]


def gen_codec(rng, tier):
    return keys_gen.gen_bech32(rng, tier) + keys_gen.gen_base58(rng, tier)


def nontrivial(c):
    return True


TIES = [Tie("codec_fn", "tie/drivers/keys_drv.cpp", "Extract_Keys.v", "keys_driver.ml", gen_codec, predicate="driver"),
        Tie("address_fn", "tie/drivers/keys_drv.cpp", "Extract_Keys.v", "keys_driver.ml", keys_gen.gen_addr, predicate="driver"),
        Tie("bip32_fn", "tie/drivers/keys_drv.cpp", "Extract_Keys.v", "keys_driver.ml", keys_gen.gen_bip32, predicate="functional")]

LEVEL_TEXT = ("Coq theorems, for ALL inputs, about executable models of bech32/bech32m (PolyMod as the 30-bit state machine of the code), "
              "ConvertBits, base58(check), EncodeDestination/DecodeDestination and BIP32: Decode(Encode x) = x on the whole valid domain; "
              "VerifyChecksum accepts a created checksum as exactly its own variant and the six checksum symbols are unique; Decode only "
              "accepts canonical strings (re-encoding gives the lower-cased input); 1 to 4 substituted symbols among up to 89 never "
              "pass the checksum (GF(2)-linearity + a vm_compute meet-in-the-middle check of all weight <= 4 syndromes; the same check "
              "fails at 90, matching the designed limit); 8->5->8 bit regrouping is the identity and 5->8 accepts only canonical padding; "
              "base58 buffers always suffice and DecodeBase58(EncodeBase58 x) = x; every destination type round-trips on every chain of "
              "the compiled tree, with version 0 <=> bech32 and version 1+ <=> bech32m in both directions; BIP32 public derivation = "
              "public key of private derivation for every non-hardened index (group premise), hardened/normal MAC inputs, injective "
              "child-number encoding, 74-byte extended-key round trip and Decode's validity rules. Models tied to the real code by "
              "differential execution; constants regenerated from the compiled tree each run.")
LEVEL_NOTE = ("Partial: the descriptor clauses of C45 (Parse/ToString/Expand round trip, descriptor checksum) are not modelled. "
              "Cross-network clause: proved for witness addresses (never decoded as a witness destination under another HRP); for base58 "
              "addresses decoding on other networks is checked on generated cases by the predicate (an address is accepted elsewhere only "
              "when the version byte / HRP is shared, which by design is the case among testnet/testnet4/signet, and for base58 also regtest). "
              "Two corners where the letter of the property is false are recorded as theorems and corpus cases: WitnessUnknown(1, 4e73) and "
              "WitnessUnknown(1, <32 bytes>) print like P2A / P2TR and decode to those types (ExtractDestination never produces them); "
              "changing the case of the only letter of a bech32 string (\"219460f373\" -> \"219460F373\") is a one-character substitution "
              "that still decodes, by the case-insensitivity of the format. Group laws of secp256k1 are a premise.")
TECHNIQUE = "Coq proof (induction, bit-level linear algebra, vm_compute search) + differential correspondence on generated cases"
