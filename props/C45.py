from vlib.runner import Tie
from vlib import core
from props import keys_gen

ID = "C45"
LEVEL = "proof"
DESIGN_REF = "DESIGN.md section 5, C45"
PROP_FILES = ["props/Properties_C45.v"]
RULE = "TODO"
ASSUMPTIONS = []
TRUSTED = []


def gen_codec(rng, tier):
    return keys_gen.gen_bech32(rng, tier) + keys_gen.gen_base58(rng, tier)


def gen_addr(rng, tier):
    return keys_gen.gen_addr(rng, tier)


TIES = [Tie("codec_fn", "tie/drivers/keys_drv.cpp", "Extract_Keys.v", "keys_driver.ml", gen_codec, predicate="driver"),
        Tie("address_fn", "tie/drivers/keys_drv.cpp", "Extract_Keys.v", "keys_driver.ml", gen_addr, predicate="driver"),
        Tie("bip32_fn", "tie/drivers/keys_drv.cpp", "Extract_Keys.v", "keys_driver.ml", keys_gen.gen_bip32, predicate="functional")]
LEVEL_TEXT = "TODO"
LEVEL_NOTE = "TODO"
TECHNIQUE = "TODO"
