from vlib.runner import Tie
from vlib import core

ID = "C31"
LEVEL = "proof"
DESIGN_REF = "DESIGN.md section 5, C31"
PROP_FILES = ["props/Properties_C31.v"]
RULE = ("cases: subsidy <chain> <height> at k*I-1, k*I, k*I+1 for k<=70 on every built-in chain (I from the "
        "generated parameters), INT_MAX, 0, 1 and seeded random heights; total <chain> recomputes the whole "
        "issuance from the implementation's per-halving values. A case is non-trivial when the height is > 0; "
        "distinct = distinct case lines.")
ASSUMPTIONS = ["GetBlockSubsidy is a function of (height, nSubsidyHalvingInterval) only",
               "the model get_block_subsidy is a hand transcription; tied by the correspondence on the listed cases"]
TRUSTED = ["Coq 8.16.1 kernel (coqc; vm_compute used in proofs; no native_compute)",
           "tie/dump_params.cpp prints COIN, MAX_MONEY and each chain's nSubsidyHalvingInterval from the compiled tree",
           "extraction: ExtrOcamlBasic only; ocaml/conv.ml + amount_driver.ml glue (zarith only to parse/print text)",
           "tie/drivers/amount_drv.cpp calls GetBlockSubsidy/MoneyRange and prints the result"]


def gen(rng, tier):
    P = core.parse_params()
    cases = []
    nrand = 300 if tier == "quick" else 20000
    for ci, ch in enumerate(P["chains"]):
        I = ch["cp_halving_interval"]
        cases.append("total %d" % ci)
        hs = {0, 1, 2, 2147483647, 2147483646}
        for k in range(0, 71):
            for d in (-1, 0, 1):
                h = k * I + d
                if 0 <= h <= 2147483647:
                    hs.add(h)
        for _ in range(nrand):
            r = rng.random()
            if r < 0.5:
                hs.add(rng.randrange(0, min(2147483647, 66 * I)))
            elif r < 0.8:
                k = rng.randrange(0, 70); hs.add(min(2147483647, max(0, k * I + rng.randrange(-3, 4))))
            else:
                hs.add(rng.randrange(0, 2147483648))
        for h in sorted(hs):
            cases.append("subsidy %d %d" % (ci, h))
    for v in (-1, 0, 1, 2099999999999999, 2100000000000000, 2100000000000001, 9223372036854775807, -9223372036854775808):
        cases.append("moneyrange %d" % v)
    return cases


TIES = [Tie("subsidy_fn", "tie/drivers/amount_drv.cpp", "Extract_Amount.v", "amount_driver.ml", gen,
            predicate="driver", nontrivial=lambda c: not c.endswith(" 0"))]

LEVEL_TEXT = ("Coq theorems for every built-in chain's generated halving interval and every height: subsidy = 50 BTC >> halvings "
              "(0 from the 64th), antitone in height, and the sum over any number of heights < 21,000,000 BTC (closed form proved by "
              "induction, cap by vm_compute on the generated intervals). Model tied to GetBlockSubsidy by differential execution at all "
              "halving boundaries; constants regenerated from the compiled tree each run.")
LEVEL_NOTE = ("Trusted: Coq kernel; dump_params.cpp; extraction (ExtrOcamlBasic) and the OCaml/C++ driver glue. The model of "
              "GetBlockSubsidy is a hand transcription checked by correspondence, not by a semantics of C++; right shift by >= 64 is UB in "
              "C++ and is excluded by the code's guard, which the boundary cases k=63,64,65 exercise.")
TECHNIQUE = "Coq proof (induction + vm_compute on generated constants) + differential correspondence"
