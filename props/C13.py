from vlib.runner import Tie
from vlib import core

ID = "C13"
LEVEL = "proof"
DESIGN_REF = "DESIGN.md section 5, C13"
PROP_FILES = ["props/Properties_C13.v"]
RULE = ("cases: (1) cuckoo: operation sequences (insert / contains / contains-with-erase, 20-300 operations) on a real "
        "CuckooCache::cache<uint256, SignatureCacheHasher> of 2..40 elements, over element pools built to collide in their 8 hash locations "
        "(shared 32-bit words, elements differing only outside the hashed words' prefix, the all-zero element), comparing every answer and the "
        "full final state (table, collection flags, epoch flags, epoch counter) with the model; (2) hist: histories of 4-40 CheckInputScripts "
        "calls on one ValidationCache (2 / 8 / 4096-element caches) over a pool of 13 transactions whose validity depends on the flags "
        "(P2TR key path with a garbage signature (TAPROOT), legacy OP_CODESEPARATOR (CONST_SCRIPTCODE), OP_SUCCESS leaf / unknown leaf version / "
        "unknown tapscript key type (the three taproot DISCOURAGE flags), high-S, undefined hash type, corrupted signature, same signature under two keys, two inputs, P2WPKH with good / corrupted witness "
        "sharing one txid), every combination of cacheSigStore / cacheFullScriptStore / deferred checks, pairs of flag sets (F, F|b) for every single flag bit b on a transaction sensitive to b, lenient-then-strict and "
        "deferred-then-inline patterns; every verdict compared with the verdict on fresh caches. Non-trivial = at least one insert / one "
        "storing call; distinct = distinct case lines.")
ASSUMPTIONS = ["P1: the cache keys (salted SHA-256) are injective on (witness hash, flags) resp. (sighash, pubkey, signature) and never the all-zero value",
               "P2: the witness hash determines the transaction",
               "P3 (view consistency): in every call the spent outputs taken from the coins view are those the transaction's prevouts commit to",
               "script execution is a deterministic interaction with the signature checker (an interaction tree per input)",
               "the models of CuckooCache / CheckInputScripts / the caching checker are hand transcriptions, tied by the correspondence"]
TRUSTED = ["Coq 8.16.1 kernel (coqc; vm_compute for the concrete witnesses)",
           "extraction: ExtrOcamlBasic only; ocaml/conv.ml + valcache_driver.ml glue",
           "tie/drivers/valcache_drv.cpp: builds the transaction pool with real keys, calls the real CheckInputScripts / CuckooCache and prints verdicts and state"]


def h32(words):
    """uint256 raw bytes (data[0] first) from eight 32-bit words"""
    return b"".join(w.to_bytes(4, "little") for w in words).hex()


def gen_cuckoo(rng, tier):
    cases = []
    scale = 1 if tier == "quick" else 20
    zero = h32([0] * 8)
    for _ in range(120 * scale):
        size = rng.choice([0, 1, 2, 2, 3, 4, 5, 8, 8, 16, 33, 40])
        n = max(2, size)
        # words that land on a few chosen locations: x with (x*n)>>32 == loc
        def word_for(loc):
            lo = (loc << 32) // n + 1
            hi = ((loc + 1) << 32) // n
            return min(0xffffffff, rng.randrange(lo, max(lo + 1, hi)))
        hot = [rng.randrange(n) for _ in range(rng.choice([1, 2, 3]))]
        pool = [zero]
        for _ in range(rng.choice([3, 6, 12, 30])):
            r = rng.random()
            if r < 0.5: ws = [word_for(rng.choice(hot)) for _ in range(8)]
            elif r < 0.8: ws = [word_for(rng.randrange(n)) for _ in range(8)]
            else: ws = [rng.randrange(1 << 32) for _ in range(8)]
            pool.append(h32(ws))
        # near-duplicates: same first words (same leading locations), different last word / different byte
        for e in list(pool[1:4]):
            b = bytearray(bytes.fromhex(e)); b[31] ^= 1; pool.append(bytes(b).hex())
            b = bytearray(bytes.fromhex(e)); b[3] ^= 0x80; pool.append(bytes(b).hex())
        ops = []
        for _ in range(rng.choice([20, 60, 150, 300])):
            r = rng.random()
            e = rng.choice(pool)
            ops.append(("i" if r < 0.5 else "c" if r < 0.8 else "e") + e)
        cases.append("cuckoo %d %s" % (size, " ".join(ops)))
    for size in (2, 8):
        cases.append("cuckoo %d c%s" % (size, zero))
        cases.append("cuckoo %d c%s i%s c%s e%s c%s" % (size, h32([1] * 8), h32([1] * 8), h32([1] * 8), h32([1] * 8), h32([1] * 8)))
    return cases


def gen_hist(rng, tier):
    P = core.parse_params()
    bit = lambda name, d: 1 << P.get("SCR_FLAG_" + name, d)
    P2SH, STRICTENC, DERSIG, LOW_S, NULLFAIL, WITNESS = bit("P2SH", 0), bit("STRICTENC", 1), bit("DERSIG", 2), bit("LOW_S", 3), bit("NULLFAIL", 14), bit("WITNESS", 11)
    STD = P.get("SCR_STANDARD_SCRIPT_VERIFY_FLAGS", P2SH | STRICTENC | DERSIG | LOW_S | NULLFAIL | WITNESS)
    MAND = P.get("SCR_MANDATORY_SCRIPT_VERIFY_FLAGS", P2SH | DERSIG | WITNESS)
    FL = [0, P2SH, P2SH | DERSIG, P2SH | LOW_S, P2SH | STRICTENC, P2SH | STRICTENC | LOW_S | DERSIG | NULLFAIL, P2SH | WITNESS, P2SH | WITNESS | LOW_S,
          P2SH | WITNESS | STRICTENC | NULLFAIL, MAND, STD]
    CONST, TAPROOT, D_TAPVER, D_OPSUCCESS, D_PUBKEYTYPE = (bit("CONST_SCRIPTCODE", 16), bit("TAPROOT", 17), bit("DISCOURAGE_UPGRADABLE_TAPROOT_VERSION", 18),
                                                          bit("DISCOURAGE_OP_SUCCESS", 19), bit("DISCOURAGE_UPGRADABLE_PUBKEYTYPE", 20))
    DUWP, CLEANSTACK = bit("DISCOURAGE_UPGRADABLE_WITNESS_PROGRAM", 12), bit("CLEANSTACK", 8)
    NBITS = P.get("SCR_FLAG_END_MARKER", 21)
    W = P2SH | WITNESS
    # invariants of every generated flag set (they make the rules below exact): WITNESS => P2SH, CLEANSTACK => P2SH|WITNESS,
    # TAPROOT => WITNESS, DISCOURAGE_UPGRADABLE_WITNESS_PROGRAM only together with TAPROOT
    FL += [CONST, P2SH | CONST, W | CONST, W | TAPROOT, W | TAPROOT | CONST, W | TAPROOT | D_TAPVER, W | TAPROOT | D_OPSUCCESS, W | TAPROOT | D_PUBKEYTYPE,
           W | D_TAPVER | D_OPSUCCESS | D_PUBKEYTYPE, MAND & ~TAPROOT, (STD & ~TAPROOT) & ~DUWP, STD & ~CONST, STD & ~D_OPSUCCESS]
    rules = ["never", str(LOW_S), str(STRICTENC), "always", "always", "always", "never", str(WITNESS),
             str(TAPROOT), str(CONST), "all:%d" % (TAPROOT | D_OPSUCCESS), "all:%d" % (TAPROOT | D_TAPVER), "all:%d" % (TAPROOT | D_PUBKEYTYPE)]
    invalid_under = {1: LOW_S, 2: STRICTENC, 7: WITNESS, 8: TAPROOT, 9: CONST}
    # (transaction, the single bit its verdict depends on, bits that must be present for the bit to matter)
    sensitive = [(1, LOW_S, 0), (2, STRICTENC, 0), (7, WITNESS, P2SH), (8, TAPROOT, W), (9, CONST, 0),
                 (10, D_OPSUCCESS, W | TAPROOT), (11, D_TAPVER, W | TAPROOT), (12, D_PUBKEYTYPE, W | TAPROOT)]

    def close(f):
        if f & TAPROOT: f |= W
        if f & CLEANSTACK: f |= W
        if f & WITNESS: f |= P2SH
        if (f & DUWP) and not (f & TAPROOT): f &= ~DUWP
        return f
    head = lambda n: "hist %d %d %d %s ops" % (n, n, len(rules), " ".join(rules))
    cases = []
    scale = 1 if tier == "quick" else 15

    def op(t, fl, ss, fs, df):
        return "%d %d %d %d %d" % (t, fl, ss, fs, df)
    for _ in range(150 * scale):
        n = rng.choice([2, 2, 8, 4096])
        ops = []
        for _ in range(rng.choice([4, 10, 20, 40])):
            r = rng.random()
            if r < 0.2:
                # (F, F|b) differing in exactly the one bit the transaction is sensitive to: cached under F, then validated under F|b
                t, b, need = rng.choice(sensitive)
                f = close((rng.choice(FL) | need) & ~b)
                if t in (8, 10, 11, 12) and b != TAPROOT: f = close(f | TAPROOT)
                if f & b: f = need
                ops.append(op(t, f, rng.randrange(2), 1, 0))
                ops.append(op(t, f | b, rng.randrange(2), rng.randrange(2), rng.randrange(2)))
            elif r < 0.3:
                # every single flag bit: (F, F|b) on a random transaction
                b = 1 << rng.randrange(NBITS)
                if b != DUWP:
                    f = rng.choice(FL) & ~b
                    f = close(f) & ~b if b not in (P2SH, WITNESS) else f & ~W & ~TAPROOT & ~CLEANSTACK
                    t = rng.randrange(len(rules))
                    ops.append(op(t, f, rng.randrange(2), 1, 0))
                    ops.append(op(t, close(f | b), rng.randrange(2), rng.randrange(2), rng.randrange(2)))
            elif r < 0.4:
                # lenient then strict, same transaction
                t = rng.choice([1, 2, 7, 8, 9, 1, 2, 7, 0, 6])
                m = invalid_under.get(t, LOW_S)
                lenient = rng.choice([f for f in FL if not f & m])
                strict = rng.choice([f for f in FL if f & m])
                ops.append(op(t, lenient, rng.randrange(2), 1, 0))
                ops.append(op(t, strict, rng.randrange(2), rng.randrange(2), rng.randrange(2)))
            elif r < 0.5:
                # an invalid transaction with deferred checks and full-store requested, then inline
                t = rng.choice([3, 4, 5, 1, 7, 8, 9])
                m = invalid_under.get(t, 0)
                fl = rng.choice([f for f in FL if (f & m) or not m])
                ops.append(op(t, fl, rng.randrange(2), 1, 1))
                ops.append(op(t, fl, rng.randrange(2), rng.randrange(2), 0))
            elif r < 0.58:
                # same txid, different witness
                fl = rng.choice([f for f in FL if f & WITNESS])
                ops.append(op(6, fl, 1, 1, 0)); ops.append(op(7, fl, rng.randrange(2), rng.randrange(2), rng.randrange(2)))
            else:
                ops.append(op(rng.randrange(len(rules)), rng.choice(FL), rng.randrange(2), rng.randrange(2), 1 if rng.random() < 0.25 else 0))
        cases.append(head(n) + " " + " ".join(ops))
    return cases


TIES = [Tie("cuckoo_fn", "tie/drivers/valcache_drv.cpp", "Extract_ValCache.v", "valcache_driver.ml", gen_cuckoo,
            predicate="driver", nontrivial=lambda c: " i" in c),
        Tie("valcache_hist", "tie/drivers/valcache_drv.cpp", "Extract_ValCache.v", "valcache_driver.ml", gen_hist,
            predicate="driver", nontrivial=lambda c: True)]

LEVEL_TEXT = ("Coq theorems for every operation sequence, every location function and every epoch state: the cuckoo cache model never answers "
              "`contained` for an element that was not inserted (except the all-zero element a fresh table is filled with) and never indexes "
              "outside its table; for every history of CheckInputScripts calls (any mix of cacheSigStore / cacheFullScriptStore / deferred checks) "
              "on fresh caches, every verdict with the signature cache and the script-execution cache equals the verdict without caches, under "
              "key injectivity (P1), witness hash determines the transaction (P2) and view consistency (P3); P3 and flags-in-key are shown "
              "necessary by concrete refutations. Models tied to the real CuckooCache (answers and full state) and the real CheckInputScripts "
              "(warm vs fresh verdicts on a flag-dependent transaction pool) by differential execution.")
LEVEL_NOTE = ("Partial: the histories are histories of CheckInputScripts calls (the single place both caches are consulted), not of whole "
              "mempool/block validations; concurrency of deferred checks is not modelled (they are run sequentially; the verdict does not "
              "depend on the order by the transparency lemma). One clause of the letter is refuted for model and real code alike: a fresh "
              "CuckooCache answers contains(0) = true (the table is value-initialised) - harmless because keys are salted SHA-256 outputs; the "
              "transparency theorem carries the premise that no key is zero. Trusted: Coq kernel, extraction + OCaml glue, the C++ driver.")
TECHNIQUE = "Coq proof (invariants over operation sequences / histories, interaction trees) + differential correspondence"
