from vlib.runner import Tie
from vlib import core
import itertools

ID = "C15"
LEVEL = "proof"
DESIGN_REF = "DESIGN.md section 5, C15"
PROP_FILES = ["props/Properties_C15.v"]
RULE = ("cases: operation scripts `ops <mem|ldb> <U> <kinds> <db> <op>*` run on a stack of real CCoinsViewCache / "
        "CoinsViewOverlay objects over an in-driver map view (mem) or a real in-memory CCoinsViewDB (ldb). "
        "(0) corpus/C15/seeds.case: minimal scripts for each FRESH/DIRTY case split; "
        "(1) exhaustive: every sequence of length <= 4 over a 13-operation alphabet (thorough: also length 5 over 10 operations) on ONE outpoint, two "
        "caches, database empty or holding the coin (FRESH/DIRTY interactions are per outpoint); (2) targeted scenario "
        "families (re-add after spend, spend of fresh, overwrite of clean, flush child then read parent, uncache dirty, "
        "sync then reuse) with random padding; (3) random well-formed scripts of length 1-40 (and 200) on 4-6 outpoints, 1-3 "
        "caches with push/pop, biased by a python flat-map tracker so that AddCoin(possible_overwrite=false) is only used "
        "on absent coins; (4) a malformed stream (overwrite=false on existing coins, mutation of lower caches) where only "
        "model = implementation is compared. A case is non-trivial when it contains an add or spend; distinct = distinct "
        "case lines.")
ASSUMPTIONS = [
    "well-formed use (premise of the theorems, SMisuse otherwise): AddCoin(possible_overwrite=false) only when the view has no "
    "unspent coin for that outpoint; AddCoin/SpendCoin/Reset only on the top cache of the stack (push/pop model creating "
    "and destroying derived caches)",
    "the bottom view's BatchWrite walks the whole cursor and writes unspent / erases spent dirty entries (CCoinsViewDB does)",
    "the model is a hand transcription of coins.cpp/coins.h; tied by the correspondence (observations, every view after every "
    "operation, final entries with flags and counters)",
    "the flagged-entry linked list is modelled as the set of entries with a flag; block hashes are not modelled; "
    "CoinsViewOverlay only in serial mode (no StartFetching)",
]
TRUSTED = ["Coq 8.16.1 kernel (coqc; no native_compute)",
           "tie/params/coins.h prints the inline script capacity and sample DynamicMemoryUsage values from the compiled tree",
           "extraction: ExtrOcamlBasic only; ocaml/conv.ml + coins_driver.ml glue (parsing, printing)",
           "tie/drivers/coins_drv.cpp builds the stack, calls the real methods and prints observations / PeekCoin views / dumps"]

SLENS = [0, 10, 36, 37, 50, 100]


class Gen:
    """Builds one script while tracking the flat-map specification (views[0] = top ... views[-1] = db)."""

    def __init__(self, rng, U, kinds, db):
        self.rng, self.U = rng, U
        self.views = [dict(db) for _ in range(len(kinds) + 1)]
        self.ops = []
        self.n = 0
        self.recent = []

    def layers(self):
        return len(self.views) - 1

    def coin(self, unsp_ok=True):
        r = self.rng
        self.n += 1
        slen = r.choice(SLENS)
        unsp = 1 if (unsp_ok and slen > 0 and r.random() < 0.03) else 0
        return "%d:%d:%d:%d:%d" % (self.n, r.randrange(0, 3), r.randrange(2), slen, unsp)

    def key(self):
        r = self.rng
        if self.recent and r.random() < 0.6:
            return r.choice(self.recent[-3:])
        return r.randrange(self.U)

    def touch(self, k):
        self.recent.append(k)

    # --- operations (valid = stays inside the property's domain) ---
    def add(self, k=None, ow=None, d=0, force_invalid=False):
        k = self.key() if k is None else k
        c = self.coin()
        present = k in self.views[0]
        if ow is None:
            ow = 1 if present else (0 if self.rng.random() < 0.8 else 1)
            if force_invalid and present:
                ow = 0
        self.ops.append("add %d %d %s %d" % (d, k, c, ow))
        if d == 0 and not c.endswith(":1"):
            self.views[0][k] = c
        self.touch(k)

    def spend(self, k=None, d=0):
        k = self.key() if k is None else k
        self.ops.append("spend %d %d" % (d, k))
        if d == 0:
            self.views[0].pop(k, None)
        self.touch(k)

    def read(self, k=None, d=None, kind=None):
        k = self.key() if k is None else k
        d = self.rng.randrange(self.layers()) if d is None else d
        kind = kind or self.rng.choice(["get", "have", "access", "peek"])
        self.ops.append("%s %d %d" % (kind, d, k))

    def uncache(self, k=None, d=None):
        k = self.key() if k is None else k
        d = self.rng.randrange(self.layers()) if d is None else d
        self.ops.append("uncache %d %d" % (d, k))

    def flush(self, d=None, sync=None):
        d = self.rng.randrange(self.layers()) if d is None else d
        sync = (self.rng.random() < 0.5) if sync is None else sync
        self.ops.append("%s %d" % ("sync" if sync else "flush", d))
        self.views[d + 1] = dict(self.views[d])

    def reset(self):
        self.ops.append("reset 0")
        self.views[0] = dict(self.views[1])

    def push(self, ov=None):
        ov = (self.rng.random() < 0.25) if ov is None else ov
        self.ops.append("push %s" % ("o" if ov else "c"))
        self.views.insert(0, dict(self.views[0]))

    def pop(self):
        if self.layers() >= 2:
            self.ops.append("pop")
            self.views.pop(0)

    def random_op(self, malformed=False):
        r = self.rng
        x = r.random()
        if malformed and x < 0.08:
            # leave the domain: mutate a lower cache, or claim no overwrite on an existing coin
            if self.layers() >= 2 and r.random() < 0.5:
                d = r.randrange(1, self.layers())
                if r.random() < 0.5:
                    self.add(d=d, ow=r.randrange(2))
                else:
                    self.spend(d=d)
            else:
                self.add(force_invalid=True)
            return
        if x < 0.28:
            self.add()
        elif x < 0.48:
            self.spend()
        elif x < 0.63:
            self.read()
        elif x < 0.71:
            self.uncache()
        elif x < 0.86:
            self.flush()
        elif x < 0.89:
            self.reset()
        elif x < 0.95:
            if self.layers() < 3:
                self.push()
            else:
                self.flush(d=0)
        else:
            if self.layers() >= 2:
                if r.random() < 0.6:
                    self.flush(d=0, sync=False)
                self.pop()
            else:
                self.read()


def header(base, U, kinds, db):
    dbs = ",".join("%d=%s" % (k, c) for k, c in sorted(db.items())) or "-"
    return "ops %s %d %s %s" % (base, U, kinds, dbs)


def random_db(rng, U, p=0.4):
    db = {}
    for k in range(U):
        if rng.random() < p:
            db[k] = "%d:%d:%d:%d:0" % (1000 + k, rng.randrange(3), rng.randrange(2), rng.choice(SLENS))
    return db


def random_case(rng, length, malformed=False):
    U = rng.randrange(4, 7)
    nl = rng.randrange(1, 4)
    kinds = "".join(("o" if rng.random() < 0.15 else "c") for _ in range(nl))
    db = random_db(rng, U)
    base = "ldb" if rng.random() < 0.3 else "mem"
    g = Gen(rng, U, kinds, db)
    for _ in range(length):
        g.random_op(malformed)
    # end with reads through every view so that late damage is observed
    if rng.random() < 0.7:
        for d in range(g.layers()):
            g.read(k=rng.randrange(U), d=d, kind=rng.choice(["get", "have", "access"]))
    return header(base, U, kinds, db) + " " + " ".join(g.ops)


def scenario_case(rng):
    """The FRESH/DIRTY interaction patterns of the code's comments and of DESIGN.md Appendix A, with padding."""
    U = 4
    nl = rng.randrange(1, 4)
    kinds = "".join(("o" if rng.random() < 0.1 else "c") for _ in range(nl))
    db = random_db(rng, U, 0.5)
    base = "ldb" if rng.random() < 0.3 else "mem"
    g = Gen(rng, U, kinds, db)
    k = rng.randrange(U)

    def pad(n=2):
        for _ in range(rng.randrange(n + 1)):
            g.random_op()

    s = rng.randrange(9)
    pad()
    if s == 0:      # re-add after spend of a coin the parent has: must not become FRESH
        if k not in g.views[0]:
            g.add(k=k); g.flush(d=0)
        g.spend(k=k); pad(1); g.add(k=k, ow=0); pad(1); g.spend(k=k); g.flush(d=0); g.read(k=k, d=0)
    elif s == 1:    # spend of a fresh coin, accounting
        g.spend(k=k); g.flush(d=0, sync=False); g.add(k=k, ow=0); g.spend(k=k); pad(1); g.flush(d=0)
    elif s == 2:    # overwrite of a clean (fetched) entry must become dirty and reach the parent
        if k not in g.views[0]:
            g.add(k=k); g.flush(d=0, sync=rng.random() < 0.5)
        g.read(k=k, d=0, kind="get"); g.add(k=k, ow=1); g.flush(d=0); g.read(k=k, d=g.layers() - 1)
    elif s == 3:    # flush of child then read through the parent
        if g.layers() < 3:
            g.push()
        g.add(k=k); g.spend(k=(k + 1) % U); g.flush(d=0); g.read(k=k, d=1); g.read(k=(k + 1) % U, d=1); g.flush(d=1)
    elif s == 4:    # uncache of dirty entries must not lose them
        g.add(k=k); g.uncache(k=k, d=0); g.read(k=k, d=0); g.spend(k=k); g.uncache(k=k, d=0); g.read(k=k, d=0)
    elif s == 5:    # sync then reuse: spent entries leave, others become clean
        g.add(k=k); g.spend(k=(k + 1) % U); g.flush(d=0, sync=True); g.spend(k=k); g.add(k=(k + 1) % U, ow=0)
        g.flush(d=0, sync=True); g.uncache(k=k, d=0); g.read(k=k, d=0)
    elif s == 6:    # fresh coin flushed into a parent that holds a spent entry / a fresh entry
        if g.layers() < 3:
            g.push()
        g.spend(k=k); g.flush(d=0); g.add(k=k, ow=0); g.flush(d=0); g.spend(k=k); g.flush(d=0); g.flush(d=1)
    elif s == 7:    # reset discards, parent unaffected
        g.add(k=k); g.spend(k=(k + 1) % U); g.reset(); g.read(k=k, d=0); g.read(k=(k + 1) % U, d=0)
    else:           # sync copying over a longer script in the parent (capacity kept)
        if g.layers() < 3:
            g.push()
        g.ops.append("add 0 %d 7777:1:0:100:0 1" % k); g.views[0][k] = "7777:1:0:100:0"
        g.flush(d=0)
        g.ops.append("add 0 %d 7778:1:0:50:0 1" % k); g.views[0][k] = "7778:1:0:50:0"
        g.flush(d=0, sync=True); g.flush(d=1)
    pad(3)
    for d in range(g.layers()):
        g.read(k=k, d=d, kind=rng.choice(["get", "have", "access"]))
    return header(base, U, kinds, db) + " " + " ".join(g.ops)


ALPHABET = ["add 0 0 1:1:0:10:0 0", "add 0 0 2:2:1:50:0 1", "spend 0 0", "get 0 0", "get 1 0", "uncache 0 0", "uncache 1 0",
            "flush 0", "flush 1", "sync 0", "sync 1", "reset 0", "access 0 0"]


ALPHABET5 = [a for a in ALPHABET if a not in ("access 0 0", "uncache 1 0", "sync 1")]


def exhaustive(thorough):
    out = []
    for db in ("-", "0=9:0:0:40:0"):
        h = "ops mem 1 cc %s " % db
        for n in range(1, 5):
            for seq in itertools.product(ALPHABET, repeat=n):
                out.append(h + " ".join(seq))
        if thorough:
            for seq in itertools.product(ALPHABET5, repeat=5):
                out.append(h + " ".join(seq))
    return out


def gen(rng, tier):
    quick = tier == "quick"
    cases = []
    for _ in range(1500 if quick else 40000):
        cases.append(scenario_case(rng))
    for _ in range(2500 if quick else 60000):
        cases.append(random_case(rng, rng.randrange(1, 41)))
    for _ in range(60 if quick else 2000):
        cases.append(random_case(rng, 200))
    # the exhaustive small-scope family last: its disagreements are the least informative to read
    cases += exhaustive(not quick)
    for _ in range(600 if quick else 15000):
        cases.append(random_case(rng, rng.randrange(1, 41), malformed=True))
    return cases


ARITY = {"add": 5, "spend": 3, "get": 3, "have": 3, "access": 3, "peek": 3, "uncache": 3, "flush": 2, "sync": 2, "reset": 2,
         "push": 2, "pop": 1}


def split_ops(tokens):
    ops, i = [], 0
    while i < len(tokens):
        n = ARITY.get(tokens[i])
        if n is None:
            return None
        ops.append(tokens[i:i + n]); i += n
    return ops


def shrink(case):
    """Candidates: the script with one operation dropped (last first), then with one database entry dropped."""
    w = case.split()
    if len(w) < 5 or w[0] != "ops":
        return
    ops = split_ops(w[5:])
    if ops is None:
        return
    for i in range(len(ops) - 1, -1, -1):
        rest = ops[:i] + ops[i + 1:]
        if rest:
            yield " ".join(w[:5] + [t for o in rest for t in o])
    if w[4] != "-":
        ents = w[4].split(",")
        for i in range(len(ents)):
            r = ents[:i] + ents[i + 1:]
            yield " ".join(w[:4] + [",".join(r) or "-"] + w[5:])
    if w[1] == "ldb":
        yield " ".join(["ops", "mem"] + w[2:])


def classify(c):
    w = c.split(" ", 5)
    return "%s/%d-caches" % (w[1], len(w[3]))


TIES = [Tie("layered_cache_fn", "tie/drivers/coins_drv.cpp", "Extract_Coins.v", "coins_driver.ml", gen,
            predicate="driver", nontrivial=lambda c: (" add " in c or " spend " in c), classify=classify, shrink=shrink)]

LEVEL_TEXT = ("Coq refinement proof: a forward simulation between the layered model (entries with DIRTY/FRESH flags, "
              "AddCoin/SpendCoin/FetchCoin/Uncache/BatchWrite/Flush/Sync/Reset transcribed case by case, throws explicit) and one "
              "flat map per view, by induction over all operation scripts of any length, any number of caches and any "
              "outpoints: every read returns the flat map's answer, Flush/Sync make the parent's view equal the child's and "
              "change no other view, no logic_error is reachable from well-formed use, the FRESH/DIRTY/clean-entry invariant "
              "and the exact dirty-count / memory-usage accounting (SanityCheck) hold in every reachable state. Model tied "
              "to the real classes by differential execution: small-scope exhaustive enumeration plus targeted and random "
              "scripts; the flat-map predicate is evaluated on the implementation's own answers.")
LEVEL_NOTE = ("Trusted: Coq kernel; extraction and the OCaml/C++ driver glue. The model is a hand transcription checked by "
              "correspondence, not by a semantics of C++. Premises: mutations only through the top cache and "
              "possible_overwrite=false only on absent coins (otherwise the real code silently mis-flags FRESH or throws; the "
              "specification says SMisuse). SpendCoin's return value for an absent coin is left unconstrained by the flat map "
              "(the code returns true when a spent DIRTY entry is cached, false otherwise). Parallel prefetching of "
              "CoinsViewOverlay (StartFetching) is C14's subject and is not exercised here.")
TECHNIQUE = "Coq proof (forward simulation / refinement by induction over scripts) + differential correspondence with small-scope exhaustive enumeration"
