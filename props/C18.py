from vlib.runner import Tie
from vlib import core

ID = "C18"
LEVEL = "proof"
DESIGN_REF = "DESIGN.md section 5, C18"
PROP_FILES = ["props/Properties_C18.v"]
RULE = ("cases: amt <n> for n = m*10^e (every trailing-zero count e = 0..19, every last digit 1..9) +/- k (k<=2), MAX_MONEY, the proved "
        "round-trip bound and its successor, 2^63, 2^64-1 and seeded random amounts; damt <x> decodes arbitrary compressed values; "
        "varint/dvarint at every length boundary of the base-128 code for 32 and 64 bit, overflowing and truncated encodings; "
        "script <hex> for the 6 special templates (valid and invalid/off-curve/out-of-range/hybrid pubkeys, every one-byte near miss of a "
        "template, lengths 0..70, the varint boundaries 121/122 and 16505/16506, MAX_SCRIPT_SIZE-1..+1); dscript <prev> <hex> decodes "
        "tags 0..5 with exact, truncated and non-residue payloads and oversize scripts; coin/undo <height> <cb> <value> <script> round "
        "trips through Coin::Serialize and TxInUndoFormatter (heights 0,1,2^31-1,random); dcoin/dundo decode every truncation of valid "
        "records and random bytes. A case is non-trivial when it is not the all-zero coin; distinct = distinct case lines.")
ASSUMPTIONS = ["secp256k1 premise kept in the theorem statements: for a fully valid uncompressed key, CPubKey::Decompress of its "
               "compressed form returns the key (ec_premise); for the executable instance model/CompressEC.v (field arithmetic mod "
               "p = 2^256-2^32-977, compared with libsecp256k1 by the correspondence) this premise is PROVED from two number-theoretic "
               "premises that stay in the statement: `prime secp_p` and Fermat's little theorem for p",
               "the Gallina models are hand transcriptions of compressor.cpp/compressor.h/coins.h/undo.h/serialize.h; tied by the "
               "correspondence on the listed cases and by the generated constants MAX_SCRIPT_SIZE, N_SPECIAL_SCRIPTS, "
               "SPECIAL_SCRIPT_SIZES, opcodes, MAX_MONEY"]
TRUSTED = ["Coq 8.16.1 kernel (coqc; vm_compute used in proofs; no native_compute)",
           "tie/dump_params.cpp + tie/params/ser.h print MAX_SCRIPT_SIZE, nSpecialScripts, GetSpecialScriptSize(0..5), opcodes from the compiled tree",
           "extraction: ExtrOcamlBasic only; ocaml/conv.ml + compress_driver.ml glue (zarith only to parse/print text)",
           "tie/drivers/compress_drv.cpp calls the real functions through DataStream and prints bytes and decoded values"]

P_FIELD = 2**256 - 2**32 - 977
AMOUNT_RT_MAX = 2049638230412172402


def py_varint(n):
    """reference MSB base-128 encoder on unbounded ints (used only to build inputs, incl. overflowing ones)"""
    out = [n & 0x7f]
    while n > 0x7f:
        n = (n >> 7) - 1
        out.append((n & 0x7f) | 0x80)
    return bytes(reversed(out))


def hx(b):
    return b.hex() if len(b) else "-"


def rand_bytes(rng, n):
    return bytes(rng.getrandbits(8) for _ in range(n))


def valid_point(rng):
    while True:
        x = rng.randrange(1, P_FIELD)
        c = (pow(x, 3, P_FIELD) + 7) % P_FIELD
        y = pow(c, (P_FIELD + 1) // 4, P_FIELD)
        if y * y % P_FIELD == c:
            if rng.random() < 0.5:
                y = P_FIELD - y
            return x, y


def nonresidue_x(rng):
    while True:
        x = rng.randrange(1, P_FIELD)
        c = (pow(x, 3, P_FIELD) + 7) % P_FIELD
        y = pow(c, (P_FIELD + 1) // 4, P_FIELD)
        if y * y % P_FIELD != c:
            return x


def b32(v):
    return v.to_bytes(32, "big")


def p2pkh(h):
    return bytes([0x76, 0xa9, 20]) + h + bytes([0x88, 0xac])


def p2sh(h):
    return bytes([0xa9, 20]) + h + bytes([0x87])


def p2pk(pk):
    return bytes([len(pk)]) + pk + bytes([0xac])


def script_pool(rng, tier, P):
    """scripts aimed at every branch of CompressScript and ScriptCompression::Ser/Unser"""
    big = tier != "quick"
    S = []
    MAXS = P["MAX_SCRIPT_SIZE"]
    # templates
    for _ in range(6 if not big else 60):
        S.append(p2pkh(rand_bytes(rng, 20)))
        S.append(p2sh(rand_bytes(rng, 20)))
    S.append(p2pkh(bytes(20))); S.append(p2pkh(b"\xff" * 20)); S.append(p2sh(bytes(20))); S.append(p2sh(b"\xff" * 20))
    # one-byte near misses of each template position, and length near misses
    for tmpl in (p2pkh(rand_bytes(rng, 20)), p2sh(rand_bytes(rng, 20))):
        fixed = [0, 1, 2, len(tmpl) - 2, len(tmpl) - 1] if len(tmpl) == 25 else [0, 1, len(tmpl) - 1]
        for i in fixed:
            for delta in (1, 255, 0x80):
                m = bytearray(tmpl); m[i] = (m[i] + delta) & 255; S.append(bytes(m))
        S.append(tmpl[:-1]); S.append(tmpl + b"\x00"); S.append(tmpl[1:]); S.append(b"\x00" + tmpl)
    # pay to pubkey, compressed: prefix 2/3 compressible without validation; others not
    for pre in (2, 3):
        for _ in range(4 if not big else 40):
            S.append(p2pk(bytes([pre]) + rand_bytes(rng, 32)))
        S.append(p2pk(bytes([pre]) + b32(P_FIELD)))        # x >= p still compressed (not validated)
        S.append(p2pk(bytes([pre]) + bytes(32)))
    for pre in (0, 1, 4, 5, 6, 7, 0x82, 0xff):
        S.append(p2pk(bytes([pre]) + rand_bytes(rng, 32)))
    t = p2pk(bytes([2]) + rand_bytes(rng, 32))
    for i in (0, 34):
        for delta in (1, 255):
            m = bytearray(t); m[i] = (m[i] + delta) & 255; S.append(bytes(m))
    S.append(t[:-1]); S.append(t + b"\xac")
    # uncompressed: valid points (both parities), invalid ones
    nvalid = 6 if not big else 80
    for _ in range(nvalid):
        x, y = valid_point(rng)
        S.append(p2pk(b"\x04" + b32(x) + b32(y)))
    x, y = valid_point(rng)
    good = p2pk(b"\x04" + b32(x) + b32(y))
    S.append(p2pk(b"\x04" + b32(x) + b32((y + 1) % P_FIELD)))      # off curve
    S.append(p2pk(b"\x04" + b32(x) + b32(P_FIELD - y)))            # the other root: valid, other parity
    S.append(p2pk(b"\x04" + b32(x + 1) + b32(y)))                  # off curve
    S.append(p2pk(b"\x04" + b32(nonresidue_x(rng)) + b32(y)))
    S.append(p2pk(b"\x04" + b32(P_FIELD) + b32(y)))                # x = p (out of range)
    S.append(p2pk(b"\x04" + b32(x) + b32(2**256 - 1)))             # y out of range
    S.append(p2pk(b"\x04" + b32(x) + b32(P_FIELD)))
    S.append(p2pk(b"\x04" + bytes(64)))
    S.append(p2pk(b"\x04" + b"\xff" * 64))
    for pre in (6, 7, 5, 2, 3, 0):                                  # hybrid / wrong prefix with a valid point
        S.append(p2pk(bytes([pre]) + b32(x) + b32(y)))
    for i in (0, 66):
        for delta in (1, 255):
            m = bytearray(good); m[i] = (m[i] + delta) & 255; S.append(bytes(m))
    S.append(good[:-1]); S.append(good + b"\xac")
    # lengths 0..70 random content, and contents made of template bytes
    for n in range(0, 71):
        S.append(rand_bytes(rng, n))
    for n in (23, 25, 35, 67):
        S.append(bytes(n)); S.append(b"\xac" * n)
    # varint length boundaries of size+6, and the MAX_SCRIPT_SIZE boundary
    for n in (120, 121, 122, 123, 16504, 16505, 16506, 16507, MAXS - 1, MAXS, MAXS + 1, MAXS + 2):
        S.append(rand_bytes(rng, n))
    if big:
        for n in (20000, 65530):      # (the 3->4 byte varint boundary 2113664 is exercised by the varint cases: scripts that long overflow the list-based model's stack)
            S.append(rand_bytes(rng, n))
    return S


def amounts(rng, tier, P):
    big = tier != "quick"
    A = {0, 1, 2, 9, 10, 11, 99, 100, 101, P["MAX_MONEY"] - 1, P["MAX_MONEY"], P["MAX_MONEY"] + 1, P["COIN"], 50 * P["COIN"],
         AMOUNT_RT_MAX - 1, AMOUNT_RT_MAX, AMOUNT_RT_MAX + 1, AMOUNT_RT_MAX + 8, AMOUNT_RT_MAX + 9, 2**63 - 1, 2**63, 2**64 - 1, 2**64 - 10,
         10**19, 10**18, 10**9, 10**9 - 1, 10**9 + 1, 10**10}
    for e in range(0, 20):
        for d in range(1, 10):
            for m in (d, 10 + d, 100 * rng.randrange(1, 10**6) + d, 10 * rng.randrange(0, 10**9) + d):
                n = m * 10**e
                for k in (-2, -1, 0, 1, 2):
                    if 0 <= n + k < 2**64:
                        A.add(n + k)
    for _ in range(400 if not big else 40000):
        r = rng.random()
        if r < 0.5:
            A.add(rng.randrange(0, P["MAX_MONEY"] + 1))
        elif r < 0.7:
            A.add(rng.randrange(0, 10**rng.randrange(1, 20)) * 10**rng.randrange(0, 12) % 2**64)
        elif r < 0.85:
            A.add(rng.getrandbits(63))
        else:
            A.add(rng.getrandbits(64))
    return sorted(A)


def gen(rng, tier):
    P = core.parse_params()
    big = tier != "quick"
    cases = []
    for n in range(0, 8):
        cases.append("special %d" % n)
    cases.append("special 4294967295")
    # ---- amounts
    am = amounts(rng, tier, P)
    for n in am:
        cases.append("amt %d" % n)
    X = set(range(0, 200)) | {2**64 - 1, 2**64 - 2, 2**63, 10**19, 9 * P["MAX_MONEY"], 18446744073709551610}
    for _ in range(300 if not big else 30000):
        r = rng.random()
        X.add(rng.getrandbits(64) if r < 0.3 else rng.randrange(0, 10 * P["MAX_MONEY"]) if r < 0.8 else rng.randrange(0, 10**rng.randrange(1, 20)))
    for x in sorted(X):
        cases.append("damt %d" % x)
    # ---- varint
    bounds = []
    s = 0
    for k in range(1, 11):
        s += 128**k
        bounds += [s - 1, s, s + 1]          # first value needing k+1 bytes is s
    vals = {0, 1, 126, 127, 128, 129, 255, 256, 16383, 16384, 2**31 - 1, 2**31, 2**32 - 2, 2**32 - 1, 2**32, 2**32 + 1,
            2**63 - 1, 2**63, 2**64 - 2, 2**64 - 1} | set(bounds)
    for _ in range(100 if not big else 5000):
        vals.add(rng.getrandbits(rng.randrange(1, 65)))
    for v in sorted(vals):
        if v < 2**32:
            cases.append("varint 32 %d" % v)
        if v < 2**64:
            cases.append("varint 64 %d" % v)
    over = [2**32, 2**32 + 1, 2**32 + 127, 2**32 + 128, 2**33, 2**35 - 1, 2**35, 2**40, 2**64, 2**64 + 1, 2**64 + 127, 2**64 + 128,
            2**65, 2**70, 2**71, 2**77]
    for v in sorted(vals | set(over)):
        e = py_varint(v)
        for w in (32, 64):
            cases.append("dvarint %d %s" % (w, hx(e + b"\x2a")))
            if v in bounds or v in over:
                for cut in range(0, len(e)):
                    cases.append("dvarint %d %s" % (w, hx(e[:cut])))
    for w in (32, 64):
        for n in range(1, 13):
            cases.append("dvarint %d %s" % (w, hx(b"\xff" * n)))
            cases.append("dvarint %d %s" % (w, hx(b"\xff" * n + b"\x7f")))
            cases.append("dvarint %d %s" % (w, hx(b"\x80" * n + b"\x00")))
        for _ in range(100 if not big else 5000):
            cases.append("dvarint %d %s" % (w, hx(rand_bytes(rng, rng.randrange(0, 12)))))
    # ---- scripts
    S = script_pool(rng, tier, P)
    for s_ in S:
        cases.append("script %s" % hx(s_))
    # decoder on arbitrary compressed scripts
    prevs = [b"", b"\x51", rand_bytes(rng, 5)]
    D = []
    for tag in range(0, 6):
        size = 20 if tag < 2 else 32
        for _ in range(3):
            D.append(bytes([tag]) + rand_bytes(rng, size) + rand_bytes(rng, rng.randrange(0, 3)))
        body = bytes([tag]) + rand_bytes(rng, size)
        for cut in range(0, len(body)):
            D.append(body[:cut])
    nres = 3 if not big else 40
    for tag in (4, 5):
        for _ in range(nres):
            x, y = valid_point(rng)
            D.append(bytes([tag]) + b32(x))
            D.append(bytes([tag]) + b32(nonresidue_x(rng)))
        D.append(bytes([tag]) + b32(P_FIELD)); D.append(bytes([tag]) + b32(P_FIELD - 1)); D.append(bytes([tag]) + b32(0))
        D.append(bytes([tag]) + b32(2**256 - 1)); D.append(bytes([tag]) + b32(P_FIELD + 1))
    MAXS = P["MAX_SCRIPT_SIZE"]
    for n in (0, 1, 2, 120, 121, 122, 16505, 16506, MAXS - 1, MAXS, MAXS + 1):
        body = py_varint(n + 6) + rand_bytes(rng, n)
        D.append(body); D.append(body + b"\x00")
        if n:
            D.append(body[:-1])
    for n in (MAXS + 1, MAXS + 2, 2**32 - 7, 2**32 - 6, 2**32 - 5, 2**32, 2**31, 2**40):   # declared sizes with too little data
        D.append(py_varint(n + 6) + rand_bytes(rng, 10))
        D.append(py_varint(n + 6))
    for _ in range(60 if not big else 3000):
        D.append(rand_bytes(rng, rng.randrange(0, 40)))
    for k, d in enumerate(D):
        # the previous value of the CScript only matters on the two paths that keep it: a failed
        # pubkey decompression (tags 4/5) and the oversize replacement
        keeps_prev = (len(d) == 33 and d[0] in (4, 5) and k % 2 == 1) or (len(d) > 3 and d[0] > 0x80)
        for pv in (prevs if keeps_prev else prevs[:1]):
            cases.append("dscript %s %s" % (hx(pv), hx(d)))
    # ---- coins and undo records
    heights = [0, 1, 2, 63, 64, 8191, 8192, 1048575, 1048576, 2**30, 2**31 - 2, 2**31 - 1]
    for _ in range(10 if not big else 200):
        heights.append(rng.randrange(0, 2**31))
    values = [0, 1, 50 * P["COIN"], P["MAX_MONEY"], P["MAX_MONEY"] - 1, 546, 10**9, AMOUNT_RT_MAX, 2**63 - 1, -2, -2**63]
    small_scripts = [s_ for s_ in S if len(s_) <= 80]
    coins = []
    for h in heights:
        for cb in (0, 1):
            v = rng.choice(values) if rng.random() < 0.5 else rng.choice(am)
            if v >= 2**63:
                v -= 2**64
            if v == -1:
                v = 0
            coins.append((h, cb, v, rng.choice(small_scripts)))
    for s_ in S:
        if len(s_) > 20000 and not big:
            continue
        v = rng.choice(am[: len(am) // 2])
        coins.append((rng.choice(heights), rng.randrange(2), v, s_))
    for v in values:
        coins.append((rng.choice(heights), rng.randrange(2), v, rng.choice(small_scripts)))
    coins.append((0, 0, 0, b""))
    for (h, cb, v, s_) in coins:
        cases.append("coin %d %d %d %s" % (h, cb, v, hx(s_)))
        cases.append("undo %d %d %d %s" % (h, cb, v, hx(s_)))
    # decoder on truncations of valid records and on random bytes
    recs = []
    for (h, cb, v, s_) in coins[:: max(1, len(coins) // (12 if not big else 120))]:
        if len(s_) > 80 or v < 0:
            continue
        code = py_varint(h * 2 + cb)
        # independent python encoder for the raw-script form (special forms are exercised through `coin`)
        n = v
        if n == 0:
            ca = 0
        else:
            e = 0
            while n % 10 == 0 and e < 9:
                n //= 10; e += 1
            ca = 1 + (n // 10 * 9 + n % 10 - 1) * 10 + e if e < 9 else 1 + (n - 1) * 10 + 9
        if ca >= 2**64:
            continue
        body = py_varint(ca) + py_varint(len(s_) + 6) + s_
        recs.append((code + body, code + (b"\x00" if h > 0 else b"") + body))
    for (c_, u_) in recs:
        for cut in range(0, len(c_) + 1):
            cases.append("dcoin %s" % hx(c_[:cut]))
        for cut in range(0, len(u_) + 1):
            cases.append("dundo %s" % hx(u_[:cut]))
        cases.append("dcoin %s" % hx(c_ + b"\x99"))
        cases.append("dundo %s" % hx(u_ + b"\x99"))
    for _ in range(100 if not big else 5000):
        b = rand_bytes(rng, rng.randrange(0, 60))
        cases.append("dcoin %s" % hx(b))
        cases.append("dundo %s" % hx(b))
    # undo records with a non-zero / multi-byte dummy version varint (old format)
    for ver in (1, 2, 127, 128, 16511, 16512, 2**32 - 1, 2**32):
        cases.append("dundo %s" % hx(py_varint(2 * 100 + 1) + py_varint(ver) + py_varint(0) + py_varint(6)))
        cases.append("dundo %s" % hx(py_varint(0) + py_varint(ver) + py_varint(0) + py_varint(6)))
    seen = set()
    out = []
    for c in cases:
        if c not in seen:
            seen.add(c); out.append(c)
    return out


def classify(c):
    w = c.split(" ")
    if w[0] == "script":
        n = 0 if w[1] == "-" else len(w[1]) // 2
        return "script:" + ("special-size" if n in (23, 25, 35, 67) else "raw")
    if w[0] == "dscript":
        return "dscript:tag" + (w[2][:2] if w[2] != "-" and int(w[2][:2], 16) < 6 else "raw")
    return w[0]


TIES = [Tie("coin_encoding", "tie/drivers/compress_drv.cpp", "Extract_Compress.v", "compress_driver.ml", gen,
            predicate="driver", classify=classify,
            nontrivial=lambda c: c not in ("coin 0 0 0 -", "undo 0 0 0 -", "amt 0", "damt 0"))]

LEVEL_TEXT = ("Coq theorems for ALL inputs about Gallina transcriptions of CompressAmount/DecompressAmount (explicit uint64 wrap), "
              "CompressScript/DecompressScript/ScriptCompression, Coin::Serialize/Unserialize, TxInUndoFormatter and VARINT: every amount "
              "in [0, 2049638230412172402] (which contains [0, MAX_MONEY], MAX_MONEY generated) is recovered exactly, and more generally "
              "every uint64 amount whose compressed value does not wrap; the bound is sharp (the next amount fails); every script up to "
              "MAX_SCRIPT_SIZE, every coin and undo record (height < 2^31, both flags) is read back unchanged with the stream position "
              "exactly after the record; VARINT is total, round-trips, is canonical (decoded bytes = the unique encoding) and never returns a "
              "wrapped value. Models tied to the real code by differential execution (bytes and decoded values) and generated constants.")
LEVEL_NOTE = ("The uncompressed-pubkey case (tags 4/5) is proved under the stated secp256k1 premise (decompress after compress is the "
              "identity on fully valid keys); for the executable field-arithmetic instance that premise is itself a theorem "
              "(C18_secp_instance_satisfies_premise) under `prime p` and Fermat's little theorem for p, and the instance is checked "
              "against libsecp256k1 by correspondence. Scripts are byte lists (bytes_ok) in the script/coin theorems. The statement's range [0, 21M BTC] is covered with room: amounts above 2049638230412172402 (about 2.05e18 satoshi, "
              "below INT64_MAX) do NOT round trip because CompressAmount's uint64 arithmetic wraps; those are outside MoneyRange. "
              "Trusted: Coq kernel; dump_params; extraction (ExtrOcamlBasic) and the OCaml/C++ driver glue.")
TECHNIQUE = "Coq proof (induction, lia, case analysis on the script templates) + differential correspondence"
