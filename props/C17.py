from vlib.runner import Tie
from vlib import core

ID = "C17"
LEVEL = "proof"
DESIGN_REF = "DESIGN.md section 5, C17"
PROP_FILES = ["props/Properties_C17.v"]
RULE = ("cases: obf <key8> <key_offset> <misalign> <data>: the real Obfuscation::operator() on a buffer placed at each of the 8 addresses "
        "modulo 8, data lengths 0..80, 127..129, 1000, key offsets 0..9 and large, zero key, keys with a zero low byte, random. "
        "A case is non-trivial when the data is not empty; distinct = distinct case lines.")
ASSUMPTIONS = ["little-endian host (as on every supported platform): ToKey/XorWord memcpy a uint64 in memory order",
               "the Gallina model of Obfuscation::operator() is a hand transcription; tied by the correspondence on the listed cases"]
TRUSTED = ["Coq 8.16.1 kernel (coqc; vm_compute used in the non-vacuity example only)",
           "extraction: ExtrOcamlBasic only; ocaml/conv.ml + serstore_driver.ml glue",
           "tie/drivers/serstore_drv.cpp places the buffer at the requested address modulo 8 and calls the real operator()"]


def hx(b):
    return bytes(b).hex() if len(b) else "-"


def gen(rng, tier):
    big = tier != "quick"
    C = []
    keys = [bytes(8), bytes([1, 2, 3, 4, 5, 6, 7, 8]), b"\xff" * 8, bytes([0, 0, 0, 0, 0, 0, 0, 1]), bytes([0, 9, 9, 9, 9, 9, 9, 9]),
            bytes([1, 0, 0, 0, 0, 0, 0, 0])]
    for _ in range(3 if not big else 30):
        keys.append(bytes(rng.getrandbits(8) for _ in range(8)))
    lens = list(range(0, 20)) + [23, 24, 25, 63, 64, 65, 71, 72, 73, 79, 80, 127, 128, 129, 135, 136, 137]
    if big:
        lens += [1000, 4096, 65536 + 3]
    for key in keys:
        for n in lens:
            data = bytes(rng.getrandbits(8) for _ in range(n))
            for mis in range(8):
                off = rng.choice([0, 1, 2, 3, 4, 5, 6, 7, 8, 9, 15, 16, 17, 2**20 + 5, 2**32 + 3, 2**40 + 7])
                if (mis == 0 or n > 8) or rng.random() < 0.3:
                    C.append("obf %s %d %d %s" % (hx(key), off, mis, hx(data)))
    for off in range(0, 17):
        C.append("obf %s %d %d %s" % (hx(keys[1]), off, off % 8, hx(bytes(range(40)))))
    seen = set(); out = []
    for c in C:
        if c not in seen:
            seen.add(c); out.append(c)
    return out


TIES = [Tie("obfuscation", "tie/drivers/serstore_drv.cpp", "Extract_SerStore.v", "serstore_driver.ml", gen,
            predicate="driver", nontrivial=lambda c: not c.endswith(" -"))]

LEVEL_TEXT = ("PARTIAL. Coq theorems for ALL keys, offsets, buffer addresses and data about a word-level Gallina transcription of "
              "Obfuscation::operator() (alignment prologue, 64-byte and 8-byte chunk loops, tail): the result is data XOR key stream "
              "(address independent), applying it twice restores the data, and piecewise application with advancing offsets equals "
              "one application. Tied to the real class by differential execution at all 8 alignments.")
LEVEL_NOTE = ("Only the obfuscation clause of C17 is covered. NOT covered: record framing (magic/size/MAX_SIZE) of WriteBlock/ReadRawBlock, "
              "header hash comparison in ReadBlock, undo checksum in ReadBlockUndo, FlatFileSeq allocation and file switching, pruning. "
              "Code-reading notes for the missing part: ReadBlockUndo never looks at the undo record's magic/size header; ReadRawBlock "
              "accepts a size field corrupted to a LARGER value (<= MAX_SIZE) and then returns bytes beyond the record (ReadBlock still "
              "parses the right block from the prefix) - block records carry no checksum. Trusted: Coq kernel; extraction and driver glue.")
TECHNIQUE = "Coq proof (bitwise XOR over little-endian words, rotation = byte rotation, induction over the chunk loops) + differential correspondence"
