from vlib.runner import Tie
from vlib import core
import os, subprocess

ID = "C17"
LEVEL = "proof"
DESIGN_REF = "DESIGN.md section 5, C17"
PROP_FILES = ["props/Properties_C17.v"]
RULE = ("cases: rec <height> <stored bytes> <tail> <offset> <mask>: a second block store with 64 KiB files is filled with the 361 blocks of a "
        "deterministic regtest chain through the real WriteBlock (two files); the generator reads the stored plaintext of chosen records "
        "with plain file reads, then every case flips one byte on disk (every bit of the magic, every size-field bit whose outcome is "
        "determined, header bytes, a stride through the transactions, bytes after the record) or none, and calls ReadRawBlock and "
        "ReadBlock(expected hash); undo <height> <size> <offset> <mask>: same on the chain's undo records (header, payload, checksum, "
        "bytes after) with ReadBlockUndo; obf <key8> <key_offset> <misalign> <data>: the real Obfuscation::operator() on a buffer placed at each of the 8 addresses "
        "modulo 8, data lengths 0..80, 127..129, 1000, key offsets 0..9 and large, zero key, keys with a zero low byte, random. "
        "A case is non-trivial when the data is not empty; distinct = distinct case lines.")
ASSUMPTIONS = ["little-endian host (as on every supported platform): ToKey/XorWord memcpy a uint64 in memory order",
               "the Gallina model of Obfuscation::operator() is a hand transcription; tied by the correspondence on the listed cases"]
TRUSTED = ["Coq 8.16.1 kernel (coqc; vm_compute used in the non-vacuity example only)",
           "extraction: ExtrOcamlBasic only; ocaml/conv.ml + serstore_driver.ml glue",
           "tie/drivers/serstore_drv.cpp places the buffer at the requested address modulo 8 and calls the real operator()"]


def hx(b):
    return bytes(b).hex() if len(b) else "-"


def gen(rng, tier):
    big = tier != "quick"
    C = []
    keys = [bytes(8), bytes([1, 2, 3, 4, 5, 6, 7, 8]), b"\xff" * 8, bytes([0, 0, 0, 0, 0, 0, 0, 1]), bytes([0, 9, 9, 9, 9, 9, 9, 9]),
            bytes([1, 0, 0, 0, 0, 0, 0, 0])]
    for _ in range(3 if not big else 30):
        keys.append(bytes(rng.getrandbits(8) for _ in range(8)))
    lens = list(range(0, 20)) + [23, 24, 25, 63, 64, 65, 71, 72, 73, 79, 80, 127, 128, 129, 135, 136, 137]
    if big:
        lens += [1000, 4096, 65536 + 3]
    for key in keys:
        for n in lens:
            data = bytes(rng.getrandbits(8) for _ in range(n))
            for mis in range(8):
                off = rng.choice([0, 1, 2, 3, 4, 5, 6, 7, 8, 9, 15, 16, 17, 2**20 + 5, 2**32 + 3, 2**40 + 7])
                if (mis == 0 or n > 8) or rng.random() < 0.3:
                    C.append("obf %s %d %d %s" % (hx(key), off, mis, hx(data)))
    for off in range(0, 17):
        C.append("obf %s %d %d %s" % (hx(keys[1]), off, off % 8, hx(bytes(range(40)))))
    seen = set(); out = []
    for c in C:
        if c not in seen:
            seen.add(c); out.append(c)
    return out


def dump_records(heights):
    """The generator looks at the deterministic regtest block files through the driver's `dumprec`
    command (plain file reads + the XOR key, no BlockManager read path): the stored bytes become
    part of each case, so the model predicts every read from the case line alone."""
    exe = os.path.join(core.BUILD, "drv", "serstore_drv")
    p = subprocess.run([exe], input="".join("dumprec %d\n" % h for h in heights), capture_output=True, text=True, timeout=600)
    out = {}
    for h, line in zip(heights, p.stdout.split("\n")):
        parts = line.split(" | ")
        w = parts[0].split()
        if len(w) != 5:
            continue
        rec = dict(file=int(w[0]), pos=int(w[1]), size=int(w[2]), fsize=int(w[3]), slice=w[4])
        if len(parts) > 1:
            u = parts[1].split()
            rec.update(ufile=int(u[0]), upos=int(u[1]), usize=int(u[2]), uslice=u[3])
        out[h] = rec
    return out


def gen_records(rng, tier):
    big = tier != "quick"
    heights = [0, 1, 2, 100, 101, 150, 200, 230, 249, 250, 251, 300, 358, 359]   # not the tip: the bytes after it are preallocated space XOR a random key
    for _ in range(4 if not big else 60):
        heights.append(rng.randrange(1, 360))
    heights = sorted(set(heights))
    D = dump_records(heights)
    if not D:
        raise core.InfraError("serstore_drv dumprec produced nothing")
    C = []
    for h in heights:
        r = D.get(h)
        if r is None:
            continue
        size = r["size"]; sl = r["slice"]; avail = len(sl) // 2 - 8     # bytes known after the 8-byte header
        def rec(rel, mask):
            C.append("rec %d %s %d %d %d" % (h, sl, avail - size, rel, mask))
        rec(0, 0)
        # magic: every bit of every byte
        for rel in range(0, 4):
            for bit in range(8):
                if h in (1, 250) or rng.random() < 0.15:
                    rec(rel, 1 << bit)
        # size field: flips that shrink it, that grow it within the known tail, and that push it over MAX_SIZE
        cur = [int(sl[2 * (4 + i): 2 * (4 + i) + 2], 16) for i in range(4)]
        for rel in range(4, 8):
            for bit in range(8):
                newb = cur[rel - 4] ^ (1 << bit)
                nsz = size - (cur[rel - 4] << (8 * (rel - 4))) + (newb << (8 * (rel - 4)))
                if nsz <= avail or nsz > 33554432:
                    rec(rel, 1 << bit)
        # header bytes (80) and a stride through the transactions
        for rel in range(8, 88):
            if h in (1, 250) or rng.random() < 0.1:
                rec(rel, 1 << rng.randrange(8))
        for rel in range(88, 8 + size, 1 if (h in (1, 250) or big) else 9):
            rec(rel, rng.choice([1, 2, 4, 8, 16, 32, 64, 128, 255]))
        # bytes after the record (next record / preallocated space) do not matter
        for rel in range(8 + size, 8 + min(avail, size + 8)):
            rec(rel, 255)
        if "usize" in r:
            us = r["usize"]
            C.append("undo %d %d 0 0" % (h, us))
            for rel in range(0, 8 + us + 32 + 4):
                if h in (1, 250) or rel < 8 or rel >= 8 + us or rng.random() < 0.2:
                    C.append("undo %d %d %d %d" % (h, us, rel, 1 << rng.randrange(8)))
    seen = set(); out = []
    for c in C:
        if c not in seen:
            seen.add(c); out.append(c)
    return out


def classify(c):
    w = c.split(" ")
    if w[0] == "rec":
        rel, mask = int(w[4]), int(w[5])
        return "rec:" + ("intact" if mask == 0 else "magic" if rel < 4 else "size" if rel < 8 else "header" if rel < 88 else "payload")
    return w[0]


TIES = [Tie("block_records", "tie/drivers/serstore_drv.cpp", "Extract_SerStore.v", "serstore_driver.ml", gen_records,
            predicate="driver", classify=classify, nontrivial=lambda c: not c.endswith(" 0 0")),
        Tie("obfuscation", "tie/drivers/serstore_drv.cpp", "Extract_SerStore.v", "serstore_driver.ml", gen,
            predicate="driver", nontrivial=lambda c: not c.endswith(" -"))]

LEVEL_TEXT = ("PARTIAL. Coq theorems for ALL inputs about Gallina transcriptions of (1) Obfuscation::operator() at the word level "
              "(alignment prologue, 64-byte and 8-byte chunk loops, tail): the result is data XOR key stream (address independent), "
              "applying it twice restores the data, piecewise application with advancing offsets equals one application; (2) the block "
              "record layer: ReadRawBlock at the position WriteBlock returned gives back exactly the written bytes wherever the record "
              "sits in the file, and anything ReadRawBlock returns is a well-framed record (magic, size <= MAX_SIZE, all bytes present), "
              "so corrupted magic / oversize / truncated records are read failures; ReadBlock additionally requires the payload to "
              "deserialise (block model of C48) and the header to pass the hash tests (parameter). Tied to the real BlockManager by "
              "single-byte corruptions of real block and undo files, and to the real Obfuscation at all 8 alignments.")
LEVEL_NOTE = ("NOT proved: the clauses that need SHA256d/merkle models - a changed header no longer hashes to the indexed block, a changed "
              "undo payload fails its checksum, a changed transaction is never connected (these are exercised on the real code by the "
              "corruption cases and judged by the property predicate, and the model records what the readers look at) - and FlatFileSeq "
              "allocation / file switching / pruning (positions are taken from the real WriteBlock). Observations confirmed by the "
              "correspondence: ReadBlockUndo never looks at the undo record's magic/size header (a corrupted undo header is not noticed, "
              "harmlessly); ReadRawBlock accepts a size field corrupted to a LARGER value (<= MAX_SIZE, data present) and returns the bytes "
              "beyond the record as part of the block (ReadBlock still parses the right block from the prefix) - block records carry no "
              "checksum, so this corruption is not reported. Trusted: Coq kernel; extraction and driver glue; the driver's own plain "
              "file reads used to show the stored bytes to the generator.")
TECHNIQUE = "Coq proof (bitwise XOR over little-endian words, rotation = byte rotation, induction over the chunk loops) + differential correspondence"
