from vlib.runner import Tie
from vlib import core
import hashlib, math, re

ID = "C51"
LEVEL = "proof"
DESIGN_REF = "DESIGN.md section 5, C51"
PROP_FILES = ["props/Properties_C51.v"]
RULE = ("cases: pmt <matches> <txids>: CPartialMerkleTree build + serialize + ExtractMatches for every size 1..20 with all / none / each "
        "single / random match vectors, sizes to 300 with random vectors, lists with duplicated txids; pmtx <bytes>: extraction from "
        "valid serializations and their corruptions (dropped / extra hash, every flipped flag bit, extra flag byte, padding bits, wrong "
        "transaction count, 0 and limit+1 transactions, identical left/right subtrees); bloom / bloomraw: CBloomFilter constructor "
        "parameter extremes (1 element, 36000-byte cap, 50-hash cap, tiny fp rates) and deserialized filters (empty, 1 byte, many hashes) "
        "with insert/contains sequences; rolling: CRollingBloomFilter over several generation wraps with queries for recent and old keys; "
        "bitstream: BitStreamWriter/Reader with widths 0..64; golomb: values k*2^P-1, k*2^P, k*2^P+1 for quotients around 0,1,63,64,65,"
        "127,128,129 and 64-bit extremes; gcs: GCSFilter build/Match/MatchAny for sets of 0..1000 elements (thorough 10000; above 400 elements every (N/200)-th element is queried), BIP158 "
        "parameters and small/large P and M including forced hash collisions. Non-trivial = at least two elements/ops; distinct = distinct lines.")
ASSUMPTIONS = ["MurmurHash3, SipHash-2-4 and SHA256d are arbitrary functions for the theorems (Section variables); the no-false-negative "
               "theorems need no property of them; the partial-merkle-tree round trip needs the inner-node hash to be injective and the txids distinct",
               "CBloomFilter / CRollingBloomFilter constructors compute sizes in floating point: the models start from the constructed "
               "integer fields; the generator's expectation of those fields is compared with the real constructor on every case",
               "the models are hand transcriptions; tied by the correspondence on the listed cases"]
TRUSTED = ["Coq 8.16.1 kernel (coqc)",
           "extraction: ExtrOcamlBasic only; ocaml/conv.ml, merkle_sha256.ml, filter_hashes.ml (OCaml SHA-256, MurmurHash3, SipHash-2-4) and filter_driver.ml glue "
           "(incl. the CPartialMerkleTree wire format)",
           "tie/drivers/filter_drv.cpp calls the real classes (private fields of the bloom filters are read, and CRollingBloomFilter::nTweak is set, through '#define private public'); "
           "GCS cases run under a watchdog thread (40 s) and a 4 GB address-space limit so that a non-terminating implementation shows up as a failing case"]


def sha256d(b):
    return hashlib.sha256(hashlib.sha256(b).digest()).digest()


def cs(n):
    if n < 253: return bytes([n])
    if n <= 0xffff: return b"\xfd" + n.to_bytes(2, "little")
    return b"\xfe" + n.to_bytes(4, "little")


# ------------------------------------------------------------------ partial merkle tree (generator-side reference)
def width(n, h): return (n + (1 << h) - 1) >> h


def pmt_build(txids, matches):
    n = len(txids)
    height = 0
    while width(n, height) > 1: height += 1
    bits, hashes = [], []

    def calc(h, pos):
        if h == 0: return txids[pos]
        l = calc(h - 1, pos * 2)
        r = calc(h - 1, pos * 2 + 1) if pos * 2 + 1 < width(n, h - 1) else l
        return sha256d(l + r)

    def trav(h, pos):
        f = any(matches[p] for p in range(pos << h, min((pos + 1) << h, n)))
        bits.append(f)
        if h == 0 or not f:
            hashes.append(calc(h, pos))
        else:
            trav(h - 1, pos * 2)
            if pos * 2 + 1 < width(n, h - 1): trav(h - 1, pos * 2 + 1)
    trav(height, 0)
    return n, bits, hashes


def pmt_ser(n, bits, hashes):
    by = bytearray((len(bits) + 7) // 8)
    for p, b in enumerate(bits):
        if b: by[p // 8] |= 1 << (p % 8)
    return (n & 0xffffffff).to_bytes(4, "little") + cs(len(hashes)) + b"".join(hashes) + cs(len(by)) + bytes(by)


def gen_pmt(rng, tier):
    cases = []
    quick = tier == "quick"
    for n in range(1, 21):
        txids = [rng.randbytes(32) for _ in range(n)]
        t = " ".join(x.hex() for x in txids)
        vecs = {"1" * n, "0" * n}
        for i in range(n): vecs.add("0" * i + "1" + "0" * (n - 1 - i))
        for _ in range(6 if quick else 40):
            p = rng.choice([0.1, 0.5, 0.9]); vecs.add("".join("1" if rng.random() < p else "0" for _ in range(n)))
        for v in sorted(vecs): cases.append("pmt %s %s" % (v, t))
    big = [21, 31, 32, 33, 63, 64, 65, 100, 127, 128, 129, 255, 256, 257, 300] if quick else list(range(21, 301))
    for n in big:
        txids = [rng.randbytes(32) for _ in range(n)]
        t = " ".join(x.hex() for x in txids)
        for p in ([0.02, 0.5] if quick else [0.0, 0.01, 0.1, 0.5, 1.0]):
            cases.append("pmt %s %s" % ("".join("1" if rng.random() < p else "0" for _ in range(n)), t))
        cases.append("pmt %s %s" % ("0" * (n - 1) + "1", t))
    # duplicated txids (identical neighbouring subtrees make extraction fail when both are traversed)
    for n in (2, 3, 4, 6, 7, 8):
        a = [rng.randbytes(32) for _ in range(n)]
        for dup in ([a[0]] * n, a[: n // 2] + a[: n - n // 2], a[:-1] + [a[-2]] if n > 1 else a):
            for v in ("1" * n, "0" * n, "0" * (n - 1) + "1"):
                cases.append("pmt %s %s" % (v, " ".join(x.hex() for x in dup)))
    return cases


def gen_pmtx(rng, tier):
    cases = []
    quick = tier == "quick"
    def add(n, bits, hashes): cases.append("pmtx " + pmt_ser(n, bits, hashes).hex())
    for n in list(range(1, 13)) + [16, 17, 33]:
        txids = [rng.randbytes(32) for _ in range(n)]
        for rep in range(2 if quick else 6):
            matches = [rng.random() < (0.4 if rep else 1.0) for _ in range(n)]
            _, bits, hashes = pmt_build(txids, matches)
            add(n, bits, hashes)
            add(n, bits, hashes[:-1])
            add(n, bits, hashes + [rng.randbytes(32)])
            add(n, bits, hashes[1:] + hashes[:1])
            for i in range(len(bits)):
                b2 = list(bits); b2[i] = not b2[i]; add(n, b2, hashes)
            add(n, bits + [False] * 8, hashes)                      # a whole unused flag byte
            pad = (-len(bits)) % 8
            if pad:
                add(n, bits + [True] * pad, hashes)                # padding bits set inside the last byte
                add(n, bits + [False] * pad, hashes)
            add(n, bits + [True], hashes)
            add(n, bits[:-1], hashes)
            for n2 in (0, n - 1, n + 1, 2 * n, 16666, 16667, 0xffffffff):
                add(n2, bits, hashes)
            add(n, [], [])
            add(n, bits, [])
    # identical left and right subtrees that are both traversed (CVE-2012-2459 shape)
    for n in (2, 4, 6, 8):
        a = [rng.randbytes(32) for _ in range(n // 2)]
        _, bits, hashes = pmt_build(a + a, [True] * n)
        add(n, bits, hashes)
        _, bits, hashes = pmt_build(a + a, [True] + [False] * (n - 1))
        add(n, bits, hashes)
    return cases


# ------------------------------------------------------------------ bloom
LN2SQUARED = 0.4804530139182014246671025263266649717305529515945455
LN2 = 0.6931471805599453094172321214581765680755001343602552


def bloom_ctor(nel, fp):
    size = min(int(-1 / LN2SQUARED * nel * math.log(fp)), 36000 * 8) // 8
    nhash = min(int(size * 8 // nel * LN2), 50)
    return size, nhash


def rolling_ctor(nel, fp):
    logfp = math.log(fp)
    nh = max(1, min(int(math.floor(logfp / math.log(0.5) + 0.5)), 50))
    per = (nel + 1) // 2
    nmax = per * 3
    bits = int(math.ceil(-1.0 * nh * nmax / math.log(1.0 - math.exp(logfp / nh))))
    return ((bits + 63) // 64) << 1, nh, per


def keyset(rng, k):
    out = []
    for i in range(k):
        ln = rng.choice([0, 1, 2, 3, 4, 5, 7, 8, 20, 32, 33, 36, 64])
        out.append(rng.randbytes(ln))
    return out


def ops_for(rng, keys, others, nq):
    ops = []
    ins = []
    for k in keys:
        ops.append("i" + k.hex()); ins.append(k)
        for _ in range(nq):
            r = rng.random()
            q = rng.choice(ins) if r < 0.6 else (ins[-1] if r < 0.8 else rng.choice(others))
            ops.append("c" + q.hex())
    for k in ins[-20:]: ops.append("c" + k.hex())
    for k in others[:10]: ops.append("c" + k.hex())
    return ops


def gen_bloom(rng, tier):
    cases = []
    quick = tier == "quick"
    params = [(1, 0.5), (1, 0.01), (1, 1e-9), (2, 0.3), (3, 0.01), (10, 0.001), (10, 0.9), (100, 0.01), (100, 1e-6), (1000, 0.0001),
              (20000, 0.0000001), (30000, 0.000001), (400000, 0.01), (1, 0.999), (7, 0.05), (65, 0.02)]
    for (nel, fp) in params:
        size, nhash = bloom_ctor(nel, fp)
        for rep in range(1 if (quick and size > 2000) else 2):
            nk = min(nel, 12 if size > 2000 else 40)
            keys = keyset(rng, max(1, nk)); others = keyset(rng, 12)
            cases.append("bloom %d %r %d %d %d %d %s" % (nel, fp, rng.randrange(0, 2 ** 32), rng.randrange(0, 3), size, nhash,
                                                          " ".join(ops_for(rng, keys, others, 1))))
    # deserialized filters
    for data_len in (0, 1, 2, 3, 8, 9, 100):
        for nhash in (0, 1, 2, 5, 50, 51, 200):
            data = bytes(rng.randrange(0, 256) if rng.random() < 0.3 else 0 for _ in range(data_len))
            keys = keyset(rng, 8); others = keyset(rng, 6)
            cases.append("bloomraw %s %d %d %d %s" % (data.hex() if data else "-", nhash, rng.choice([0, 1, 0xffffffff, rng.randrange(0, 2 ** 32)]),
                                                      rng.randrange(0, 256), " ".join(ops_for(rng, keys, others, 2))))
    return cases


def gen_rolling(rng, tier):
    cases = []
    quick = tier == "quick"
    for (nel, fp) in [(1, 0.5), (2, 0.1), (3, 0.01), (4, 0.001), (5, 0.3), (10, 0.01), (11, 0.000001), (50, 0.001), (100, 0.01), (120, 0.0001), (1000, 0.001)]:
        dsize, nh, per = rolling_ctor(nel, fp)
        if dsize > 2000 and quick and nel > 200:
            total = nel + 10
        else:
            total = max(min(8 * per + 3, 450 if quick else 10 ** 9), 12)
        for rep in range(2):
            keys = [rng.randbytes(rng.choice([1, 4, 32])) for _ in range(total)]
            if rep == 1 and total > 4:
                for _ in range(total // 3):                         # repeated insertions of the same key
                    keys[rng.randrange(total)] = keys[rng.randrange(total)]
            ops = []
            for i, k in enumerate(keys):
                ops.append("i" + k.hex())
                # query a few of the last nel inserted, one older, one never inserted
                lo = max(0, i + 1 - nel)
                for _ in range(2):
                    ops.append("c" + keys[rng.randrange(lo, i + 1)].hex())
                ops.append("c" + keys[lo].hex())
                if lo > 0: ops.append("c" + keys[rng.randrange(0, lo)].hex())
                if rng.random() < 0.2: ops.append("c" + rng.randbytes(5).hex())
            cases.append("rolling %d %r %d %d %d %s" % (nel, fp, rng.randrange(0, 2 ** 32), dsize, nh, " ".join(ops)))
    return cases


# ------------------------------------------------------------------ bit streams, golomb, gcs
def gen_bits(rng, tier):
    cases = []
    for _ in range(150 if tier == "quick" else 3000):
        items = []
        for _ in range(rng.randrange(0, 14)):
            n = rng.choice([0, 1, 2, 3, 7, 8, 9, 15, 16, 17, 19, 31, 32, 33, 63, 64, rng.randrange(0, 65)])
            d = rng.choice([0, 1, 2 ** 64 - 1, 2 ** 63, rng.getrandbits(64), (1 << n) - 1 if n else 0, 1 << n if n < 64 else 5])
            items.append("%d:%d" % (d, n))
        cases.append("bitstream " + " ".join(items))
    cases.append("bitstream")
    return cases


def gen_golomb(rng, tier):
    cases = []
    M64 = 2 ** 64 - 1
    for P in (0, 1, 2, 7, 8, 9, 19, 20, 31, 32, 33, 48, 56, 57, 58, 62, 63):
        vals = set()
        for k in (0, 1, 2, 3, 62, 63, 64, 65, 66, 127, 128, 129, 191, 192, 193, 300):
            for d in (-1, 0, 1):
                v = (k << P) + d
                if 0 <= v <= M64 and (v >> P) <= 400: vals.add(v)
        for v in (M64, M64 - 1, 2 ** 63, 2 ** 63 - 1, 2 ** 32, 2 ** 32 - 1):
            if (v >> P) <= 400: vals.add(v)
        for _ in range(20):
            q = rng.randrange(0, 200); vals.add(min(M64, (q << P) + rng.getrandbits(P) if P else q))
        vals = sorted(vals)
        for v in vals:
            cases.append("golomb %d %d" % (P, v))
        for _ in range(6 if tier == "quick" else 60):
            k = rng.randrange(2, 12)
            cases.append("golomb %d %s" % (P, " ".join(str(rng.choice(vals)) for _ in range(k))))
    return cases


def gen_gcs(rng, tier):
    cases = []
    quick = tier == "quick"
    paramsets = [(19, 784931), (19, 784931), (20, 1 << 20), (1, 2), (1, 3), (0, 1), (0, 3), (2, 1), (8, 300), (8, 1), (16, 65537), (31, 2 ** 31), (32, 2 ** 32 - 1),
                 (32, 2 ** 31), (10, 2 ** 16), (25, 2 ** 25 + 12345)]
    sizes = [0, 1, 2, 3, 4, 5, 8, 16, 33, 100] + ([300, 1000] if quick else [300, 1000, 2000, 10000])
    for (P, M) in paramsets:
        for n in sizes:
            if n > 100 and (P, M) not in ((19, 784931), (20, 1 << 20)): continue
            if (M >> P) * 1 > 64 and n > 16: continue              # keep the unary parts short
            if P == 0 and n * M > 600: continue
            els = set()
            while len(els) < n:
                els.add(rng.randbytes(rng.choice([0, 1, 2, 5, 20, 25, 32, 34, 36])))
            els = sorted(els); rng.shuffle(els)
            qs = [rng.choice(els) for _ in range(min(3, n))] + [rng.randbytes(rng.choice([1, 6, 25])) for _ in range(5 if n <= 100 else 40)]
            tok = lambda b: b.hex() if b else "-"
            cases.append("gcs %d %d %d %d %d %s" % (P, M, rng.getrandbits(64), rng.getrandbits(64), n, " ".join(tok(e) for e in els + qs)))
    return cases


def gen(rng, tier):
    return gen_pmt(rng, tier) + gen_pmtx(rng, tier) + gen_bloom(rng, tier) + gen_rolling(rng, tier) + gen_bits(rng, tier) + gen_golomb(rng, tier) + gen_gcs(rng, tier)


def canon(s):
    return "EXC" if s.startswith("EXC") else s


TIES = [Tie("filter_fn", "tie/drivers/filter_drv.cpp", "Extract_Filter.v", "filter_driver.ml", gen,
            predicate="driver", nontrivial=lambda c: len(c.split()) >= 4, extra_ml=("merkle_sha256.ml", "filter_hashes.ml"), canon=canon)]

LEVEL_TEXT = ("Coq theorems: CBloomFilter - after any sequence of inserts every inserted key is contained (any hash function, any filter size and "
              "hash count); CPartialMerkleTree - for every list of distinct txids and every match vector, extract(build) returns the merkle "
              "root and exactly the matched txids with their positions (inner hash injective), and extraction fails as the code does on "
              "unconsumed hashes/bits and identical sibling subtrees; Golomb-Rice / bit streams - decode(encode x) = x at the bit level of "
              "BitStreamWriter/Reader; GCS - every element of the set matches its filter; rolling bloom - the last nElements inserted keys are "
              "contained. Models tied to the real classes by differential execution with real MurmurHash3 / SipHash / SHA256d; encodings compared byte for byte.")
LEVEL_NOTE = ("Trusted: Coq kernel; extraction and the OCaml/C++ glue incl. the OCaml hash implementations. Floating-point constructor arithmetic "
              "is outside the models (compared per case). The models are hand transcriptions checked by correspondence, not by a semantics of C++.")
TECHNIQUE = "Coq proof (structural induction on the traversals / invariants on bit planes) + differential correspondence"
