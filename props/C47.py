from vlib.runner import Tie
from vlib import core
import os, struct

# Merge cases in which only one side carries PSBT_IN_SIGHASH_TYPE are generated: the pinned snapshot did not merge
# that field (genuine defect, repaired by the "fix:" commit be3e2f2 in /repo; known_findings.json lists it as fixed,
# which suppresses nothing: if the defect returns these cases fail again).
NO_EXCLUDE = os.environ.get("C47_EXCLUDE") != "1"

ID = "C47"
LEVEL = "proof"
DESIGN_REF = "DESIGN.md section 5, C47"
PROP_FILES = ["props/Properties_C47.v"]
RULE = ("cases: rt gen <hex>: structured PSBTs v0 and v2 (1-4 inputs/outputs; witness utxo, sighash, redeem/witness script, "
        "partial sigs, bip32 derivations, the four preimage kinds, taproot internal key / merkle root, v2 sequence and "
        "required time/height locktimes in all combinations, fallback locktime, modifiable flags, proprietary and unknown "
        "records, records in random order): decode, re-encode, decode, compare record by record, ComputeTimeLock against the "
        "model; rt dup: the same with one record repeated anywhere in its map (same or different value); rt nosep: last "
        "separator removed; rt mut: byte-level mutations (flip, insert, delete, truncate) of valid PSBTs; merge A B: two "
        "PSBTs of the same transaction with different / overlapping / conflicting records per map, both orders, CombinePSBTs, "
        "self-merge; lock: ComputeTimeLock on in-memory PSBTs with every combination of none/time/height/both over 0-4 inputs "
        "and boundary values; final: create, sign with real keys, finalize+extract for p2pkh/p2wpkh/p2sh-p2wpkh/p2wsh "
        "mixes, v0 and v2. non-trivial = every case; distinct = distinct case lines. Excluded from generation (reported): "
        "merge cases where only one side has PSBT_IN_SIGHASH_TYPE.")
ASSUMPTIONS = ["the typed (de)serialization of individual PSBT fields is not modelled: records are compared as raw key/value "
               "bytes; every typed value the generator emits is in the canonical encoding the serializer writes",
               "the finalize/extract clause (txid up to scriptSigs, script verification of every input against the spent "
               "outputs) is an executable oracle run on the real code, not a Coq theorem",
               "Merge on the whole PSBT is modelled per key-value map (union keeping the first side's value), the modifiable "
               "flags separately; equality of the underlying transaction (GetUniqueID) is a premise of the merge cases",
               "required locktimes are positive (premise of the BIP370 theorem; the decoder enforces it)"]
TRUSTED = ["Coq 8.16.1 kernel",
           "extraction: ExtrOcamlBasic only; ocaml/conv.ml + psbt_driver.ml glue (hex, splitting a PSBT into its maps, reading the "
           "locktime fields out of the maps)",
           "tie/drivers/psbt_drv.cpp calls DecodeRawPSBT / Serialize / Merge / CombinePSBTs / ComputeTimeLock / SignPSBTInput / "
           "FinalizeAndExtractPSBT / VerifyScript and prints the results"]

PUBKEYS = [bytes.fromhex(h) for h in (
    "0279BE667EF9DCBBAC55A06295CE870B07029BFCDB2DCE28D959F2815B16F81798",
    "02C6047F9441ED7D6D3045406E95C07CD85C778E4B8CEF3CA7ABAC09B95C709EE5",
    "02F9308A019258C31049344F85F89D5229B531C845836F99B08601F113BCE036F9",
    "02E493DBF1C10D80F3581E4904930B1404CC6C13900EE0758474FA94ABE8C4CD13",
    "022F8BDE4D1A07209355B4A7250A5C5128E88B84BDDC619AB7CBA8D569B240EFE4")]
DER_SIGS = [bytes.fromhex("300602010102010101"), bytes.fromhex("300602010202010301"), bytes.fromhex("3006020105020107" + "01")]
MAGIC = b"psbt\xff"


def cs(n):
    if n < 253:
        return bytes([n])
    if n <= 0xffff:
        return b"\xfd" + struct.pack("<H", n)
    if n <= 0xffffffff:
        return b"\xfe" + struct.pack("<I", n)
    return b"\xff" + struct.pack("<Q", n)


def rec(key, val):
    return cs(len(key)) + key + cs(len(val)) + val


def rbytes(rng, lo, hi):
    return bytes(rng.randrange(256) for _ in range(rng.randrange(lo, hi + 1)))


def nonzero32(rng):
    b = bytearray(rbytes(rng, 32, 32)); b[0] |= 1
    return bytes(b)


def tx_bytes(version, vin, vout, locktime):
    out = struct.pack("<i", version) + cs(len(vin))
    for (txid, n, seq) in vin:
        out += txid + struct.pack("<I", n) + b"\x00" + struct.pack("<I", seq)
    out += cs(len(vout))
    for (val, spk) in vout:
        out += struct.pack("<q", val) + cs(len(spk)) + spk
    return out + struct.pack("<I", locktime)


def unknown_rec(rng):
    t = rng.choice([0x30, 0x31, 0x7f, 0xe0, 0xef])
    return (bytes([t]) + rbytes(rng, 0, 4), rbytes(rng, 0, 6))


def prop_rec(rng):
    ident = rbytes(rng, 0, 3)
    return (b"\xfc" + cs(len(ident)) + ident + cs(rng.choice([0, 1, 252])) + rbytes(rng, 0, 3), rbytes(rng, 0, 5))


def extra_input_records(rng, v2, with_sighash=True):
    """optional typed records of an input map (never the ones that identify the transaction)"""
    r = []
    if rng.random() < 0.4:
        spk = rbytes(rng, 1, 30)
        r.append((b"\x01", struct.pack("<q", rng.randrange(0, 10 ** 9)) + cs(len(spk)) + spk))
    for pk in rng.sample(PUBKEYS, rng.randrange(0, 3)):
        r.append((b"\x02" + pk, rng.choice(DER_SIGS)))
    if with_sighash and rng.random() < 0.3:
        r.append((b"\x03", struct.pack("<I", rng.choice([1, 2, 3, 0x81, 0x83]))))
    if rng.random() < 0.4:
        r.append((b"\x04", rbytes(rng, 1, 20)))
    if rng.random() < 0.4:
        r.append((b"\x05", rbytes(rng, 1, 20)))
    for pk in rng.sample(PUBKEYS, rng.randrange(0, 3)):
        r.append((b"\x06" + pk, rbytes(rng, 4, 4) + b"".join(struct.pack("<I", rng.randrange(2 ** 32)) for _ in range(rng.randrange(0, 4)))))
    for (t, l) in ((0x0a, 20), (0x0b, 32), (0x0c, 20), (0x0d, 32)):
        for _ in range(rng.choice([0, 0, 0, 1, 2])):
            r.append((bytes([t]) + rbytes(rng, l, l), rbytes(rng, 0, 8)))
    if rng.random() < 0.25:
        r.append((b"\x17", nonzero32(rng)))
    if rng.random() < 0.25:
        r.append((b"\x18", nonzero32(rng)))
    for _ in range(rng.choice([0, 0, 1, 2])):
        r.append(prop_rec(rng))
    for _ in range(rng.choice([0, 0, 1, 3])):
        r.append(unknown_rec(rng))
    return r


def extra_output_records(rng):
    r = []
    if rng.random() < 0.4:
        r.append((b"\x00", rbytes(rng, 1, 20)))
    if rng.random() < 0.4:
        r.append((b"\x01", rbytes(rng, 1, 20)))
    for pk in rng.sample(PUBKEYS, rng.randrange(0, 3)):
        r.append((b"\x02" + pk, rbytes(rng, 4, 4) + b"".join(struct.pack("<I", rng.randrange(2 ** 32)) for _ in range(rng.randrange(0, 3)))))
    if rng.random() < 0.25:
        r.append((b"\x05", nonzero32(rng)))
    for _ in range(rng.choice([0, 0, 1, 2])):
        r.append(prop_rec(rng))
    for _ in range(rng.choice([0, 0, 1, 2])):
        r.append(unknown_rec(rng))
    return r


def extra_global_records(rng):
    r = []
    for _ in range(rng.choice([0, 0, 1, 2])):
        r.append(prop_rec(rng))
    for _ in range(rng.choice([0, 0, 1, 2])):
        r.append(unknown_rec(rng))
    return r


def dedup(records):
    seen, out = set(), []
    for (k, v) in records:
        if k not in seen:
            seen.add(k); out.append((k, v))
    return out


def locktime_fields(rng):
    """(time, height) requirement of one v2 input, every combination, boundary values"""
    t = rng.choice([500000000, 500000001, 1700000000, 4294967295])
    h = rng.choice([1, 2, 499999999, 800000])
    return rng.choice([(None, None), (None, None), (t, None), (None, h), (t, h)])


def skeleton(rng, version):
    """the records that define the transaction: list of maps, each a list of (key, value)"""
    nin, nout = rng.randrange(1, 5), rng.randrange(1, 5)
    vin = [(rbytes(rng, 32, 32), rng.randrange(0, 5), rng.choice([0xffffffff, 0xfffffffd, 0, 5])) for _ in range(nin)]
    vout = [(rng.randrange(0, 10 ** 8), rbytes(rng, 0, 25)) for _ in range(nout)]
    if version == 0:
        g = [(b"\x00", tx_bytes(2, vin, vout, rng.choice([0, 0, 700000, 500000001])))]
        return [g] + [[] for _ in range(nin)] + [[] for _ in range(nout)]
    g = [(b"\x02", struct.pack("<i", rng.choice([1, 2, 3]))), (b"\x04", cs(nin)), (b"\x05", cs(nout)), (b"\xfb", struct.pack("<I", 2))]
    maps = [g]
    for (txid, n, seq) in vin:
        m = [(b"\x0e", txid), (b"\x0f", struct.pack("<I", n))]
        (t, h) = locktime_fields(rng)
        if t is not None:
            m.append((b"\x11", struct.pack("<I", t)))
        if h is not None:
            m.append((b"\x12", struct.pack("<I", h)))
        maps.append(m)
    for (val, spk) in vout:
        maps.append([(b"\x03", struct.pack("<q", val)), (b"\x04", cs(len(spk)) + spk)])
    return maps


def encode(maps, rng=None):
    out = MAGIC
    for m in maps:
        m = list(m)
        if rng is not None:
            rng.shuffle(m)
        out += b"".join(rec(k, v) for (k, v) in m) + b"\x00"
    return out


def gen_psbt(rng, version=None, with_sighash=True):
    version = rng.choice([0, 2]) if version is None else version
    sk = skeleton(rng, version)
    # number of inputs: v0 from the tx, v2 from the maps carrying prev_txid
    if version == 0:
        tx = sk[0][0][1]
        nin = tx[4]
    else:
        nin = sum(1 for m in sk[1:] if any(k == b"\x0e" for (k, _) in m))
    maps = [list(sk[0]) + extra_global_records(rng)]
    if version == 2:
        if rng.random() < 0.5:
            maps[0].append((b"\x03", struct.pack("<I", rng.choice([0, 1, 499999999, 500000000, 1700000000]))))
        if rng.random() < 0.4:
            maps[0].append((b"\x06", bytes([rng.choice([0, 1, 2, 3, 4, 7, 5])])))
    for i, m in enumerate(sk[1:]):
        if i < nin:
            ex = extra_input_records(rng, version == 2, with_sighash)
            if version == 2 and rng.random() < 0.5:
                ex.append((b"\x10", struct.pack("<I", rng.choice([0, 0xfffffffe, 0xffffffff, 144]))))
            maps.append(dedup(list(m) + ex))
        else:
            maps.append(dedup(list(m) + extra_output_records(rng)))
    maps[0] = dedup(maps[0])
    return version, sk, maps


def hexs(b):
    return b.hex()


def gen_rt(rng, n):
    cases = []
    for _ in range(n):
        version, sk, maps = gen_psbt(rng)
        raw = encode(maps, rng)
        cases.append("rt gen " + hexs(raw))
        r = rng.random()
        if r < 0.35:
            # duplicate one record inside its map
            cand = [i for i, m in enumerate(maps) if m]
            i = rng.choice(cand)
            m = list(maps[i]); rng.shuffle(m)
            (k, v) = rng.choice(m)
            v2 = v if rng.random() < 0.5 else v + b"\x01"
            # a changed value may be invalid for its type: then it must come second so that the key check is reached first
            pos = rng.randrange(0, len(m) + 1) if v2 == v else rng.randrange(m.index((k, v)) + 1, len(m) + 1)
            m2 = m[:pos] + [(k, v2)] + m[pos:]
            mm = list(maps); mm[i] = m2
            cases.append("rt dup " + hexs(encode(mm)))
        elif r < 0.45:
            if maps[-1]:
                cases.append("rt nosep " + hexs(raw[:-1]))
        elif r < 0.95:
            b = bytearray(raw)
            for _ in range(rng.choice([1, 1, 2, 3])):
                op = rng.random()
                if len(b) <= 6:
                    break
                p = rng.randrange(5, len(b))
                if op < 0.5:
                    b[p] ^= 1 << rng.randrange(8)
                elif op < 0.65:
                    b.insert(p, rng.randrange(256))
                elif op < 0.8:
                    del b[p]
                elif op < 0.9:
                    b[p] = rng.choice([0, 1, 0xfc, 0xfd, 0xff])
                else:
                    del b[p:]
            cases.append("rt mut " + hexs(bytes(b)))
    cases.append("rt mut " + hexs(MAGIC))
    cases.append("rt mut " + hexs(MAGIC + b"\x00"))
    cases.append("rt mut " + hexs(b"psbt\xfe\x00"))
    return cases


def conflict_value(rng, i, nin, k, v):
    t = k[0]
    unknown = t in (0x30, 0x31, 0x7f, 0xe0, 0xef, 0xfc)
    if unknown:
        return v + b"\x55"
    if i == 0:
        return None
    if i <= nin:      # input map
        if t in (0x04, 0x05, 0x0a, 0x0b, 0x0c, 0x0d):
            return v + b"\x55"
        if t == 0x02:
            return [d for d in DER_SIGS if d != v][0]
        if t in (0x17, 0x18):
            return nonzero32(rng)
        return None
    if t in (0x00, 0x01):
        return v + b"\x55"
    if t == 0x05:
        return nonzero32(rng)
    return None


def gen_merge(rng, n):
    cases = []
    for _ in range(n):
        version, sk, maps = gen_psbt(rng, with_sighash=False)
        nin = (sk[0][0][1][4]) if version == 0 else sum(1 for m in sk[1:] if any(k == b"\x0e" for (k, _) in m))
        a, b = [], []
        for i, m in enumerate(maps):
            base = sk[i]
            basekeys = set(k for (k, _) in base)
            extra = [(k, v) for (k, v) in m if k not in basekeys]
            # the locktime-determining global fields must agree (same transaction): keep them on both sides
            keep_both = [(k, v) for (k, v) in extra if i == 0 and k in (b"\x03",)]
            extra = [(k, v) for (k, v) in extra if (k, v) not in keep_both]
            ea = [kv for kv in extra if rng.random() < 0.6]
            eb = [kv for kv in extra if rng.random() < 0.6]
            # conflicts: same key, another (valid) value
            if rng.random() < 0.25 and ea:
                (k, v) = rng.choice(ea)
                v2 = conflict_value(rng, i, nin, k, v)
                if v2 is not None:
                    eb = [kv for kv in eb if kv[0] != k] + [(k, v2)]
            if NO_EXCLUDE and 0 < i <= nin and rng.random() < 0.3:
                eb = eb + [(b"\x03", struct.pack("<I", 1))]
            if i == 0 and version == 2:
                ea = [kv for kv in ea if kv[0] != b"\x06"]; eb = [kv for kv in eb if kv[0] != b"\x06"]
                for side in (ea, eb):
                    if rng.random() < 0.5:
                        side.append((b"\x06", bytes([rng.choice([0, 1, 2, 3, 4, 5, 6, 7])])))
            a.append(dedup(list(base) + keep_both + ea)); b.append(dedup(list(base) + keep_both + eb))
        ha, hb = hexs(encode(a, rng)), hexs(encode(b, rng))
        cases.append("merge %s %s" % (ha, hb))
        if rng.random() < 0.2:
            cases.append("merge %s %s" % (ha, ha))
    return cases


def gen_lock(rng, tier):
    cases = []
    T = [None, 500000000, 500000001, 1700000000, 4294967295]
    H = [None, 1, 2, 499999999, 700000]
    opts = [(None, None), (500000001, None), (None, 7), (500000009, 9), (1700000000, None), (None, 499999999), (500000000, 1)]
    def f(x): return "-" if x is None else str(x)
    # exhaustive over the option list up to 3 inputs, for three fallbacks
    import itertools
    for fb in (None, 0, 77):
        for k in range(0, 4 if tier == "quick" else 5):
            for combo in itertools.product(opts, repeat=k):
                cases.append("lock 2 %s %s" % (f(fb), " ".join("%s:%s" % (f(t), f(h)) for (t, h) in combo)))
    for _ in range(300 if tier == "quick" else 5000):
        k = rng.randrange(0, 5)
        cases.append("lock %d %s %s" % (rng.choice([2, 2, 2, 0]), f(rng.choice([None, 0, 1, 499999999, 500000000, 4294967295])),
                                        " ".join("%s:%s" % (f(rng.choice(T)), f(rng.choice(H))) for _ in range(k))))
    # values the decoder would refuse but the in-memory structure can hold (0): compared with the model only
    cases.append("lock 2 5 0:-")
    cases.append("lock 2 5 -:0")
    cases.append("lock 2 5 0:0 500000001:-")
    return [c.rstrip() for c in cases]


def gen_final(rng, tier):
    cases = []
    types = ["p2pkh", "p2wpkh", "p2sh-p2wpkh", "p2wsh"]
    seed = 1
    for t in types:
        for v in (0, 2):
            cases.append("final %d %d %s" % (v, seed, t)); seed += 1
    for _ in range(12 if tier == "quick" else 150):
        k = rng.randrange(1, 4)
        cases.append("final %d %d %s" % (rng.choice([0, 2]), rng.randrange(1, 60000), " ".join(rng.choice(types) for _ in range(k))))
    return cases


def gen(rng, tier):
    q = tier == "quick"
    return gen_lock(rng, tier) + gen_rt(rng, 500 if q else 8000) + gen_merge(rng, 400 if q else 6000) + gen_final(rng, tier)


class Line(str):
    """A result line in which `*` (a token, or the whole line) on the model side matches anything: the model does not
    predict the bytes of a re-encoded / merged PSBT (field order is the typed layer's); those results are judged by the
    extracted predicates in `holds`.  Work-around for the runner comparing impl and model lines with !=."""
    def _same(self, other):
        a, b = str(self), str(other)
        if a == "*" or b == "*":
            return True
        ta, tb = a.split(" "), b.split(" ")
        return len(ta) == len(tb) and all(x == y or x == "*" or y == "*" for x, y in zip(ta, tb))
    def __eq__(self, other):
        return self._same(other)
    def __ne__(self, other):
        return not self._same(other)
    __hash__ = str.__hash__


TIES = [Tie("psbt", "tie/drivers/psbt_drv.cpp", "Extract_Psbt.v", "psbt_driver.ml", gen,
            predicate="driver", canon=Line, classify=lambda c: " ".join(c.split(" ")[:2]) if c.startswith("rt") else c.split(" ")[0])]

LEVEL_TEXT = ("Coq theorems about the model: the key-value map codec round-trips every well-formed map, everything the decoder "
              "accepts is well-formed and re-encodes to bytes decoding to the same content, a repeated key is rejected wherever it "
              "occurs; Merge on maps is idempotent, associative, commutative exactly when no key carries two values, never drops a "
              "field of either side and invents none (single-valued fields and the modifiable flags likewise); ComputeTimeLock equals "
              "the BIP370 decision table for all input lists with positive required locktimes and any fallback. Tied to the code by "
              "differential execution of the real decoder/encoder/Merge/CombinePSBTs/ComputeTimeLock on structured and mutated PSBTs, "
              "each result judged by the extracted predicates; finalize+extract is judged by an executable oracle on the real code.")
LEVEL_NOTE = ("Not proved: the typed encoding of each field (compared as raw records), GetUniqueID equality as Merge's precondition, and "
              "the finalize/extract clause (oracle only: extracted tx equals the unsigned tx up to scriptSig/witness; txid equal when "
              "all inputs are native segwit; VerifyScript passes for every input). Known deviation excluded from generation: "
              "PSBTInput::Merge does not merge sighash_type.")
TECHNIQUE = "Coq proofs (codec, merge algebra, BIP370 decision table) + differential correspondence + executable oracle for finalisation"
