from vlib.runner import Tie
from vlib import core
import sys

ID = "C59"
LEVEL = "proof"
DESIGN_REF = "DESIGN.md section 5, C59"
PROP_FILES = ["props/Properties_C59.v"]
RULE = ("cases: 'sel <tag> <candidates>' = SelectNodeToEvict, 'ratio <tag> <candidates>' = ProtectEvictionCandidatesByRatio, on "
        "0..135 candidates (all 14 fields of NodeEvictionCandidate; all networks, connection types, noban, prefer_evict). Tags: A random "
        "without comparator-equivalent candidates at any cut (unique answer, compared exactly); C the same with 19..30 eligible candidates "
        "(nullopt boundary); E aimed: all net groups distinct, the youngest peer is given rank k-1, k or k+1 under exactly one protection "
        "rule (net group 4, ping 8, tx 4, block-relay-only 8, block 4) or is noban/outbound, with noban/outbound decoys that have the best "
        "attributes; B/RB candidates with equal connection times, pings and net groups cutting through the protection boundaries (the "
        "implementation's answer must be the answer of the model for SOME ordering of the ties, searched exhaustively up to a budget, and "
        "must satisfy the property's predicate); RD ratio cases with distinct connection times and the unit tests' network mixes. "
        "A case is non-trivial when it has at least one candidate; distinct = distinct case lines.")
ASSUMPTIONS = ["std::sort with a comparator that is a strict weak ordering returns a sorted permutation of its input (the premise "
               "sort_spec of every theorem; the seven comparators are proved to be strict weak orderings)",
               "node ids in the candidate vector are pairwise different (CConnman assigns them from a counter); the predicate answers 'na' otherwise",
               "the model of eviction.cpp is a hand transcription; tied by the correspondence on the listed cases"]
TRUSTED = ["Coq 8.16.1 kernel (coqc; no native_compute)",
           "tie/params/eviction.h prints the enum values INBOUND, NET_ONION, NET_I2P, NET_CJDNS, NET_MAX from the compiled tree",
           "extraction: ExtrOcamlBasic only; ocaml/conv.ml + eviction_driver.ml glue (parsing, printing; the search over tie orders "
           "only decides whether a disagreement with the stable-sort instance is a disagreement with the relation)",
           "tie/drivers/eviction_drv.cpp calls SelectNodeToEvict / ProtectEvictionCandidatesByRatio and prints the result"]

I64MAX = 2 ** 63 - 1
FIELDS = ("id", "conn", "ping", "blk", "tx", "rel", "relay", "bloom", "ng", "pref", "loc", "net", "noban", "ct")
NET_IPV4, NET_IPV6, NET_ONION, NET_I2P, NET_CJDNS = 1, 2, 3, 4, 5


def fmt(p):
    return ",".join(str(int(p[f])) for f in FIELDS)


def line(kind, tag, peers):
    return " ".join([kind, tag] + [fmt(p) for p in peers])


def eligible(p):
    return not p["noban"] and p["ct"] == 0


def base_peer(rng, i):
    return dict(id=i, conn=0, ping=0, blk=0, tx=0, rel=rng.random() < 0.6, relay=rng.random() < 0.75,
                bloom=rng.random() < 0.15, ng=1, pref=False, loc=False, net=NET_IPV4, noban=False, ct=0)


def pick_n(rng):
    r = rng.random()
    if r < 0.10:
        return rng.randrange(0, 6)
    if r < 0.45:
        return rng.randrange(15, 36)
    if r < 0.85:
        return rng.randrange(36, 71)
    return rng.randrange(100, 136)


def rand_ids(rng, n):
    if rng.random() < 0.8:
        ids = list(range(n))
        rng.shuffle(ids)
        return ids
    s = set()
    while len(s) < n:
        s.add(rng.choice([rng.randrange(0, 1000), rng.randrange(-2 ** 63, 2 ** 63), I64MAX - rng.randrange(0, 5)]))
    return list(s)


def rand_net(rng):
    return rng.choice([0, 1, 1, 1, 1, 2, 2, 3, 3, 4, 5, 6])


def random_peers(rng, n, ties):
    """n peers with random attributes; ties=False: pairwise different connection times and pings."""
    ids = rand_ids(rng, n)
    pool = [rng.choice([rng.randrange(0, 50), rng.randrange(0, 2 ** 64), 2 ** 64 - 1 - rng.randrange(0, 3), 2 ** 63 + rng.randrange(-2, 3)])
            for _ in range(rng.choice([1, 2, 3, 5, 8, 20, 60]))]
    t0 = rng.choice([0, 1000, 1700000000 * 10 ** 9])
    if ties == "heavy":
        conns = [t0 + rng.randrange(0, rng.choice([1, 2, 4, 10, 1000])) for _ in range(n)]
        pset = rng.choice([1, 3, 10, 10 ** 6])
        pings = [rng.choice([rng.randrange(1, pset + 1), I64MAX]) if rng.random() < 0.3 else rng.randrange(1, pset + 1) for _ in range(n)]
    elif ties:
        # light: a few pairs/triples of equal connection times and pings, some never-pinged peers
        conns = [t0 + rng.randrange(0, max(2, n * rng.choice([1, 2, 4]))) for _ in range(n)]
        pings = [I64MAX if rng.random() < rng.choice([0.0, 0.05, 0.2]) else rng.randrange(1, max(2, n * rng.choice([1, 3]))) for _ in range(n)]
        pool = pool + [rng.randrange(0, 2 ** 64) for _ in range(n // 2)]
    else:
        conns = rng.sample(range(t0, t0 + max(4 * n, 10)), n)
        pings = rng.sample(range(1, max(50 * n, 100)), n)
        if n and rng.random() < 0.5:
            pings[rng.randrange(n)] = I64MAX
    tmode = rng.random()
    peers = []
    for i in range(n):
        p = base_peer(rng, ids[i])
        p["conn"], p["ping"] = conns[i], pings[i]
        p["ng"] = rng.choice(pool)
        if tmode < 0.5:      # most peers have not relayed anything yet
            p["tx"] = rng.choice([0, 0, 0, rng.randrange(1, 50)])
            p["blk"] = rng.choice([0, 0, 0, 0, rng.randrange(1, 50)])
        else:
            p["tx"] = rng.randrange(0, 6)
            p["blk"] = rng.randrange(0, 4)
        p["pref"] = rng.random() < rng.choice([0.0, 0.0, 0.2, 0.9])
        p["loc"] = rng.random() < 0.1
        p["net"] = rand_net(rng)
        p["noban"] = rng.random() < rng.choice([0.0, 0.1, 0.3])
        p["ct"] = 0 if rng.random() < rng.choice([1.0, 0.9, 0.6]) else rng.randrange(1, 7)
        peers.append(p)
    return peers


def fix_netgroup_cut(rng, peers):
    """Make the cut 'last 4 by net group' fall between two different net groups (no tie at the cut)."""
    el = sorted([p for p in peers if eligible(p)], key=lambda p: p["ng"])
    if len(el) > 4 and el[-4]["ng"] == el[-5]["ng"]:
        top = max(p["ng"] for p in el)
        if top >= 2 ** 64 - 1:
            for p in el:
                if p["ng"] == 2 ** 64 - 1:
                    p["ng"] = 2 ** 64 - 2
            el = sorted(el, key=lambda p: p["ng"])
            if el[-4]["ng"] != el[-5]["ng"]:
                return
            top = 2 ** 64 - 2
        for p in el[-4:]:
            p["ng"] = top + 1


def gen_random_det(rng, tag="A", n=None):
    n = pick_n(rng) if n is None else n
    peers = random_peers(rng, n, ties=False)
    fix_netgroup_cut(rng, peers)
    return line("sel", tag, peers)


def gen_boundary(rng):
    ne = rng.choice([19, 20, 21, 22, 23, 24, 25, 26, 27, 28, 29, 30, 31])
    extra = rng.randrange(0, 5)
    peers = random_peers(rng, ne + extra, ties=False)
    for i, p in enumerate(peers):
        p["noban"] = False
        p["ct"] = 0
        if i >= ne:
            if rng.random() < 0.5:
                p["noban"] = True
            else:
                p["ct"] = rng.randrange(1, 7)
    nbro = rng.randrange(0, 11)
    for i, p in enumerate(peers[:ne]):
        if i < nbro:
            p["relay"], p["rel"] = False, True
        else:
            p["relay"] = True if rng.random() < 0.8 else p["relay"]
    rng.shuffle(peers)
    fix_netgroup_cut(rng, peers)
    return line("sel", "C", peers)


RULES = {"ng": 4, "ping": 8, "tx": 4, "bro": 8, "blk": 4}


def gen_aimed(rng):
    """All net groups, pings, connection times distinct; the youngest peer T is ranked j under rule R only."""
    R = rng.choice(["ng", "ping", "tx", "bro", "blk", "noban", "outbound", "none"])
    k = RULES.get(R, 0)
    j = rng.choice([k - 1, k, k, k + 1]) if k else 0
    nfill = rng.randrange(14, 45)
    sizes = dict(RULES)
    sizes["bro"] = rng.choice([0, 3, 7, 8, 8])
    if k:
        sizes[R] = (k - 1) if j <= k else k        # T is one of the protected iff j <= k
    nid = [0]

    def new(**kw):
        p = base_peer(rng, nid[0]); nid[0] += 1
        p.update(relay=True, rel=rng.random() < 0.5, bloom=rng.random() < 0.2, tx=0, blk=0, pref=False, loc=False,
                 net=rng.choice([NET_IPV4, NET_IPV6]))
        p.update(kw)
        return p
    total = nfill + sum(sizes.values()) + 1
    conns = rng.sample(range(1000, 1000 + 4 * total), total)
    low_ngs = rng.sample(range(1, 10 ** 6), total)
    mid_pings = rng.sample(range(10 ** 4, 10 ** 6), total)
    hi_base = rng.choice([2 * 10 ** 6, 2 ** 63 - 50, 2 ** 64 - 3000])
    peers = []
    elite = {}
    for r, sz in sizes.items():
        elite[r] = [new() for _ in range(sz)]
        peers += elite[r]
    fill = [new() for _ in range(nfill)]
    for f in fill:
        if rng.random() < 0.25:
            f["relay"], f["rel"] = False, False     # non-relay without relevant services: never protected by the bro rule
    peers += fill
    for i, p in enumerate(peers):
        p["conn"], p["ng"], p["ping"] = conns[i], low_ngs[i], mid_pings[i]
    T = new(conn=1000 + 4 * total + 7, ng=low_ngs[-1], ping=10 ** 7, relay=True)
    # elite attributes, best first; T is inserted at rank j of its rule
    def ranks(r, n):
        vals = sorted(rng.sample(range(1, 900), n + 1), reverse=True)   # vals[0] best
        return vals
    for r in sizes:
        n = sizes[r]
        vals = ranks(r, n)
        members = list(elite[r])
        rng.shuffle(members)
        if r == R:
            members.insert(j - 1 if j <= k else n, T)
        for m, v in zip(members, vals):
            if r == "ng":
                m["ng"] = hi_base + v
            elif r == "ping":
                m["ping"] = 1000 - v          # lower is better
            elif r == "tx":
                m["tx"] = 5000 + v
            elif r == "blk":
                m["blk"] = 7000 + v
            elif r == "bro":
                m["blk"] = 100 + v            # below the block-rule elite, so rank 9 here is not rescued by the block rule
                m["relay"], m["rel"] = False, True
    if R == "noban":
        T["noban"] = True
    if R == "outbound":
        T["ct"] = rng.randrange(1, 7)
    # decoys: noban / outbound peers with the best attributes of all, younger than everybody
    for d in range(rng.randrange(0, 4)):
        peers.append(new(conn=T["conn"] + 10 + d, ng=min(2 ** 64 - 1, hi_base + 1000 + d), ping=d + 1, tx=9000 + d, blk=9500 + d,
                         noban=(d % 2 == 0), ct=(0 if d % 2 == 0 else rng.randrange(1, 7))))
    if rng.random() < 0.15:
        T["pref"] = True
    peers.append(T)
    rng.shuffle(peers)
    return line("sel", "E", peers)


def gen_ties(rng):
    n = rng.choice([rng.randrange(0, 30), rng.randrange(20, 45), rng.randrange(20, 45), rng.randrange(45, 136)])
    return line("sel", "B", random_peers(rng, n, ties=rng.choice(["light", "light", "light", "heavy"])))


def gen_ratio(rng, ties):
    n = rng.choice([rng.randrange(0, 13), rng.randrange(0, 13), rng.randrange(13, 49), rng.randrange(49, 136)])
    peers = random_peers(rng, n, ties=(rng.choice(["light", "light", "heavy"]) if ties else False))
    mode = rng.random()
    counts = [rng.choice([0, 0, 1, 2, 3, n // 4, n // 2]) for _ in range(4)]   # onion, i2p, cjdns, local
    if mode < 0.7:
        idx = list(range(n))
        rng.shuffle(idx)
        for p in peers:
            p["net"], p["loc"] = rng.choice([NET_IPV4, NET_IPV6]), False
        pos = 0
        for netid, c in zip((NET_ONION, NET_I2P, NET_CJDNS, None), counts):
            for _ in range(c):
                if pos >= n:
                    break
                p = peers[idx[pos]]; pos += 1
                if netid is None:
                    p["loc"] = True
                    if rng.random() < 0.3:
                        p["net"] = NET_ONION      # a local onion peer counts for two networks
                else:
                    p["net"] = netid
    return line("ratio", "RB" if ties else "RD", peers)


def gen(rng, tier):
    """Aimed cases first: the runner examines only the first few disagreeing / failing cases in detail."""
    m = 1 if tier == "quick" else 20
    cases = []
    for _ in range(420 * m):
        cases.append(gen_aimed(rng))
    for _ in range(260 * m):
        cases.append(gen_ratio(rng, False))
    for _ in range(160 * m):
        cases.append(gen_boundary(rng))
    cases.append("sel A")
    cases.append("ratio RD")
    for n in (1, 4, 5, 12, 13, 16, 17, 20, 21, 24, 25, 28, 29, 30, 33):
        cases.append(gen_random_det(rng, "A", n))
    for _ in range(260 * m):
        cases.append(gen_random_det(rng))
    for _ in range(200 * m):
        cases.append(gen_ties(rng))
    for _ in range(120 * m):
        cases.append(gen_ratio(rng, True))
    return cases


def shrink(case):
    """Drop candidates (halves first, then one at a time); the shrunk case is judged modulo tie orders."""
    t = case.split()
    kind, tag, cs = t[0], t[1], t[2:]
    tag2 = "RB" if kind == "ratio" else "B"
    n = len(cs)
    if n > 3:
        yield " ".join([kind, tag2] + cs[: n // 2])
        yield " ".join([kind, tag2] + cs[n // 2:])
    for i in range(n):
        yield " ".join([kind, tag2] + cs[:i] + cs[i + 1:])


class FollowTie(Tie):
    """The model is a relation (any ordering of comparator ties). `model` prints the answer of its stable-sort
    instance; where the implementation answered differently on a case tagged as having ties, the model driver
    is asked (mode `allowed`) whether the implementation's answer is the model's answer for some ordering of
    the ties (exhaustive search with a budget; `undecided` counts as allowed and is reported on stderr)."""
    BUDGET = 600
    SECONDS = 40          # cpu time for all searches of a quick run (scaled up with the number of cases); searches
                          # not done within it are accepted like "undecided" (counted on stderr), never reported:
                          # a broken tree produces many disagreements, but those on the exact classes stay visible

    def run_impl(self, cpp, cases):
        out = super().run_impl(cpp, cases)
        if not hasattr(self, "_impl"):
            self._impl = {}
        self._impl.update(zip(cases, out))
        return out

    def run_model(self, mdl, cases):
        out = super().run_model(mdl, cases)
        impl = getattr(self, "_impl", {})
        idx = [i for i, c in enumerate(cases)
               if c.split(" ", 2)[1:2] in (["B"], ["RB"]) and c in impl and impl[c] != out[i]]
        seconds = self.SECONDS * max(1, len(cases) // 1500)
        if idx:
            lines = [cases[i] + " => " + impl[cases[i]] for i in idx]
            rc, ans, err = core.run_lines(mdl, ["allowed", str(self.BUDGET), str(seconds)], lines, self.timeout)
            und = 0
            if len(ans) == len(idx):
                for i, a in zip(idx, ans):
                    if a in ("yes", "undecided", "skipped"):     # skipped: the time budget of the search ran out
                        out[i] = impl[cases[i]]
                        und += a != "yes"
            if len(cases) > 1:
                sys.stderr.write("[C59] %d answers differing from the stable-sort instance on tie cases: %d allowed by "
                                 "another tie order, %d undecided (search budget or time), %d not allowed\n"
                                 % (len(idx), sum(a == "yes" for a in ans), und, sum(a == "no" for a in ans)))
        return out


TIES = [FollowTie("select_node_to_evict", "tie/drivers/eviction_drv.cpp", "Extract_Eviction.v", "eviction_driver.ml", gen,
                  predicate="driver", nontrivial=lambda c: len(c.split()) > 2,
                  classify=lambda c: " ".join(c.split(" ", 2)[:2]), shrink=shrink)]

LEVEL_TEXT = ("Coq theorems for ALL candidate vectors and EVERY std::sort that returns a comparator-sorted permutation (i.e. every ordering of "
              "ties): the function always returns; the evicted peer is a candidate, inbound and not noban; it is never a peer that is surely "
              "among the last 4 by net group / 8 by ping / 4 by tx time / 4 by block time / 8 block-relay-only by block time of the eligible "
              "candidates (also in the property's plain-attribute wording over all candidates); ProtectEvictionCandidatesByRatio removes at "
              "most n/4 peers, all onion/localhost/I2P/CJDNS, then the longest connected, leaving exactly n - n/2, without size_t underflow "
              "and with the assert true; nullopt iff nothing is left (never with >= 29 eligible, always with <= 20); the evicted peer is the "
              "most recently connected member of the most populous net group among what is left. The executable predicate is proved sound. "
              "Model tied to the real functions by differential execution (exact where the answer is unique, modulo tie order elsewhere).")
LEVEL_NOTE = ("Trusted: Coq kernel; extraction and driver glue; the hand transcription of eviction.cpp, checked by correspondence. "
              "std::sort is modelled by its contract (sort_spec), which the C++ standard only gives for strict weak orderings: proved for all "
              "seven comparators. On cases with comparator ties the implementation's answer is compared modulo tie order by a bounded "
              "exhaustive search in the OCaml glue (undecided = accepted, count printed on stderr).")
TECHNIQUE = "Coq proof (multiset/sortedness invariants, loop invariants with fuel) + differential correspondence modulo tie order"
