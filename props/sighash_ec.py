"""Minimal secp256k1 arithmetic for the C10 case generator (python stdlib only).
Used ONLY to derive public keys / taproot output keys that the case lines mention, so that the model
side needs no curve arithmetic; the C++ driver re-derives every key with the real library and
reports BADKEY on a mismatch, so an error here cannot go unnoticed."""
import hashlib

P = 0xFFFFFFFFFFFFFFFFFFFFFFFFFFFFFFFFFFFFFFFFFFFFFFFFFFFFFFFEFFFFFC2F
N = 0xFFFFFFFFFFFFFFFFFFFFFFFFFFFFFFFEBAAEDCE6AF48A03BBFD25E8CD0364141
G = (0x79BE667EF9DCBBAC55A06295CE870B07029BFCDB2DCE28D959F2815B16F81798,
     0x483ADA7726A3C4655DA4FBFC0E1108A8FD17B448A68554199C47D08FFB10D4B8)


def _jdouble(p):
    x, y, z = p
    if y == 0:
        return (0, 1, 0)
    s = (4 * x * y * y) % P
    m = (3 * x * x) % P
    nx = (m * m - 2 * s) % P
    ny = (m * (s - nx) - 8 * y * y * y * y) % P
    nz = (2 * y * z) % P
    return (nx, ny, nz)


def _jadd(p, q):
    if p[2] == 0: return q
    if q[2] == 0: return p
    x1, y1, z1 = p; x2, y2, z2 = q
    z1z1 = z1 * z1 % P; z2z2 = z2 * z2 % P
    u1 = x1 * z2z2 % P; u2 = x2 * z1z1 % P
    s1 = y1 * z2 * z2z2 % P; s2 = y2 * z1 * z1z1 % P
    if u1 == u2:
        if s1 != s2:
            return (0, 1, 0)
        return _jdouble(p)
    h = (u2 - u1) % P; r = (s2 - s1) % P
    h2 = h * h % P; h3 = h * h2 % P; u1h2 = u1 * h2 % P
    nx = (r * r - h3 - 2 * u1h2) % P
    ny = (r * (u1h2 - nx) - s1 * h3) % P
    nz = h * z1 * z2 % P
    return (nx, ny, nz)


def _affine(p):
    x, y, z = p
    if z == 0:
        return None
    zi = pow(z, -1, P)
    return (x * zi * zi % P, y * zi * zi * zi % P)


def mul(k, pt=G):
    k %= N
    r = (0, 1, 0)
    a = (pt[0], pt[1], 1)
    while k:
        if k & 1:
            r = _jadd(r, a)
        a = _jdouble(a)
        k >>= 1
    return _affine(r)


def add(p, q):
    if p is None: return q
    if q is None: return p
    return _affine(_jadd((p[0], p[1], 1), (q[0], q[1], 1)))


def lift_x(x):
    y2 = (pow(x, 3, P) + 7) % P
    y = pow(y2, (P + 1) // 4, P)
    if y * y % P != y2:
        return None
    return (x, y if y % 2 == 0 else P - y)


def pub_compressed(priv):
    x, y = mul(priv)
    return bytes([2 + (y & 1)]) + x.to_bytes(32, "big")


def pub_uncompressed(priv):
    x, y = mul(priv)
    return b"\x04" + x.to_bytes(32, "big") + y.to_bytes(32, "big")


def pub_xonly(priv):
    return mul(priv)[0].to_bytes(32, "big")


def tagged(tag, data):
    t = hashlib.sha256(tag.encode()).digest()
    return hashlib.sha256(t + t + data).digest()


def compact_size(n):
    if n < 253: return bytes([n])
    if n <= 0xffff: return b"\xfd" + n.to_bytes(2, "little")
    return b"\xfe" + n.to_bytes(4, "little")


def tapleaf(script, leaf_version=0xc0):
    return tagged("TapLeaf", bytes([leaf_version]) + compact_size(len(script)) + script)


def taproot_output(internal_x, merkle_root):
    """(output key x-only bytes, parity) for an internal x-only key and a merkle root (bytes)"""
    Pt = lift_x(int.from_bytes(internal_x, "big"))
    t = int.from_bytes(tagged("TapTweak", internal_x + merkle_root), "big")
    assert t < N
    Q = add(Pt, mul(t))
    return Q[0].to_bytes(32, "big"), Q[1] & 1
