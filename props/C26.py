from vlib.runner import Tie
from vlib import core

ID = "C26"
LEVEL = "translation_validation"
DESIGN_REF = "DESIGN.md section 5, C26"
PROP_FILES = ["props/Properties_C26.v"]
RULE = ("cases: a history `add` (build and submit a transaction spending confirmed anyone-can-spend coins u<k> or earlier outputs) / "
        "`prio` (PrioritiseTransaction), then one candidate `rbf` (AcceptToMemoryPool) or `pkg` (2-transaction ProcessNewPackage). "
        "Histories: chains, trees and independent transactions of 1..8 entries, with prioritisation deltas (so modified fee != fee); TRUC "
        "(version 3) parent with one child and a second child as candidate (sibling eviction); 99..102 independent conflicts (cluster "
        "limit); 1-parent-1-child package replacing a transaction. Candidates double-spend one input of each chosen target, optionally "
        "add fresh coins, optionally spend an output of an unrelated / an evicted transaction; candidate fee at (sum of evicted "
        "MODIFIED fees + ceil(100*vsize/1000)) -1/0/+1, the same with BASE fees, the same with the evicted size instead of its own, "
        "and well above; plus a cheap large surviving parent whose evicted child is smaller than the candidate, with candidate fees "
        "across [evicted fees + incr(evicted size), evicted fees + incr(own size)]. Observed: mempool (modified fee, vsize) before, GetFeerateDiagram before/after, result, replaced list, "
        "mempool after. Non-trivial: the candidate has at least one direct conflict; distinct = distinct case lines.")
ASSUMPTIONS = ["the node's acceptance logic is NOT modelled as a whole: every ACCEPTED replacement observed is checked by rbf_accept_ok "
               "(soundness proved: evicted set = descendant closure of direct conflicts incl. TRUC sibling, fee >= evicted modified "
               "fees + incremental fee for own vsize, no spent output of an evicted tx, conflicts within <= 100 clusters, mempool "
               "diagram strictly better); every REJECTED candidate must leave the mempool unchanged",
               "PaysForRBF, conflict collection, descendant closure and the TRUC sibling selection are hand transcriptions; the "
               "incremental relay feerate, MAX_REPLACEMENT_CANDIDATES and TRUC_VERSION are regenerated from the compiled tree",
               "'diagram strictly improves' is judged on CTxMemPool::GetFeerateDiagram() (whole mempool) read before and after the "
               "acceptance, compared by the compare_chunks model proved equal to the diagram order (C30)",
               "mempool entries are listed in acceptance order, so parents precede children (checked: wf_pool_b)"]
TRUSTED = ["Coq 8.16.1 kernel (coqc; no native_compute)", "tie/dump_params.cpp + tie/params/rbf.h print the three constants",
           "extraction: ExtrOcamlBasic only; ocaml/conv.ml + rbf_driver.ml glue (parsing, name->id mapping, summing a package's fees/vsizes)",
           "tie/drivers/rbf_drv.cpp: TestChain100Setup regtest node, P2WSH(OP_TRUE) transactions, AcceptToMemoryPool / ProcessNewPackage, "
           "PrioritiseTransaction, entryAll(), GetFeerateDiagram()",
           "props/C26.py RbfTie: only the 'POOL' section (names in the mempool before the candidate) is compared textually"]


def push_len(n):
    return 1 + n if n <= 75 else (2 + n if n <= 255 else 3 + n)


def vsize(nin, nout, pad):
    base = 4 + 1 + 41 * nin + 1 + 43 * nout + 4
    if pad > 0:
        script = 1 + push_len(pad)
        base += 8 + 1 + script
    weight = 4 * base + 2 + 3 * nin
    return (weight + 3) // 4


def incr_fee(vs):
    return -((-100 * vs) // 1000)


class Hist:
    """python mirror of the history: enough to pick conflicts and compute thresholds"""
    def __init__(self):
        self.txs = []          # dicts: name ver fee nout pad ins prio
        self.next_coin = 0
        self.spent = {}        # outpoint -> tx name

    def coin(self):
        c = self.next_coin
        self.next_coin += 1
        return ("u%d" % c, 0)

    def add(self, name, ver, fee, nout, pad, ins):
        t = dict(name=name, ver=ver, fee=fee, nout=nout, pad=pad, ins=list(ins), prio=0)
        self.txs.append(t)
        for op in ins:
            self.spent[op] = name
        return t

    def get(self, name):
        return next(t for t in self.txs if t["name"] == name)

    def unspent_outputs(self):
        return [(t["name"], i) for t in self.txs for i in range(t["nout"]) if (t["name"], i) not in self.spent]

    def descendants(self, names):
        ev = set(names)
        changed = True
        while changed:
            changed = False
            for t in self.txs:
                if t["name"] not in ev and any(s in ev for (s, _) in t["ins"]):
                    ev.add(t["name"]); changed = True
        return ev

    def line(self, t, kind):
        return "%s %s %d %d %d %d %d %s" % (kind, t["name"], t["ver"], t["fee"], t["nout"], t["pad"], len(t["ins"]),
                                            " ".join("%s %d" % op for op in t["ins"]))

    def ops(self):
        out = []
        for t in self.txs:
            out.append(self.line(t, "add"))
        for t in self.txs:
            if t["prio"]:
                out.append("prio %s %d" % (t["name"], t["prio"]))
        return out


def rand_history(rng, ver=2):
    h = Hist()
    n = rng.randrange(1, 9)
    for k in range(n):
        ins = []
        avail = h.unspent_outputs()
        nin = rng.choice([1, 1, 1, 2])
        for _ in range(nin):
            if avail and rng.random() < 0.6:
                op = rng.choice(avail); avail.remove(op); ins.append(op)
            else:
                ins.append(h.coin())
        h.add("t%d" % k, ver, rng.choice([200, 300, 500, 1000, 2000, rng.randrange(150, 4000)]), rng.choice([1, 1, 2, 2, 3]),
              rng.choice([0, 0, 0, 20]), ins)
    for t in h.txs:
        if rng.random() < 0.3:
            t["prio"] = rng.choice([100, 1000, 5000, -50, -100, rng.randrange(-120, 3000)])
    return h


def fee_choices(rng, h, ev, cvs):
    mod = sum(h.get(n)["fee"] + h.get(n)["prio"] for n in ev)
    base = sum(h.get(n)["fee"] for n in ev)
    evsize = sum(vsize(len(h.get(n)["ins"]), h.get(n)["nout"], h.get(n)["pad"]) for n in ev)
    t_mod = mod + incr_fee(cvs)
    t_base = base + incr_fee(cvs)
    t_old = mod + incr_fee(evsize)
    cands = [t_mod - 1, t_mod, t_mod + 1, t_base - 1, t_base, t_base + 1, t_old - 1, t_old, t_old + 1, mod, mod - 1, mod + 1,
             t_mod + rng.randrange(0, 50), 3 * t_mod + 1000, t_mod + 5000, max(200, t_mod // 2)]
    return [f for f in cands if f >= 150]


def gen_random(rng, out):
    h = rand_history(rng)
    targets = rng.sample(h.txs, rng.randrange(1, min(3, len(h.txs)) + 1))
    ins = []
    for t in targets:
        op = rng.choice(t["ins"])
        if op not in ins:
            ins.append(op)
    direct = {h.spent[op] for op in ins}
    ev = h.descendants(direct)
    mode = rng.random()
    if mode < 0.25:
        ins.append(h.coin())
    elif mode < 0.45:
        avail = [op for op in h.unspent_outputs() if op[0] not in ev]
        if avail:
            ins.append(rng.choice(avail))
    elif mode < 0.6:
        avail = [op for op in h.unspent_outputs() if op[0] in ev]
        if avail:
            ins.append(rng.choice(avail))           # spends something it would evict
    nout = rng.choice([1, 1, 2, 3, 5, 8])
    pad = rng.choice([0, 0, 30, 70])
    cvs = vsize(len(ins), nout, pad)
    for fee in rng.sample(fee_choices(rng, h, ev, cvs), 4):
        cand = dict(name="new", ver=2, fee=fee, nout=nout, pad=pad, ins=ins)
        if any(t["ins"] == ins and t["nout"] == nout and t["pad"] == pad and t["fee"] == fee for t in h.txs):
            continue      # would be the very same transaction (txn-already-in-mempool)
        out.append(" ; ".join(h.ops() + [h.line(cand, "rbf")]))


def gen_truc(rng, out):
    h = Hist()
    pfee = rng.choice([300, 1000, 2000])
    p = h.add("p", 3, pfee, 2, 0, [h.coin()])
    cfee = rng.choice([300, 500, 1500])
    c = h.add("c", 3, cfee, 1, 0, [("p", 0)])
    if rng.random() < 0.4:
        c["prio"] = rng.choice([500, 2000, -100])
    kind = rng.random()
    if kind < 0.6:
        ins = [("p", 1)]              # second child: sibling eviction
    elif kind < 0.8:
        ins = [("p", 0)]              # direct conflict with the child
    else:
        ins = [("p", 1), h.coin()]
    nout = rng.choice([1, 2, 4])
    cvs = vsize(len(ins), nout, 0)
    ev = {"c"}
    for fee in rng.sample(fee_choices(rng, h, ev, cvs), 4):
        cand = dict(name="new", ver=3, fee=fee, nout=nout, pad=0, ins=ins)
        if any(t["ins"] == ins and t["nout"] == nout and t["fee"] == fee and t["ver"] == 3 for t in h.txs):
            continue
        out.append(" ; ".join(h.ops() + [h.line(cand, "rbf")]))
    # a non-TRUC second child (no sibling eviction: TRUC violation)
    cand = dict(name="new", ver=2, fee=5000, nout=1, pad=0, ins=[("p", 1)])
    out.append(" ; ".join(h.ops() + [h.line(cand, "rbf")]))


def gen_lowparent(rng, out):
    """a cheap large parent P whose child E pays for it; the candidate N (larger than E) conflicts with E only.
    P survives as a low-feerate chunk, so the diagram can improve although N adds less than the incremental
    fee for its OWN size (only the rule on the additional fee stops it)."""
    h = Hist()
    pn = rng.choice([6, 8, 10])
    pvs = vsize(1, pn, 0)
    h.add("p", 2, pvs // 10 + rng.choice([1, 2, 5]), pn, 0, [h.coin()])
    k = h.coin()
    efee = rng.choice([1000, 1500, 4000])
    e = h.add("e", 2, efee, 1, 0, [("p", 0), k])
    if rng.random() < 0.3:
        e["prio"] = rng.choice([200, -100])
    ins = [k]
    nout = rng.choice([4, 5, 6, 8])
    cvs = vsize(1, nout, 0)
    evs = vsize(2, 1, 0)
    mod = efee + e["prio"]
    lo, hi = mod + incr_fee(evs), mod + incr_fee(cvs)
    for fee in sorted({lo - 1, lo, lo + 1, (lo + hi) // 2, hi - 2, hi - 1, hi, hi + 1}):
        cand = dict(name="new", ver=2, fee=fee, nout=nout, pad=0, ins=ins)
        out.append(" ; ".join(h.ops() + [h.line(cand, "rbf")]))


def gen_many(rng, out, n):
    h = Hist()
    ins = []
    for k in range(n):
        op = h.coin()
        h.add("t%d" % k, 2, 200, 1, 0, [op])
        ins.append(op)
    cvs = vsize(n, 1, 0)
    total = 200 * n + incr_fee(cvs)
    for fee in (total - 1, total, total + 50000):
        cand = dict(name="new", ver=2, fee=fee, nout=1, pad=0, ins=ins)
        out.append(" ; ".join(h.ops() + [h.line(cand, "rbf")]))


def gen_pkg(rng, out):
    h = Hist()
    op = h.coin()
    afee = rng.choice([500, 1000, 3000])
    a = h.add("a", 2, afee, rng.choice([1, 2]), 0, [op])
    if rng.random() < 0.5:
        h.add("b", 2, rng.choice([300, 2000]), 1, 0, [("a", 0)])
    if rng.random() < 0.3:
        a["prio"] = rng.choice([1000, -100])
    ev = h.descendants({"a"})
    pvs, cvs = vsize(1, 1, 0), vsize(1, 1, 0)
    mod = sum(h.get(n)["fee"] + h.get(n)["prio"] for n in ev)
    need = mod + incr_fee(pvs + cvs)
    pfee = rng.choice([150, 200, afee // 2 + 150])
    for tot in (need - 1, need, need + 1, need + 3000, 2 * need + 2000):
        cf = tot - pfee
        if cf < 150:
            continue
        p = dict(name="pp", ver=2, fee=pfee, nout=1, pad=0, ins=[op])
        c = dict(name="pc", ver=2, fee=cf, nout=1, pad=0, ins=[("pp", 0)])
        out.append(" ; ".join(h.ops() + [h.line(p, "pkg") + " , " + h.line(c, "")[1:]]))


def gen(rng, tier):
    k = 1 if tier == "quick" else 15
    out = ["add a 2 1000 1 0 1 u0 0 ; rbf new 2 3000 1 0 1 u0 0",
           "add a 2 1000 2 0 1 u0 0 ; add c 2 500 1 0 1 a 0 ; prio c 5000 ; rbf new 2 3000 1 0 1 u0 0",
           "add a 2 1000 2 0 1 u0 0 ; rbf new 2 3000 1 0 2 u0 0 a 1",
           "add p 3 1000 2 0 1 u0 0 ; add c 3 500 1 0 1 p 0 ; rbf new 3 3000 1 0 1 p 1"]
    for _ in range(330 * k):
        gen_random(rng, out)
    for _ in range(40 * k):
        gen_truc(rng, out)
    for _ in range(30 * k):
        gen_pkg(rng, out)
    for _ in range(25 * k):
        gen_lowparent(rng, out)
    for n in (99, 100, 101, 102):
        gen_many(rng, out, n)
    return out


def nontrivial(c):
    # the candidate double-spends an outpoint that a history transaction spends
    ops = [o.split() for o in c.split(" ; ")]
    spent = set()
    for o in ops[:-1]:
        if o[0] == "add":
            nin = int(o[6])
            for j in range(nin):
                spent.add((o[7 + 2 * j], o[8 + 2 * j]))
    last = ops[-1]
    nin = int(last[6])
    return any((last[7 + 2 * j], last[8 + 2 * j]) in spent for j in range(nin))


class RbfTie(Tie):
    """Translation validation (same device as props/C24.py): only the section before ' ## ' is predicted by the
    model; the implementation's remaining sections are appended to the model line, and judged by `holds`."""
    def __init__(self, *a, **kw):
        super().__init__(*a, **kw)
        self._impl = {}

    def run_impl(self, cpp, cases):
        out = super().run_impl(cpp, cases)
        for c, o in zip(cases, out):
            self._impl[c] = o
        return out

    def run_model(self, mdl, cases):
        out = super().run_model(mdl, cases)
        res = []
        for c, o in zip(cases, out):
            io = self._impl.get(c, "")
            tail = io.split(" ##", 1)[1] if " ##" in io else ""
            res.append(o + tail if o.endswith("##") else o)
        return res


TIES = [RbfTie("rbf_atmp", "tie/drivers/rbf_drv.cpp", "Extract_Rbf.v", "rbf_driver.ml", gen,
               predicate="driver", nontrivial=nontrivial, classify=lambda c: c.split(" ; ")[-1].split()[0] + ("/truc" if c.split(" ; ")[-1].split()[2] == "3" else ""))]

LEVEL_TEXT = ("Translation validation with a proved check, plus theorems on the rule model. Proved in Coq: PaysForRBF (with the generated "
              "incremental relay feerate) accepts iff replacement >= original and additional*1000 >= rate*vsize; the one-pass descendant "
              "marking is exactly the descendant closure; input conflicts are exactly the mempool transactions sharing an outpoint; and "
              "rbf_accept_ok = true implies, for that acceptance: evicted = closure of (input conflicts + TRUC sibling), replaced list = "
              "evicted, mempool after = before - evicted + new, fee >= sum of evicted MODIFIED fees, additional fee >= incremental fee for "
              "the new vsize, no input spends an evicted transaction, the direct conflicts lie in <= MAX_REPLACEMENT_CANDIDATES "
              "clusters, and the mempool diagram after is >= before everywhere and > somewhere (via C30's CompareChunks theorem). The "
              "real node (regtest, AcceptToMemoryPool / ProcessNewPackage) is driven with histories and candidates at every fee "
              "threshold; every acceptance is checked, every rejection must leave the mempool unchanged.")
LEVEL_NOTE = ("Not proved: that ReplacementChecks/PackageRBFChecks enforce the clauses for every mempool; established per observed acceptance. "
              "Rejections are only checked for leaving the mempool untouched (the property is 'accepted only if'). The TRUC sibling "
              "selection is a transcription of SingleTRUCChecks (no declarative spec). The cluster bound is proved in the sound "
              "direction only (a covering by <= 100 linked groups). Package RBF: totals are summed by the OCaml glue; the "
              "package-feerate-above-parent rule is not checked. Framework workaround: RbfTie subclass as in C24.")
TECHNIQUE = "Coq proofs on the rule model + verified check of every acceptance observed on the real node"
