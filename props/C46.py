from vlib.runner import Tie
from vlib import core

ID = "C46"
LEVEL = "translation_validation"
DESIGN_REF = "DESIGN.md section 5, C46"
PROP_FILES = ["props/Properties_C46.v"]
RULE = ("cases: sign <descriptor> avail=<keys with private key> pubs=<keys whose pubkey can be looked up> scripts=<redeem/witness "
        "scripts known> pre=<available preimages> lt/seq/ver (the spending transaction) bogus=<keys with a pre-existing invalid "
        "partial signature> pol=<policy>. The real descriptor parser derives the output script, the real ProduceSignature signs "
        "with the restricted provider, then an independent VerifyScript (standard flags) judges the produced spend. Descriptors: "
        "every standard template pk/pkh/wpkh/multi(k of n<=8) bare and under sh(.), wsh(.), sh(wsh(.)) with availability masks "
        "aimed at k-1/k/k+1 available keys, missing public keys, missing scripts; miniscript under wsh(.) from 14 sane shapes "
        "(and_v/or_d/or_i/or_c/andor/thresh/multi with pk, pkh, older, after, sha256) and taproot key path / script trees, with "
        "nSequence and nLockTime at the timelock -1/0/+1, type-flag mismatches, disable flag, final sequence, version 1. "
        "Template descriptors are compared field by field (complete, scriptSig shape, witness shape incl. which key made each "
        "signature) with the Gallina transcription of SignStep/ProduceSignature; all cases are judged by: complete => "
        "VerifyScript ok; signatures only by available keys; complete => the policy is satisfiable with the available keys / "
        "preimages / timelocks (and the converse, for the sane shapes generated). non-trivial = every case; distinct = lines.")
ASSUMPTIONS = ["signatures are abstracted in the model (element 'signature by key k'); that a produced signature verifies, and only "
               "under its key, is established per case by the driver (ECDSA verification of every signature element against the "
               "candidate script codes) and by the independent VerifyScript",
               "the miniscript satisfier (miniscript.h) is not modelled: for policies the Coq side only evaluates the spending "
               "condition semantically (ms_sat) and the correspondence checks complete <=> satisfiable on the generated shapes",
               "'never fakes a satisfaction' is decided by the executed oracle: an independent VerifyScript with "
               "STANDARD_SCRIPT_VERIFY_FLAGS on the produced scriptSig/witness"]
TRUSTED = ["Coq 8.16.1 kernel",
           "extraction: ExtrOcamlBasic only; ocaml/conv.ml + signing_driver.ml glue (descriptor / policy text -> model terms)",
           "tie/drivers/signing_drv.cpp: descriptor -> script via the real parser, restricted FlatSigningProvider, real "
           "ProduceSignature, independent VerifyScript, classification of stack elements"]

NK = 8
TF = 1 << 22


def popcount(x):
    return bin(x).count("1")


def mask_of(keys):
    m = 0
    for k in keys:
        m |= 1 << k
    return m


def pick_avail(rng, keys, need):
    """availability aimed at need-1 / need / need+1 of the script's keys, plus unrelated keys"""
    r = rng.random()
    if r < 0.6:
        n = max(0, min(len(keys), need + rng.choice([-1, 0, 0, 1])))
        sel = rng.sample(keys, n)
    elif r < 0.8:
        sel = [k for k in keys if rng.random() < 0.5]
    else:
        sel = list(keys) if rng.random() < 0.5 else []
    m = mask_of(sel)
    for k in range(NK):
        if k not in keys and rng.random() < 0.2:
            m |= 1 << k
    return m


def template_case(rng):
    kind = rng.choice(["pk", "pkh", "wpkh", "multi", "multi", "multi"])
    keys = rng.sample(range(NK), NK)
    if kind == "multi":
        wrap = rng.choice(["bare", "sh", "wsh", "shwsh", "wsh", "sh"])
        n = rng.randrange(1, 4) if wrap == "bare" else rng.randrange(1, 9)
        m = rng.randrange(1, n + 1)
        ks = keys[:n]
        inner = "multi(%d,%s)" % (m, ",".join("K%d" % k for k in ks))
        need = m
    else:
        wrap = rng.choice(["bare", "sh", "bare"] if kind == "wpkh" else ["bare", "sh", "wsh", "shwsh"])
        ks = keys[:1]
        inner = "%s(K%d)" % (kind, ks[0])
        need = 1
    d = {"bare": inner, "sh": "sh(%s)" % inner, "wsh": "wsh(%s)" % inner, "shwsh": "sh(wsh(%s))" % inner}[wrap]
    opts = ["avail=%d" % pick_avail(rng, ks, need)]
    if rng.random() < 0.25:
        opts.append("pubs=%d" % (rng.randrange(0, 256) if rng.random() < 0.5 else 0))
    if rng.random() < 0.15:
        opts.append("scripts=0")
    if rng.random() < 0.07:
        opts.append("bogus=%d" % (1 << rng.choice(ks)))
    if rng.random() < 0.2:
        opts.append("amt=%d" % rng.choice([546, 1000, 2100000000000000]))
    return "sign %s %s" % (d, " ".join(opts))


def timelock_tx(rng, older=None, after=None):
    """transaction fields aimed at the timelocks"""
    o = []
    seq = 0xfffffffe
    if older is not None:
        base = older
        seq = rng.choice([base - 1, base, base, base + 1, base | (1 << 31), base ^ TF, 0, 0xfffffffe, 0xffffffff, (base & 0xffff) | (base & TF) | (7 << 16)])
        seq &= 0xffffffff
        if rng.random() < 0.12:
            o.append("ver=1")
    lt = 0
    if after is not None:
        lt = rng.choice([after - 1, after, after, after + 1, 0, 499999999, 500000000, 4294967295])
        if older is None and rng.random() < 0.2:
            seq = 0xffffffff
    o.append("seq=%d" % max(0, seq))
    o.append("lt=%d" % max(0, lt))
    return o


def policy_case(rng):
    a, b, c, d = rng.sample(range(NK), 4)
    N = rng.choice([1, 5, 10, 144, 65535, 65536 + 3, TF | 1, TF | 512])
    M = rng.choice([1, 100, 499999999, 500000000, 1700000000])
    h = rng.randrange(0, 4)
    shape = rng.randrange(0, 14)
    older = after = None
    keys = [a]
    if shape == 0:
        desc, pol, older = "wsh(and_v(v:pk(K%d),older(%d)))" % (a, N), "and(pk%d,older%d)" % (a, N), N
    elif shape == 1:
        desc, pol, after = "wsh(and_v(v:pk(K%d),after(%d)))" % (a, M), "and(pk%d,after%d)" % (a, M), M
    elif shape == 2:
        desc, pol = "wsh(and_v(v:pk(K%d),sha256(H%d)))" % (a, h), "and(pk%d,sha%d)" % (a, h)
    elif shape == 3:
        desc, pol, older = ("wsh(or_d(pk(K%d),and_v(v:pk(K%d),older(%d))))" % (a, b, N), "or(pk%d,and(pk%d,older%d))" % (a, b, N), N)
        keys = [a, b]
    elif shape == 4:
        desc = "wsh(or_d(multi(2,K%d,K%d),and_v(v:pk(K%d),older(%d))))" % (a, b, c, N)
        pol, older, keys = "or(multi2(%d,%d),and(pk%d,older%d))" % (a, b, c, N), N, [a, b, c]
    elif shape == 5:
        desc, pol, keys = ("wsh(thresh(2,pk(K%d),s:pk(K%d),s:pk(K%d)))" % (a, b, c), "thr2(pk%d,pk%d,pk%d)" % (a, b, c), [a, b, c])
    elif shape == 6:
        desc, pol, older, keys = ("wsh(andor(pk(K%d),older(%d),pk(K%d)))" % (a, N, b), "or(and(pk%d,older%d),pk%d)" % (a, N, b), N, [a, b])
    elif shape == 7:
        desc, pol, after, keys = ("wsh(or_i(and_v(v:pkh(K%d),after(%d)),pk(K%d)))" % (a, M, b), "or(and(pk%d,after%d),pk%d)" % (a, M, b), M, [a, b])
    elif shape == 8:
        desc, pol, keys = ("wsh(and_v(or_c(pk(K%d),v:sha256(H%d)),pk(K%d)))" % (a, h, b), "and(or(pk%d,sha%d),pk%d)" % (a, h, b), [a, b])
    elif shape == 9:
        desc, pol = "tr(K%d)" % a, "pk%d" % a
    elif shape == 10:
        desc, pol, keys = "tr(K%d,pk(K%d))" % (a, b), "or(pk%d,pk%d)" % (a, b), [a, b]
    elif shape == 11:
        desc = "tr(K%d,{pk(K%d),and_v(v:pk(K%d),older(%d))})" % (a, b, c, N)
        pol, older, keys = "or(pk%d,or(pk%d,and(pk%d,older%d)))" % (a, b, c, N), N, [a, b, c]
    elif shape == 12:
        desc = "wsh(thresh(2,pk(K%d),s:pk(K%d),sln:older(%d)))" % (a, b, N)
        pol, older, keys = "thr2(pk%d,pk%d,older%d)" % (a, b, N), N, [a, b]
    else:
        desc = "wsh(and_v(v:multi(2,K%d,K%d,K%d),or_d(pk(K%d),sha256(H%d))))" % (a, b, c, d, h)
        pol, keys = "and(multi2(%d,%d,%d),or(pk%d,sha%d))" % (a, b, c, d, h), [a, b, c, d]
    opts = ["avail=%d" % pick_avail(rng, keys, rng.randrange(1, len(keys) + 1))]
    opts += timelock_tx(rng, older, after)
    opts.append("pre=%d" % rng.choice([0, 1 << h, 15, 15 ^ (1 << h)]))
    if rng.random() < 0.05:
        opts.append("scripts=0")
    if rng.random() < 0.05 and not desc.startswith("tr("):
        opts.append("bogus=%d" % (1 << rng.choice(keys)))
    return "sign %s %s pol=%s" % (desc, " ".join(opts), pol)


def gen(rng, tier):
    n = 900 if tier == "quick" else 30000
    cases = []
    for _ in range(n):
        cases.append(template_case(rng))
    for _ in range(n):
        cases.append(policy_case(rng))
    return cases


class Line(str):
    """compared on (complete, ss, wit) only; the model prints `*` for descriptors outside the template fragment"""
    def _key(self):
        s = str(self)
        if s == "*":
            return None
        w = s.split(" ")
        f = {}
        for t in w:
            if "=" in t:
                k, v = t.split("=", 1)
                f[k] = v
        return (f.get("complete"), f.get("ss"), f.get("wit"))
    def __eq__(self, other):
        a, b = self._key(), Line(other)._key()
        return a is None or b is None or a == b
    def __ne__(self, other):
        return not self.__eq__(other)
    __hash__ = str.__hash__


TIES = [Tie("produce_signature", "tie/drivers/signing_drv.cpp", "Extract_Signing.v", "signing_driver.ml", gen,
            predicate="driver", canon=Line, classify=lambda c: "policy" if " pol=" in c else "template")]

LEVEL_TEXT = ("Coq theorems about the Gallina transcription of SignStep / ProduceSignature's template dispatch (P2PK, P2PKH, k-of-n "
              "multisig, P2WPKH, P2SH(.), P2WSH(.), P2SH-P2WSH(.)): it reports solved exactly when the compositional specification "
              "says a complete spend exists (private key, public key, scripts available; >= k keys) and then produces exactly that "
              "spend - for multisig a dummy element followed by exactly k signatures by available keys in the script's key order; "
              "every signature it ever places (also partial ones) is by an available key; soundness of the timelock predicates; "
              "monotonicity of the policy oracle. The real code is tied by differential execution on all template descriptors "
              "(complete flag and the shape of scriptSig / witness incl. the signing key of each signature) and by translation "
              "validation on miniscript / taproot descriptors: complete => independent VerifyScript (standard flags) accepts, "
              "complete <=> the policy is satisfiable with what is available.")
LEVEL_NOTE = ("Not proved: the miniscript satisfier, taproot signing, signatures themselves (abstracted); 'complete => VerifyScript' "
              "holds by construction in ProduceSignature (complete = solved && VerifyScript) and is re-checked per case with an "
              "independent VerifyScript, including with pre-existing invalid partial signatures in the SignatureData. DESIGN's "
              "miniscript type-system / satisfier model (ms_type_sound, ms_satisfier_sound) was not built.")
TECHNIQUE = "Coq proof about a transcription of the template dispatch + differential execution + independent VerifyScript oracle"
