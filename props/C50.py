from vlib.runner import Tie
from vlib import core
from props import keys_gen

ID = "C50"
LEVEL = "proof"
DESIGN_REF = "DESIGN.md section 5, C50"
PROP_FILES = ["props/Properties_C50.v"]
RULE = "TODO"
ASSUMPTIONS = []
TRUSTED = []

TIES = [Tie("scalar_fn", "tie/drivers/ec_drv.cpp", "Extract_EC.v", "ec_driver.ml", keys_gen.gen_ec_light, predicate="driver"),
        Tie("point_fn", "tie/drivers/ec_drv.cpp", "Extract_EC.v", "ec_driver.ml", keys_gen.gen_ec_heavy, predicate="functional")]
LEVEL_TEXT = "TODO"
LEVEL_NOTE = "TODO"
TECHNIQUE = "TODO"
