from vlib.runner import Tie
from vlib import core
from props import keys_gen

ID = "C50"
LEVEL = "partial"
DESIGN_REF = "DESIGN.md section 5, C50"
PROP_FILES = ["props/Properties_C50.v"]
RULE = ("scalar_fn: secp256k1_ecdsa_signature_parse_compact + normalize (+ CPubKey::CheckLowS on the DER form), ec_seckey_verify / "
        "negate / tweak_add / tweak_mul on 0, 1, 2, n/2-1, n/2, n/2+1, n/2+2, n-2, n-1, n, n+1, p-1, p, 2^256-1, every 64-bit limb "
        "of n and n/2 moved by +-1 / zeroed / saturated, and random values; point_fn: ec_pubkey_parse of valid compressed keys with "
        "both tags, uncompressed, hybrid with right and wrong parity, off-curve, x in {0..7, p-3..p+2, 2^256-1, n, 52-bit limb patterns "
        "of p}, wrong lengths / tags; ec_pubkey_create for 0, 1, 2, n-1, n, n+1, 2^256-1; ec_pubkey_tweak_add incl. t = n-k (infinity), "
        "t = 0, t >= n; negate; xonly_from_pubkey with both parities; xonly_parse; xonly_tweak_add + tweak_add_check with the right and "
        "the wrong parity; ECDSA verification (library strict / CPubKey::Verify) of valid low-S signatures, their high-S twins, "
        "message >= n, wrong message, r = 0, s = 0, s = n; CKey::Sign (RFC6979 nonce, low-S, low-R grinding) compared byte for byte. Non-trivial = every case; distinct = distinct case lines.")
ASSUMPTIONS = ["the model (model/EC.v) is a hand transcription of the library's API-level behaviour over mathematical integers; limb-level code "
               "other than the three comparisons modelled (scalar overflow, is_high, field range) and all constant-time/representation "
               "details are covered only by the correspondence",
               "premises of the compressed-key / x-only round trips: SECP256K1_P is prime; the library's square root succeeds on squares "
               "(Euler's criterion for p = 3 mod 4; stated as a premise about the model's addition chain)",
               "premises of the ECDSA theorems: commutative group in which every point has order dividing n, x(-P) = x(P), an inverse mod n",
               "Schnorr/BIP340, taproot tweak hashing, ECDH and ElligatorSwift are NOT covered by this check; signing is modelled (RFC6979 via the executable HMAC-SHA256 model) and tied by byte-equal signatures, its sign-then-verify theorem is over the abstract group"]
TRUSTED = ["Coq 8.16.1 kernel (coqc; vm_compute; no native_compute)",
           "tie/params/keys.h recovers n, p, G and the low-S threshold from the behaviour of the compiled library's public API "
           "(seckey_negate(1), pubkey_negate(G), bisection on signature_normalize) and prints them",
           "extraction: ExtrOcamlBasic only; ocaml/conv.ml + ec_driver.ml glue",
           "tie/drivers/ec_drv.cpp calls the libsecp256k1 API and CPubKey::CheckLowS / Verify / IsFullyValid, XOnlyPubKey::IsFullyValid, CKey::Set and prints the results"]

TIES = [Tie("scalar_fn", "tie/drivers/ec_drv.cpp", "Extract_EC.v", "ec_driver.ml", keys_gen.gen_ec_light, predicate="driver"),
        Tie("point_fn", "tie/drivers/ec_drv.cpp", "Extract_EC.v", "ec_driver.ml", keys_gen.gen_ec_heavy, predicate="functional")]

LEVEL_TEXT = ("Coq theorems over the constants of the compiled library: the limb-wise tests of the C code equal the integer comparisons "
              "(is_high s <=> s > n/2, overflow <=> s >= n, field range <=> x >= p); the low-S threshold observed on the compiled library is n/2; "
              "signature_normalize maps s to min(s, n-s), reports s > n/2 and is idempotent; CheckLowS accepts exactly s <= n/2; secret-key "
              "negate / tweak_add / tweak_mul are arithmetic mod n with exactly the documented failure cases; field reduction is mod p; "
              "parse(serialize P) = P for uncompressed keys unconditionally and for compressed keys under the number-theoretic premises; "
              "parse accepts only curve points with reduced coordinates and the right tag parity, rejects x >= p and non-residues; x-only "
              "conversion keeps x, makes y even and reports the parity; tweak_add_check accepts exactly the x and parity of P + t*G; over any "
              "group satisfying the premises ECDSA verification ignores the sign of s, strict verification = valid and low-S, and the "
              "node's verification accepts (r, s) iff its normalised form verifies strictly, and every signature secp256k1_ecdsa_sig_sign produces is low-S and verifies. Model tied to the real library by "
              "differential execution on boundary values.")
LEVEL_NOTE = ("Partial: functional clauses only (scalar/field arithmetic, low-S, (de)compression, x-only, tweak add, ECDSA verification). "
              "BIP340, ECDH and ElligatorSwift are not modelled. Group laws of the concrete curve, primality of p and Euler's "
              "criterion are premises; the concrete affine point arithmetic of the model is validated only by the correspondence.")
TECHNIQUE = "Coq proof (case analysis on limbs + lia, modular arithmetic, abstract group reasoning) + differential correspondence"
