from vlib.runner import Tie
from vlib import core

ID = "C65"
LEVEL = "proof"
DESIGN_REF = "DESIGN.md section 5, C65"
PROP_FILES = ["props/Properties_C65.v"]
RULE = ("cases: one real BlockTemplate::waitNext() call per case on a regtest node with the mock clock, made by a waiter thread through the "
        "Mining interface while the driver thread plays the case's events: blocks connected (real blockTip notification), mempool "
        "transactions with fees just below / at / above old fees + threshold (thresholds 0, 1, 1000, negative, MAX_MONEY), the clock moved "
        "past the tick and past the deadline (one-pass and two-pass waits), interruptWait(), the 20-minute rule of minimum-difficulty "
        "chains just below and above 20 minutes, and the connect-then-disconnect notification race; events are separated by real sleeps "
        "long enough for the waiter to react, so that the outcome is determined. non-trivial = every case; distinct = distinct case lines")
ASSUMPTIONS = ["times are integers (ms); MillisecondsDouble arithmetic and the real-time behaviour of condition_variable::wait_until with a mock clock are not modelled",
               "blockTip notifications are delivered in activation order and never before the chain has moved (KernelNotifications::blockTip is called after SetTip)",
               "CreateNewBlock builds on ActiveChain().Tip() under cs_main; its fee total is an input of the model (mempool / block assembly are other properties)"]
TRUSTED = ["Coq 8.16.1 kernel (coqc)", "tie/dump_params.cpp prints MAX_MONEY", "extraction: ExtrOcamlBasic only; ocaml/conv.ml + waitnext_driver.ml glue (maps the case's events to model actions, the waiter stepping whenever it can)",
           "tie/drivers/waitnext_drv.cpp: waiter thread + scripted events with real sleeps; `notifyrace` injects blockTip(parent) / blockTip(tip) under cs_main to reproduce what the waiter observes in the connect/disconnect race"]


def gen(rng, tier):
    c = []
    # A. plain timeouts
    for t in (0, 1, 300, 900):
        c.append("wn %d max ; time 1 ; sleep %d" % (t, t + 500))
        c.append("wn %d 1000 ; time 1 ; sleep %d" % (t, t + 500))
    # B. tip change, with and without fees / thresholds
    c.append("wn inf max ; block")
    c.append("wn 900 1000 ; block")
    c.append("wn inf 1000 ; tx 700 ; block")
    c.append("wn inf max ; tx 5000 ; sleep 300 ; block")
    # C. interrupts
    c.append("wn inf max ; interrupt")
    c.append("wn inf 1000 ; tx 2000 ; interrupt")
    c.append("wn 900 0 ; interrupt")
    # D. the fee boundary, one pass at the deadline
    for thr in (0, 1, 1000, 5000, -1):
        for d in (-1, 0, 1):
            tot = thr + d
            if thr <= 0:
                evs = "" if tot <= 0 else "tx %d ; " % max(tot, 500)
                c.append("wn 400 %d ; %stime 1 ; sleep 900" % (thr, evs))
            elif tot >= 500:
                if rng.random() < 0.5 and tot >= 1200:
                    c.append("wn 400 %d ; tx %d ; tx %d ; time 1 ; sleep 900" % (thr, tot - 600, 600))
                else:
                    c.append("wn 400 %d ; tx %d ; time 1 ; sleep 900" % (thr, tot))
    c.append("wn 400 1 ; time 1 ; sleep 900")
    c.append("wn 400 max ; tx 100000 ; time 1 ; sleep 900")
    # E. two passes: fees arrive after the first tick
    for f in (999, 1000, 1001):
        c.append("wn 1800 1000 ; time 1 ; sleep 1500 ; tx %d ; time 1 ; sleep 1500" % f)
    c.append("wn 1800 1000 ; tx 3000 ; time 1 ; sleep 1500")
    # F. the 20-minute rule (regtest allows minimum-difficulty blocks)
    c.append("wn inf max ; time 1300 ; sleep 1500 ; time 2 ; sleep 1500")
    c.append("wn inf max ; time 1100 ; sleep 1500 ; time 2 ; sleep 1500 ; block")
    c.append("wn inf 100000 ; time 1300 ; sleep 1500 ; time 2 ; sleep 1500")
    # G. a connected block that is disconnected again before the waiter gets cs_main
    c.append("wn inf max ; notifyrace")
    c.append("wn inf 1000 ; notifyrace")
    c.append("wn 900 1000 ; tx 600 ; notifyrace")
    n = 6 if tier == "quick" else 200
    for _ in range(n):
        thr = rng.choice([0, 1, 777, 1000, 25000])
        f = thr + rng.choice([-1, 0, 1, 500])
        kind = rng.choice(["fee", "fee", "block", "int", "two"])
        pre = "tx %d ; " % f if f >= 500 else ""
        if kind == "fee": c.append("wn 400 %d ; %stime 1 ; sleep 900" % (thr, pre))
        elif kind == "block": c.append("wn inf %d ; %sblock" % (thr, pre))
        elif kind == "int": c.append("wn inf %d ; %sinterrupt" % (thr, pre))
        else: c.append("wn 1800 %d ; time 1 ; sleep 1500 ; %stime 1 ; sleep 1500" % (thr, pre))
    seen, out = set(), []
    for x in c:
        x = " ".join(x.split())
        if x not in seen:
            seen.add(x); out.append(x)
    return out


class Res(str):
    """compared on what was returned (nothing / a template, same tip or not, its fees)"""
    def key(self):
        w = dict(t.split("=", 1) for t in self.split() if "=" in t)
        if "res" not in w:
            return str(self)
        return ("HANG " if self.startswith("HANG") else "") + "res=%s same=%s fees=%s" % (w.get("res"), w.get("same"), w.get("fees"))
    def __eq__(self, other):
        return Res.key(self) == Res.key(Res(other))
    def __ne__(self, other):
        return not self.__eq__(other)
    def __hash__(self):
        return hash(Res.key(self))


TIES = [Tie("waitnext", "tie/drivers/waitnext_drv.cpp", "Extract_WaitNext.v", "waitnext_driver.ml", gen,
            predicate="driver", classify=lambda x: x.split(";")[-1].split()[0] if ";" in x else "wn", canon=Res, timeout=3000)]

LEVEL_TEXT = ("Coq theorems, for EVERY interleaving of the waiting thread's steps with tip activations, in-order tip notifications, mempool fee changes, "
              "clock advances and both kinds of interrupt, of an executable transcription of node::WaitAndCreateNewBlock: a returned template was built "
              "on the tip active at that moment, never older than the notified tip that triggered it, and is justified by a differing notified tip, by "
              "the 20-minute rule of minimum-difficulty chains, or by fees >= old fees + threshold (int64 addition shown not to overflow); nothing is "
              "returned only after an interrupt (the flag being consumed) or with the clock at/after the deadline; after a tip change the next pass "
              "returns a fresh template regardless of fees; the waiter blocks only in wait_until. The clause 'a same-tip template only with the fee "
              "increase' is proved FALSE in a race (block connected, waiter woken, block disconnected before the waiter gets cs_main): _refuted theorem "
              "with witness, replayed on the node. Tied to the real waitNext through the Mining interface on 60 scripted schedules.")
LEVEL_NOTE = ("LEVEL 'proof' for the logic of the wait loop. Not expressible in the model and not proved: the real-time behaviour of "
              "condition_variable::wait_until with a mocked clock (a waiter whose mock clock never advances re-arms its real timer for ever), "
              "MillisecondsDouble rounding, lock hand-off between m_tip_block_mutex and cs_main, and the scheduling between the scripted "
              "synchronisation points of the driver (events are separated by real sleeps; a heavily loaded machine could reorder them -- the "
              "predicate `holds` stays valid under any order, the functional comparison with the model does not). Fee totals of templates are model "
              "inputs. The 20-minute rule uses the `now` captured before the wait (stale by up to one tick); the model has the same staleness.")
TECHNIQUE = "Coq proof (inductive invariant of a small-step machine under an adversarial environment, vm_compute witness for the refuted clause) + scripted differential correspondence with real threads and mock time"
