from vlib.runner import Tie
from vlib import core

ID = "C53"
LEVEL = "proof"
DESIGN_REF = "DESIGN.md section 5, C53"
PROP_FILES = ["props/Properties_C53.v"]
RULE = ("cases: vb <start> <timeout> <min_activation_height> <period> <threshold> <bit> <N> {parent time version}*N | queries: synthetic "
        "CBlockIndex trees of 1..240 blocks (main chain plus side branches forking inside and at period boundaries) with periods 1..8, "
        "thresholds 0..period+1, start/timeout placed at the median-time-past of a period boundary -1/0/+1, NO_TIMEOUT, timeout before "
        "start, ALWAYS_ACTIVE / NEVER_ACTIVE, min_activation_height before/at/after the lock-in boundary; signalling counts per period at "
        "threshold-1/threshold/threshold+1 with wrong-top-bits and other-bit versions mixed in; timestamps obeying the median rule and "
        "arbitrary (also decreasing) ones; queries st/since/stats on every kind of block and nullptr in random, ascending and descending "
        "order against ONE cache, with occasional clear. Non-trivial = more than one block; distinct = distinct case lines.")
ASSUMPTIONS = ["Period() > 0 (division by zero otherwise); nHeight + 1 does not overflow int",
               "GetAncestor(h) returns the ancestor at height h (property C54); the model walks parents",
               "the BIP9 transition clauses (and 'never leaves ACTIVE/FAILED') are proved under the premise that the median time past "
               "does not decrease from one period boundary to the next, which holds for accepted headers; cache transparency, "
               "same-within-period and the exact step function are proved for arbitrary timestamps",
               "the model is a hand transcription of versionbits.cpp; tied by the correspondence on the listed cases"]
TRUSTED = ["Coq 8.16.1 kernel (coqc; no native_compute)",
           "tie/params/pow.h prints ALWAYS_ACTIVE, NEVER_ACTIVE, VERSIONBITS_TOP_BITS/MASK, nMedianTimeSpan from the compiled tree",
           "extraction: ExtrOcamlBasic only; ocaml/conv.ml + versionbits_driver.ml glue",
           "tie/drivers/versionbits_drv.cpp builds CBlockIndex trees (BuildSkip) and calls the real checker methods with one persistent cache"]

TOP = 0x20000000
NO_TIMEOUT = 2 ** 63 - 1


def mtp_of(times, parents, b):
    ts = []
    k = b
    for _ in range(11):
        if k < 0:
            break
        ts.append(times[k])
        k = parents[k]
    ts.sort()
    return ts[len(ts) // 2]


def gen_case(rng, tier):
    period = rng.choice([1, 2, 2, 3, 4, 4, 5, 8])
    bit = rng.choice([0, 1, 5, 28])
    n_main = rng.choice([1, 2, period, period + 1, 3 * period, 6 * period + rng.randrange(0, period), 10 * period + 1, 14 * period])
    n_main = max(1, min(n_main, 160))
    valid_times = rng.random() < 0.75
    parents, times, vers, heights = [], [], [], []

    def sig_version(signal):
        if signal:
            return rng.choice([TOP | (1 << bit), TOP | (1 << bit) | (1 << ((bit + 3) % 29)), 0x3fffffff])
        return rng.choice([TOP, 0, 4, TOP | (1 << ((bit + 1) % 29)), 0x40000000 | (1 << bit), 0xffffffff, 0x60000000 | (1 << bit), (1 << bit)])

    def add(parent, signal):
        i = len(parents)
        parents.append(parent)
        heights.append(0 if parent < 0 else heights[parent] + 1)
        if parent < 0:
            t = 1000
        elif valid_times:
            times.append(0)  # placeholder to compute the parent's MTP
            m = mtp_of(times, parents, parent)
            times.pop()
            t = m + rng.choice([1, 1, 1, 2, 3, 10, 600])
        else:
            t = rng.choice([rng.randrange(0, 3000), times[parent] + rng.randrange(-50, 200), 0, 1000])
            t = max(0, t)
        times.append(t)
        vers.append(sig_version(signal))
        return i

    threshold = rng.choice([0, 1, period, period, max(1, period - 1), period + 1, (period * 3 + 3) // 4])
    # signalling plan per period of the main chain
    def plan_for_period():
        want = rng.choice([threshold - 1, threshold, threshold + 1, 0, period])
        want = max(0, min(period, want))
        s = [True] * want + [False] * (period - want)
        rng.shuffle(s)
        return s

    tip = add(-1, rng.random() < 0.5)
    plan = []
    for h in range(1, n_main):
        if h % period == 0 or not plan:
            plan = plan_for_period()
        tip = add(tip, plan[h % period])
    main_len = len(parents)
    # side branches
    for _ in range(rng.choice([0, 0, 1, 2, 3])):
        if main_len < 2 or len(parents) > 230:
            break
        fork = rng.randrange(0, main_len)
        if rng.random() < 0.5:
            fork = max(0, min(main_len - 1, (fork // period) * period + rng.choice([-1, 0, period - 1])))
        t = fork
        ln = rng.choice([1, period, 2 * period + 1, 4 * period])
        plan = plan_for_period()
        for j in range(ln):
            hh = heights[t] + 1
            if hh % period == 0:
                plan = plan_for_period()
            t = add(t, plan[hh % period])
    n = len(parents)
    # start / timeout near the MTP of boundary blocks
    boundary = [b for b in range(n) if (heights[b] + 1) % period == 0]
    r = rng.random()
    if r < 0.06:
        start = -1
    elif r < 0.12:
        start = -2
    elif boundary and r < 0.8:
        start = mtp_of(times, parents, rng.choice(boundary)) + rng.choice([-1, 0, 0, 1])
    else:
        start = rng.choice([0, 1, 1000, 1001, 5000, 10 ** 9])
    r = rng.random()
    if r < 0.35:
        timeout = NO_TIMEOUT
    elif boundary and r < 0.85:
        timeout = mtp_of(times, parents, rng.choice(boundary)) + rng.choice([-1, 0, 0, 1])
    else:
        timeout = rng.choice([start - 1, start, start + 1, 0, 10 ** 9])
    minh = rng.choice([0, 0, 0, period, 2 * period, 3 * period + 1, 5 * period, heights[-1] + 1, 10 ** 6])
    # queries
    qs = []
    nq = rng.choice([3, 10, 25, 40]) if tier == "quick" else rng.choice([10, 40, 80])
    order = rng.choice(["random", "up", "down", "random"])
    cand = list(range(n))
    if order == "up":
        sel = sorted(rng.sample(cand, min(n, nq)), key=lambda b: heights[b])
    elif order == "down":
        sel = sorted(rng.sample(cand, min(n, nq)), key=lambda b: -heights[b])
    else:
        sel = [rng.choice(cand) for _ in range(nq)]
    for b in sel:
        r = rng.random()
        tgt = str(b) if rng.random() > 0.04 else "null"
        if r < 0.6:
            qs.append("st " + tgt)
        elif r < 0.8:
            qs.append("since " + tgt)
        elif r < 0.95:
            qs.append("stats " + tgt)
        else:
            qs.append("clear")
            qs.append("st " + tgt)
    qs.append("st %d" % (main_len - 1))
    qs.append("since %d" % (main_len - 1))
    qs.append("st null")
    blocks = " ".join("%d %d %d" % (parents[i], times[i], vers[i]) for i in range(n))
    return "vb %d %d %d %d %d %d %d %s | %s" % (start, timeout, minh, period, threshold, bit, n, blocks, " ".join(qs))


def gen(rng, tier):
    n = 1500 if tier == "quick" else 40000
    return [gen_case(rng, tier) for _ in range(n)]


TIES = [Tie("versionbits_fn", "tie/drivers/versionbits_drv.cpp", "Extract_VersionBits.v", "versionbits_driver.ml", gen,
            predicate="driver", nontrivial=lambda c: int(c.split()[7]) > 1,
            classify=lambda c: "period=" + c.split()[4])]

LEVEL_TEXT = ("Coq theorems for every block tree (arbitrary versions and timestamps, forks) and every deployment with a positive period: "
              "GetStateFor, run against a cache filled by any earlier sequence of queries, returns the specification's state (a fold of "
              "the per-period step over the boundary blocks of the ancestry) and leaves the cache consistent, so answers do not depend on "
              "query order; all blocks of a period share the state; ALWAYS_ACTIVE/NEVER_ACTIVE and the genesis parent; DEFINED exactly "
              "while the boundary's median time past is below the start; under non-decreasing median time past at the boundaries (true "
              "for accepted headers) the step is exactly the BIP9 transition (LOCKED_IN before FAILED, min_activation_height, ACTIVE and "
              "FAILED absorbing over any number of periods); GetStateSinceHeightFor returns the first height of the unbroken run of "
              "periods with the queried state; GetStateStatisticsFor's fields; GetStateFor is total for any cache. Model tied to the real checker by differential execution "
              "with one persistent cache per case.")
LEVEL_NOTE = ("Trusted: Coq kernel; dump_params; extraction and the OCaml/C++ glue. The model is a hand transcription. The early exit "
              "'median time past < start => DEFINED' is part of the specification function; with timestamps that let the median time fall "
              "back below the start (impossible for accepted headers) it reports DEFINED after ACTIVE -- Example C53_premise_needed shows "
              "such a chain; the transition clauses therefore carry the monotonicity premise. GetStateFor's totality (assert never fires, no "
              "nullptr dereference in the counting loop) is proved for any cache content; that of GetStateSinceHeightFor is not.")
TECHNIQUE = "Coq proof (induction over the backwards walk / forward replay with a cache-consistency invariant) + differential correspondence"
