from vlib.runner import Tie
from vlib import core
import hashlib

ID = "C04"
LEVEL = "proof"
DESIGN_REF = "DESIGN.md section 5, C04"
PROP_FILES = ["props/Properties_C04.v"]
RULE = ("cases: root <leaves>: every list length 0..300 (quick: 0..70 and sampled lengths to 300), for each list every "
        "same-root tail-duplication variant (all levels, all combinations; sampled above 40 leaves), aligned/unaligned equal "
        "neighbours, all-equal lists, lists whose leaves are inner nodes of another list (64-byte ambiguity); "
        "txpath <pos> <txs>: TransactionMerklePath for every position of blocks of 1..40 transactions and sampled positions up to "
        "300 (with duplicated transactions, positions outside the block, 2^32-1); block: real serialized blocks (coinbase with "
        "BIP141 commitment and nonce, witness and legacy transactions) and their malleated variants: duplicated tails, stripped / "
        "altered witness of each transaction, nonce sizes 0/31/33/two items, missing / shortened / repeated commitment output, wrong "
        "header root, 64-byte transactions with and without coinbase, empty block. Non-trivial = at least two leaves/transactions; "
        "distinct = distinct case lines.")
ASSUMPTIONS = ["SHA256d is collision free on 64-byte inputs built from the values in play (premise H_injective of the binding theorems)",
               "no transaction id in the compared lists is the hash of a 64-byte string made of two digests (premise leaves_not_inner; "
               "this is what the 64-byte-transaction rule of IsBlockMutated protects)",
               "the chain-selection clause (a mutated variant never causes the genuine block to be marked invalid) is not part of this "
               "check yet: it needs the ChainSel model (ProcessNewBlock / InvalidBlockFound)",
               "the models are hand transcriptions of merkle.cpp / validation.cpp; tied by the correspondence on the listed cases"]
TRUSTED = ["Coq 8.16.1 kernel (coqc)",
           "extraction: ExtrOcamlBasic only; ocaml/conv.ml, merkle_sha256.ml (pure OCaml SHA-256 instantiating the hash variable) and merkle_driver.ml glue",
           "tie/drivers/merkle_drv.cpp deserializes the given transactions and calls ComputeMerkleRoot, BlockMerkleRoot, BlockWitnessMerkleRoot, "
           "TransactionMerklePath, CheckBlock(fCheckPOW=false) and IsBlockMutated",
           "the case generator's description of a block (coinbase?, commitment bytes, coinbase witness stack) is compared with what the C++ code derives"]


# ---------------------------------------------------------------------------- helpers (generator side)
def sha256d(b):
    return hashlib.sha256(hashlib.sha256(b).digest()).digest()


def level_up(l):
    if len(l) & 1:
        l = l + [l[-1]]
    return [sha256d(l[i] + l[i + 1]) for i in range(0, len(l), 2)]


def merkle_root(l):
    if not l:
        return b"\0" * 32
    while len(l) > 1:
        l = level_up(l)
    return l[0]


def cs(n):
    if n < 253: return bytes([n])
    if n <= 0xffff: return b"\xfd" + n.to_bytes(2, "little")
    if n <= 0xffffffff: return b"\xfe" + n.to_bytes(4, "little")
    return b"\xff" + n.to_bytes(8, "little")


def ser_tx(vin, vout, wit=None, version=2, locktime=0):
    """vin: [(prevhash32, index, scriptSig, sequence)], vout: [(value, spk)], wit: per-input stacks or None.
    Returns (bytes without witness, bytes with witness)."""
    body_in = cs(len(vin)) + b"".join(h + n.to_bytes(4, "little") + cs(len(s)) + s + q.to_bytes(4, "little") for (h, n, s, q) in vin)
    body_out = cs(len(vout)) + b"".join(v.to_bytes(8, "little") + cs(len(s)) + s for (v, s) in vout)
    nw = version.to_bytes(4, "little") + body_in + body_out + locktime.to_bytes(4, "little")
    if wit is None or all(len(st) == 0 for st in wit):
        return nw, nw
    w = b"".join(cs(len(st)) + b"".join(cs(len(it)) + it for it in st) for st in wit)
    return nw, version.to_bytes(4, "little") + b"\x00\x01" + body_in + body_out + w + locktime.to_bytes(4, "little")


def tok(tx):
    nw, wt = tx
    return nw.hex() if nw == wt else nw.hex() + "/" + wt.hex()


def legacy_tx(rng, extra_sig=0, extra_spk=0):
    return ser_tx([(rng.randbytes(32), rng.randrange(0, 4), bytes(rng.randrange(1, 256) for _ in range(extra_sig)), 0xffffffff)],
                  [(rng.randrange(0, 10 ** 8), bytes([0x51] * extra_spk))], locktime=rng.randrange(0, 500000000))


def witness_tx(rng, nitems=2):
    return ser_tx([(rng.randbytes(32), rng.randrange(0, 4), b"", 0xfffffffd)], [(rng.randrange(0, 10 ** 8), b"\x00\x14" + rng.randbytes(20))],
                  wit=[[rng.randbytes(rng.randrange(1, 73)) for _ in range(nitems)]])


COMMIT_HDR = bytes([0x6a, 0x24, 0xaa, 0x21, 0xa9, 0xed])


def coinbase_tx(rng, commits=(), stack=None, null_index=0xffffffff, prev=b"\0" * 32):
    """commits: list of scriptPubKeys to add after the payout output; stack: coinbase witness stack or None"""
    vout = [(50 * 10 ** 8, b"\x51")] + [(0, c) for c in commits]
    return ser_tx([(prev, null_index, bytes([3, rng.randrange(1, 200), rng.randrange(0, 256), 1]), 0xffffffff)], vout,
                  wit=None if stack is None else [stack])


def stack_tok(stack):
    if not stack:
        return "-"
    return ",".join(("e" if len(i) == 0 else i.hex()) for i in stack)


def txid(tx): return sha256d(tx[0])
def wtxid(tx): return sha256d(tx[1])


def witness_commitment(txs, nonce):
    wroot = merkle_root([b"\0" * 32] + [wtxid(t) for t in txs[1:]])
    return sha256d(wroot + nonce)


class Node:
    __slots__ = ("h", "l", "r")
    def __init__(self, h, l=None, r=None):
        self.h, self.l, self.r = h, l, r


def same_root_variants(leaves, rng, limit):
    """All leaf lists with the same depth and the same merkle root that differ from `leaves` only by
    explicit copies of what the odd-level rule duplicates implicitly (CVE-2012-2459), at every level and
    in every combination; at most `limit` of them (random subset), the original excluded."""
    nodes = [Node(x) for x in leaves]
    if len(nodes) < 2:
        return []
    while len(nodes) > 1:
        if len(nodes) & 1:
            nodes = nodes + [nodes[-1]]
        nodes = [Node(sha256d(nodes[i].h + nodes[i + 1].h), nodes[i], nodes[i + 1]) for i in range(0, len(nodes), 2)]
    out = []

    def expand(level_nodes):
        if level_nodes[0].l is None:
            out.append([n.h for n in level_nodes]); return
        if len(out) >= limit * 4:
            return
        full = []
        for n in level_nodes:
            full += [n.l, n.r]
        last = level_nodes[-1]
        opts = [full]
        if last.l.h == last.r.h:
            opts.append(full[:-1])
        rng.shuffle(opts)
        for o in opts:
            expand(o)
    expand(nodes)
    out = [o for o in out if o != list(leaves)]
    rng.shuffle(out)
    return out[:limit]


def gen_root(rng, tier):
    cases = []
    def add(l): cases.append("root " + " ".join(x.hex() for x in l) if l else "root")
    quick = tier == "quick"
    lengths = list(range(0, 71 if quick else 301))
    if quick:
        lengths += [95, 96, 97, 127, 128, 129, 191, 192, 193, 255, 256, 257, 299, 300] + [rng.randrange(71, 301) for _ in range(12)]
    for n in lengths:
        l = [rng.randbytes(32) for _ in range(n)]
        add(l)
        lim = 64 if n <= 40 else (6 if quick else 40)
        for v in same_root_variants(l, rng, lim):
            add(v)
        if n >= 2:
            # equal neighbours: aligned (flagged) and unaligned (not flagged), at leaf level
            for _ in range(2 if n > 40 else 4):
                p = rng.randrange(0, n - 1)
                v = list(l); v[p + 1] = v[p]; add(v)
            # equal but not adjacent; all equal; last two equal; first two equal
            v = list(l); v[-1] = v[0]; add(v)
            if n <= 70: add([l[0]] * n)
            # a repeated block that is not tail-aligned: insert a copy of a random slice
            a = rng.randrange(0, n); b = rng.randrange(a, n) + 1
            add(l[:b] + l[a:b] + l[b:])
            # tail copy with the wrong width (root changes, flag may or may not be set)
            k = rng.randrange(1, min(n, 9) + 1)
            add(l + l[-k:])
        if 2 <= n <= 64:
            # the inner nodes of l taken as leaves: same root, no flag (64-byte ambiguity)
            add(level_up(l))
            # an equal pair that only appears above the leaves: [a,b,a,b], [.., a,b,a,b]
            if n % 2 == 0:
                add(l + l[-2:]); add(l[-2:] + l[-2:] + l)
    # zero leaves and special digests
    z = b"\0" * 32
    for l in ([z], [z, z], [z, b"\xff" * 32], [b"\xff" * 32] * 3, [z] * 5):
        add(l)
    return cases


def gen_txpath(rng, tier):
    cases = []
    quick = tier == "quick"
    sizes = list(range(1, 41 if quick else 130)) + ([63, 64, 65, 127, 128, 129, 255, 256, 257, 300] if quick else list(range(130, 301, 7)) + [255, 256, 257, 300])
    for n in sizes:
        txs = [legacy_tx(rng, extra_sig=rng.randrange(0, 3)) for _ in range(n)]
        if n >= 3 and rng.random() < 0.3:
            txs[rng.randrange(1, n)] = txs[rng.randrange(0, n)]          # a duplicated transaction somewhere
        toks = " ".join(tok(t) for t in txs)
        if n <= 40 or not quick:
            poss = list(range(n))
        else:
            poss = sorted(set([0, 1, n - 1, n - 2, n // 2] + [rng.randrange(0, n) for _ in range(6)]))
        if n <= 10 or n in (64, 65):
            poss += [n, n + 1, 0xffffffff]
        for p in poss:
            cases.append("txpath %d %s" % (p, toks))
    cases.append("txpath 0")
    cases.append("txpath 5")
    return cases


def block_case(hdr, txs, cb, commit, stack):
    return "block %s %s %s %s %s" % (hdr.hex(), "1" if cb else "0", commit.hex() if commit is not None else "-", stack_tok(stack),
                                     " ".join(tok(t) for t in txs))


def gen_block(rng, tier):
    cases = []
    quick = tier == "quick"
    sizes = ([1, 2, 3, 4, 5, 6, 7, 8, 9, 12, 16, 17, 33] if quick else list(range(1, 40)) + [64, 65, 100, 129])
    for n in sizes:
        for rep in range(2 if quick else 4):
            nonce = rng.randbytes(32)
            body = [(witness_tx(rng, rng.randrange(1, 4)) if rng.random() < 0.6 else legacy_tx(rng)) for _ in range(n - 1)]
            # coinbase needs the commitment, which needs the body
            tmp_cb = coinbase_tx(rng)
            com = witness_commitment([tmp_cb] + body, nonce)
            spk = COMMIT_HDR + com
            if rep == 1:
                spk += rng.randbytes(rng.randrange(0, 5))                   # longer commitment output is fine
            commits = [spk]
            if rep == 1 and rng.random() < 0.5:
                commits = [COMMIT_HDR + rng.randbytes(32), spk]            # two commitment outputs: the last one counts
            cbtx = coinbase_tx(rng, commits, [nonce])
            txs = [cbtx] + body
            root = merkle_root([txid(t) for t in txs])
            genuine = lambda t=txs: block_case(root, t, True, com, [nonce])
            cases.append(genuine())
            # wrong header root
            cases.append(block_case(rng.randbytes(32), txs, True, com, [nonce]))
            # CVE-2012-2459: duplicated tails (same txid root)
            idx_variants = tail_dup_index_variants(len(txs), rng, 6 if quick else 30)
            for iv in idx_variants:
                cases.append(block_case(root, [txs[i] for i in iv], True, com, [nonce]))
            # stripped / altered witness of each transaction (header root unchanged: txids do not cover witnesses)
            for i in range(1, len(txs)):
                if txs[i][0] != txs[i][1]:
                    if n <= 9 or rng.random() < 0.3:
                        v = list(txs); v[i] = (txs[i][0], txs[i][0]); cases.append(block_case(root, v, True, com, [nonce]))
                        wt = bytearray(txs[i][1]); wt[-5] ^= 1      # last byte of the last witness item (items are never empty here)
                        v = list(txs); v[i] = (txs[i][0], bytes(wt)); cases.append(block_case(root, v, True, com, [nonce]))
            # coinbase nonce variants: other value, sizes 31/33, no item, two items, empty item
            for st in ([rng.randbytes(32)], [nonce[:31]], [nonce + b"\0"], [nonce, nonce], [b""], [nonce, b""]):
                cb2 = coinbase_tx_like(cbtx, commits, st)
                cases.append(block_case(root, [cb2] + body, True, com, st))
            cb2 = coinbase_tx_like(cbtx, commits, None)
            cases.append(block_case(root, [cb2] + body, True, com, []))
            # a nonce of the wrong size whose commitment is nevertheless consistent with it (only the size test rejects it)
            for k in (0, 1, 31, 33, 64):
                nk = rng.randbytes(k)
                wroot = merkle_root([b"\0" * 32] + [wtxid(t) for t in body])
                comk = sha256d(wroot + nk)
                cbk = coinbase_tx_like(cbtx, [COMMIT_HDR + comk], [nk])
                tk = [cbk] + body
                cases.append(block_case(merkle_root([txid(t) for t in tk]), tk, True, comk, [nk]))
            # no commitment output at all / shortened (37 bytes) / wrong magic: witnesses are then unexpected
            for bad in ([], [spk[:37]], [bytes([0x6a, 0x24, 0xaa, 0x21, 0xa9, 0xee]) + com], [b"\x6a\x25" + spk[2:]]):
                cb3 = coinbase_tx_like(cbtx, bad, [nonce])
                t3 = [cb3] + body
                cases.append(block_case(merkle_root([txid(t) for t in t3]), t3, True, None, [nonce]))
                cb4 = coinbase_tx_like(cbtx, bad, None)
                t4 = [cb4] + [(t[0], t[0]) for t in body]
                cases.append(block_case(merkle_root([txid(t) for t in t4]), t4, True, None, []))
            # first transaction is not a coinbase (index not 0xffffffff): 64-byte rule applies
            for extra in (3, 4, 5):
                t64 = legacy_tx(rng, extra_sig=extra)           # 60 + extra bytes
                t5 = [legacy_tx(rng)] + body[: max(0, n - 2)] + [t64]
                stack0 = []
                t5 = [(t[0], t[0]) for t in t5]
                cases.append(block_case(merkle_root([txid(t) for t in t5]), t5, False, None, stack0))
                t6 = [coinbase_tx_like(cbtx, [], None)] + [(t[0], t[0]) for t in body] + [t64]
                cases.append(block_case(merkle_root([txid(t) for t in t6]), t6, True, None, []))
    # empty block
    cases.append("block %s 0 - -" % (b"\0" * 32).hex())
    cases.append("block %s 0 - -" % rng.randbytes(32).hex())
    return cases


_cb_cache = {}


def coinbase_tx_like(cbtx, commits, stack):
    """same coinbase input as cbtx (parsed back from its bytes) with other commitment outputs / witness"""
    nw = cbtx[0]
    # layout written by coinbase_tx: version(4) 01 prev(32) idx(4) 04 sig(4) seq(4) ...
    sig = nw[4 + 1 + 36 + 1: 4 + 1 + 36 + 1 + 4]
    vout = [(50 * 10 ** 8, b"\x51")] + [(0, c) for c in commits]
    return ser_tx([(b"\0" * 32, 0xffffffff, sig, 0xffffffff)], vout, wit=None if stack is None else [stack])


def tail_dup_index_variants(n, rng, limit):
    """index lists i_0.. such that [tx[i]] has the same txid merkle root as tx[0..n-1] (distinct txids)"""
    leaves = [i.to_bytes(32, "big") for i in range(n)]
    out = []
    for v in same_root_variants(leaves, rng, limit):
        out.append([int.from_bytes(x, "big") for x in v])
    return out


def gen(rng, tier):
    return gen_root(rng, tier) + gen_txpath(rng, tier) + gen_block(rng, tier)


def nontrivial(c):
    return len(c.split()) >= 4


TIES = [Tie("merkle_fn", "tie/drivers/merkle_drv.cpp", "Extract_Merkle.v", "merkle_driver.ml", gen,
            predicate="driver", nontrivial=nontrivial, extra_ml=("merkle_sha256.ml",))]

LEVEL_TEXT = ("Coq theorems over an abstract inner-node hash H (a Section variable; injectivity and leaf/inner domain separation stay as "
              "premises in the statements): two leaf lists with the same root and both unflagged are equal (binding); hence every list "
              "that differs from an unflagged list and has its root is flagged (all CVE-2012-2459 variants and any other); the explicit "
              "duplication of an odd level's last node at any level gives the same root and sets the flag with no premise on H; the path "
              "computed by the constant-space MerkleComputation folds from leaf i to the root for every i < length <= 2^31; block level: "
              "two blocks that IsBlockMutated accepts under the same header root and coinbase commitment have the same txids and wtxids. "
              "Models tied to ComputeMerkleRoot/BlockMerkleRoot/BlockWitnessMerkleRoot/TransactionMerklePath/CheckBlock/IsBlockMutated by "
              "differential execution with a real SHA256d.")
LEVEL_NOTE = ("Not covered here: the chain-selection clause 'receiving a mutated variant never causes the genuine block to be marked "
              "invalid' (ProcessNewBlock / InvalidBlockFound / ActivateBestChainStep skipping BLOCK_MUTATED) needs the ChainSel model. "
              "Trusted: Coq kernel; extraction and the OCaml/C++ glue incl. the OCaml SHA-256. The models are hand transcriptions checked "
              "by correspondence, not by a semantics of C++.")
TECHNIQUE = "Coq proof (induction over levels / loop invariants of the path calculator) + differential correspondence"
