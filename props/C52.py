from vlib.runner import Tie
from vlib import core

ID = "C52"
LEVEL = "proof"
DESIGN_REF = "DESIGN.md section 5, C52"
PROP_FILES = ["props/Properties_C52.v"]
RULE = ("cases: 'http <fragment hex> ...' = one byte stream and one way of cutting it into socket reads. Streams come from a grammar: "
        "1-3 pipelined requests (methods, targets, versions incl. invalid ones, CRLF / LF / bare CR line ends, NUL), header sections "
        "(duplicates, Content-Length equal/different/unparsable/over the body cap, Transfer-Encoding chunked in any case, whitespace, "
        "missing colon, empty name, lines and totals at MAX_HEADERS_SIZE-1/=/+1), bodies (Content-Length exact/short/long, chunked with "
        "extensions, upper/lower/zero-padded/invalid/overflowing sizes, sizes at the body cap, bad chunk terminators, trailers valid/"
        "invalid/over the header cap), followed by nothing, garbage or the next request. Fragmentations: every 2-split of short streams, "
        "every 3-split of very short ones, byte-by-byte, cuts next to every CR/LF, random 2..9-way cuts, empty fragments. Both drivers print "
        "the result of the fragmented delivery and of the one-shot delivery of the same bytes: dispatched requests (method, target, "
        "version, headers, body), error reply (status, version and headers it is built from), parser state. A case is non-trivial when "
        "the stream has at least 16 bytes; distinct = distinct case lines.")
ASSUMPTIONS = ["the connection is modelled as keep-alive with replies written at once (a dispatched request is followed immediately by "
               "parsing the next one); socket handling, -rpcallowip (ClientAllowed) and the JSON-RPC credential check are NOT covered",
               "the model of ReadRequest / LoadControlData / HTTPHeaders::Read / LoadBody / LineReader is a hand transcription; tied by the correspondence on the listed cases"]
TRUSTED = ["Coq 8.16.1 kernel (coqc; no native_compute)",
           "tie/params/http.h prints MAX_HEADERS_SIZE, MAX_BODY_SIZE, MIN_REQUEST_LINE_LENGTH from the compiled tree",
           "extraction: ExtrOcamlBasic only; ocaml/conv.ml + http_driver.ml glue (hex parsing, printing, HTTPHeaders::Stringify re-implemented for printing)",
           "tie/drivers/http_drv.cpp drives HTTPRemoteClient::ReadRequest as MaybeDispatchRequestsFromClient does (test-style DummyClient, no socket)"]


def hx(b):
    return b.hex() if b else "-"


def case(frags):
    return "http " + " ".join(hx(f) for f in frags)


def cut(stream, points):
    pts = sorted(set(p for p in points if 0 <= p <= len(stream)))
    out, prev = [], 0
    for p in pts:
        out.append(stream[prev:p]); prev = p
    out.append(stream[prev:])
    return out


# ------------------------------------------------------------------------------------------------ grammar

def request_line(rng, valid=True):
    eol = rng.choice([b"\r\n", b"\r\n", b"\r\n", b"\n"])
    if valid:
        m = rng.choice([b"GET", b"POST", b"POST", b"HEAD", b"PUT", b"DELETE", b"get"])
        t = rng.choice([b"/", b"/", b"/wallet/w1", b"/rest/tx/00ff.json?x=1&y=2", b"*", b"/" + b"a" * rng.randrange(1, 40)])
        v = rng.choice([b"HTTP/1.1", b"HTTP/1.1", b"HTTP/1.0", b"HTTP/1.9", b"HTTP/1.5"])
        return m + b" " + t + b" " + v + eol
    bad = [b"GET / HTTP/2.0", b"GET / HTTP/1.10", b"GET / HTTP/1.", b"GET / HTTP/11", b"GET / http/1.1", b"GET / HTTP/HTTP/1.1",
           b"GET  / HTTP/1.1", b"GET / HTTP/1.1 ", b"GET /HTTP/1.1", b"G / H", b"", b"GET / HTTP/1.1\r", b"GET /\x00 HTTP/1.1",
           b"GET / HTTP/0.9", b"GET / HTTP/1.a", b"GET / HTTP/+1.1", b"GET / HTTP/1.1.1", b"POST /a\rb HTTP/1.1", b" / HTTP/1.1x",
           b"GET / XHTTP/1.1", b"GET / HTTP/1.-1"]
    return rng.choice(bad) + eol


def header_lines(rng, body_kind, body_len, valid=True):
    eol = lambda: rng.choice([b"\r\n", b"\r\n", b"\r\n", b"\n"])
    hs = []
    for _ in range(rng.randrange(0, 4)):
        hs.append(rng.choice([b"Host: 127.0.0.1", b"Connection: close", b"Connection: keep-alive", b"connection:Keep-Alive",
                              b"Accept: */*", b"X-Empty:", b"X-Ws: \t v a l \t ", b"Authorization: Basic dXNlcjpwYXNz",
                              b"X:" + b"y" * rng.randrange(0, 60), b"a:b:c", b"Content-Type: application/json"]))
    if body_kind == "cl":
        n = str(body_len).encode()
        hs.append(rng.choice([b"Content-Length: " + n, b"content-length:" + n, b"Content-Length:  " + n + b"  "]))
        if rng.random() < 0.2:
            hs.append(b"Content-Length: " + n)
    elif body_kind == "chunked":
        hs.append(rng.choice([b"Transfer-Encoding: chunked", b"transfer-encoding: Chunked", b"Transfer-Encoding:CHUNKED"]))
        if rng.random() < 0.15:
            hs.append(b"Content-Length: 3")
    if not valid:
        hs.insert(rng.randrange(0, len(hs) + 1),
                  rng.choice([b"NoColonHere", b": novalue", b"Bad Name: x", b"Bad\tName: x", b"X: a\x00b", b"X: a\rb", b"\rX: y",
                              b"Content-Length: 12x", b"Content-Length: -1", b"Content-Length: +1", b"Content-Length: ",
                              b"Content-Length: 33554433", b"Content-Length: 18446744073709551616", b"Content-Length: 7\r\nContent-Length: 8",
                              b"Transfer-Encoding: chunked, gzip", b" X: leading"]))
    rng.shuffle(hs) if rng.random() < 0.3 else None
    return b"".join(h + eol() for h in hs) + eol()


def chunked_body(rng, data, valid=True):
    out = b""
    pos = 0
    eol = lambda: rng.choice([b"\r\n", b"\r\n", b"\n"])
    while pos < len(data):
        n = rng.randrange(1, max(2, min(20, len(data) - pos + 1)))
        n = min(n, len(data) - pos)
        size = rng.choice(["%x" % n, "%X" % n, "%04x" % n, " %x " % n, "%x;ext=1" % n, "%x ; a=b;c" % n])
        out += size.encode() + eol() + data[pos:pos + n] + eol()
        pos += n
    if not valid:
        out += rng.choice([b"g\r\n", b"\r\n", b"-1\r\n", b"0x5\r\nhello\r\n", b"+5\r\nhello\r\n", b"5\r\nhelloX\r\n", b"5\r\nhell\r\n\r\n",
                           b"ffffffffffffffffff\r\n", b"2000001\r\n", b"2000000\r\n", b"1ffffff\r\n", b";ext\r\n", b"5 5\r\nhello\r\n",
                           b"3\r\nabc\rX\n"])
    out += b"0" + rng.choice([b"", b";last", b"000"]) + eol()
    for _ in range(rng.randrange(0, 3)):
        out += rng.choice([b"X-Trailer: 1", b"Expires: never", b"Content-Length: 99"]) + eol()
    if not valid and rng.random() < 0.4:
        out += rng.choice([b"Bad Trailer: x", b"NoColon", b"X: a\x00"]) + eol()
    return out + eol()


def one_request(rng, bad=None):
    kind = rng.choice(["none", "none", "cl", "cl", "chunked", "chunked"])
    data = bytes(rng.randrange(32, 127) for _ in range(rng.choice([0, 1, 5, 17, 40])))
    if rng.random() < 0.2:
        data = bytes(rng.randrange(0, 256) for _ in range(len(data)))
    s = request_line(rng, valid=(bad != "line"))
    s += header_lines(rng, kind, len(data), valid=(bad != "header"))
    if kind == "cl":
        s += data if bad != "short" else data[:len(data) // 2]
    elif kind == "chunked":
        s += chunked_body(rng, data, valid=(bad != "chunk"))
    return s


def gen_stream(rng):
    n = rng.choice([1, 1, 1, 2, 2, 3])
    bad_at = rng.randrange(0, n + 1) if rng.random() < 0.55 else None
    s = b""
    for i in range(n):
        s += one_request(rng, rng.choice(["line", "header", "chunk", "short"]) if i == bad_at else None)
    if rng.random() < 0.15:
        s += rng.choice([b"\r\n", b"garbage", b"GET", b"\x00\xff\n"])
    return s


def gen_limit_stream(rng, P):
    """Streams around MAX_HEADERS_SIZE (line limit and total limit) and the chunk-size cap."""
    M = P["HTTP_MAX_HEADERS_SIZE"]
    B = P["HTTP_MAX_BODY_SIZE"]
    d = rng.choice([-2, -1, 0, 1, 2])
    k = rng.randrange(0, 7)
    if k == 0:      # one header line of exactly M + d bytes before its terminator
        line = b"X: " + b"a" * (M + d - 3)
        return b"GET / HTTP/1.1\r\n" + line + rng.choice([b"\r\n", b"\n"]) + b"\r\n"
    if k == 1:      # header section consuming M + d bytes in total, short lines
        body = b""
        while len(body) < M + d - 2 - 64:
            body += b"H%d: %s\r\n" % (len(body), b"v" * rng.randrange(1, 50))
        pad = M + d - 2 - len(body)
        body += b"P: " + b"p" * (pad - 5) + b"\r\n"
        return b"GET / HTTP/1.0\r\n" + body + b"\r\n"
    if k == 2:      # request line of M + d bytes
        t = b"/" + b"t" * (M + d - len(b"GET  HTTP/1.1") - 1)
        return b"GET " + t + b" HTTP/1.1" + rng.choice([b"\r\n", b"\n"]) + b"\r\n"
    if k == 3:      # trailers push the total over the cap
        hdr = b"Transfer-Encoding: chunked\r\n" + b"Pad: " + b"x" * (M - 200) + b"\r\n\r\n"
        used = len(hdr)
        trailer = b"T: " + b"y" * (M + d - used - 2 - 5) + b"\r\n"
        return b"POST / HTTP/1.1\r\n" + hdr + b"3\r\nabc\r\n0\r\n" + trailer + b"\r\n"
    if k == 4:      # chunk size against the body cap with some body already there
        have = rng.choice([0, 1, 10])
        size = B - have + d
        pre = (b"%x\r\n" % have + b"z" * have + b"\r\n") if have else b""
        return b"POST / HTTP/1.1\r\nTransfer-Encoding: chunked\r\n\r\n" + pre + b"%x\r\n" % size + b"abc"
    if k == 5:      # Content-Length against the body cap
        return b"POST / HTTP/1.1\r\nContent-Length: %d\r\n\r\nabc" % (B + d)
    # a chunk-size line / chunk terminator line longer than the line limit
    junk = b"1" + b";" + b"e" * (M + d - 2)
    return b"POST / HTTP/1.1\r\nTransfer-Encoding: chunked\r\n\r\n" + junk + b"\r\nA\r\n0\r\n\r\n"


def eol_cuts(stream):
    pts = set()
    for i, c in enumerate(stream):
        if c in (10, 13):
            pts.update((i, i + 1))
    return sorted(pts)


def gen(rng, tier):
    P = core.parse_params()
    m = 1 if tier == "quick" else 15
    cases = []
    seen = set()

    def add(frags):
        c = case(frags)
        if c not in seen:
            seen.add(c); cases.append(c)
    add([b""])
    # every 2-split (and empty first/last fragment) of short streams
    for _ in range(22 * m):
        s = gen_stream(rng)
        if len(s) > 150:
            s = s[:150]
        for p in range(0, len(s) + 1):
            add(cut(s, [p]))
    # every 3-split of very short streams
    for _ in range(6 * m):
        s = one_request(rng, rng.choice([None, None, "chunk", "header"]))[:34]
        for p in range(0, len(s) + 1):
            for q in range(p, len(s) + 1):
                add(cut(s, [p, q]))
    # byte by byte, and cuts around every CR / LF
    for _ in range(60 * m):
        s = gen_stream(rng)
        if len(s) <= 400:
            add([s[i:i + 1] for i in range(len(s))])
        e = eol_cuts(s)
        add(cut(s, e))
        for _ in range(3):
            add(cut(s, rng.sample(e, min(len(e), rng.randrange(1, 4)))))
    # random multi-way cuts of longer pipelines
    for _ in range(250 * m):
        s = gen_stream(rng)
        k = rng.randrange(1, 9)
        add(cut(s, [rng.randrange(0, len(s) + 1) for _ in range(k)]))
    # limits
    for _ in range(70 * m):
        s = gen_limit_stream(rng, P)
        M = P["HTTP_MAX_HEADERS_SIZE"]
        near = [p for p in (len(s) - 2, len(s) - 1, M - 1, M, M + 1, M + 15, M + 16, M + 17, M + 18) if 0 < p < len(s)]
        add([s])
        add(cut(s, [rng.choice(near)]))
        add(cut(s, rng.sample(near, min(len(near), 3)) + [rng.randrange(0, len(s))]))
        add(cut(s, [rng.randrange(0, len(s) + 1) for _ in range(rng.randrange(2, 6))]))
    return cases


def shrink(c):
    """Drop a fragment boundary, drop bytes from the end, drop a byte anywhere."""
    fr = c.split()[1:]
    fr = [bytes.fromhex(f) if f != "-" else b"" for f in fr]
    for i in range(len(fr) - 1):
        yield case(fr[:i] + [fr[i] + fr[i + 1]] + fr[i + 2:])
    if fr and fr[-1]:
        yield case(fr[:-1] + [fr[-1][:len(fr[-1]) // 2]])
        yield case(fr[:-1] + [fr[-1][:-1]])
    elif len(fr) > 1:
        yield case(fr[:-1])
    total = sum(len(f) for f in fr)
    if total <= 300:
        for i, f in enumerate(fr):
            for j in range(len(f)):
                yield case(fr[:i] + [f[:j] + f[j + 1:]] + fr[i + 1:])


TIES = [Tie("http_read_request", "tie/drivers/http_drv.cpp", "Extract_Http.v", "http_driver.ml", gen,
            predicate="driver", nontrivial=lambda c: len(c) > 40, classify=lambda c: "http/%d" % min(9, len(c.split()) - 1),
            shrink=shrink)]

LEVEL_TEXT = ("Coq theorem about a function-by-function model of LineReader, HTTPHeaders::Read, LoadControlData, LoadBody (chunked and "
              "Content-Length) and ReadRequest with the connection's dispatch loop: for EVERY connection state reachable from a new "
              "connection and ALL byte strings a, b: feed (feed c a) b = feed c (a ++ b) on the whole state (buffer, pending request with "
              "header-size accounting and chunk progress, dispatched requests, error reply inputs); hence every fragmentation of a stream "
              "gives the same dispatched requests, the same error or the same pending state as the one-shot delivery. Model tied to the "
              "real parser by differential execution under many fragmentations, and the implementation's fragmented result is compared "
              "with its own one-shot result.")
LEVEL_NOTE = ("Trusted: Coq kernel; extraction and driver glue; the hand transcription, checked by correspondence. Not covered: sockets, "
              "timeouts, keep-alive/close after a reply, ClientAllowed (-rpcallowip) and the RPC credential check (the last clause of the "
              "statement); bodies near the 32 MiB cap are only exercised through the size checks, not by sending 32 MiB.")
TECHNIQUE = "Coq proof (generic resumption theorem for the parser's loops + per-phase extension lemmas) + differential correspondence"
