from vlib.runner import Tie
from vlib import core
from props import ledger_gen as G

ID = "C09"
LEVEL = "proof"
DESIGN_REF = "DESIGN.md section 5, C09 (and the chainsim driver at the start of section 5)"
PROP_FILES = ["props/Properties_C09.v"]
RULE = ("cases: operation scripts run against a fresh regtest node (TestChain100Setup) with real blocks and transactions: "
        "branches of 1-3 blocks that spend fan-out outputs and matured coinbases, competing longer branches that spend the same "
        "coins differently or include the same transactions again, branches with an invalid block in the middle (partial reorg and "
        "return), invalidateblock / reconsiderblock at every depth, children submitted before parents, a coinbase duplicated after "
        "being spent (BIP34 off) and reorged away; UTXO dumps (CoinsTip lookups, or flush + coins-db cursor) after the reorgs. "
        "Non-trivial = the script submits at least two blocks; distinct = distinct case lines.")
ASSUMPTIONS = ["BIP30 is enforced for the blocks in play (cf_bip30 = true): premise of the history theorems; without it a coinbase may overwrite "
               "an unspent coin and DisconnectBlock cannot restore it (the two historical mainnet blocks)",
               "script validity of an input is a bit carried by the model's transaction (the interpreter is out of scope); in the tie the driver "
               "really builds a valid or an invalid scriptSig/witness accordingly",
               "the model of ConnectBlock/DisconnectBlock/UpdateCoins/ApplyTxInUndo is a hand transcription, tied to the code by the correspondence; "
               "undo data is kept in memory (WriteBlockUndo/ReadBlockUndo serialization is not modelled)",
               "which blocks the node tries to connect (chain selection) is outside C09: the model driver replays it with OCaml glue, and the "
               "property's predicate uses the tip the implementation reported"]
TRUSTED = ["Coq 8.16.1 kernel (coqc; vm_compute in the examples)",
           "tie/dump_params.cpp prints MAX_MONEY, COINBASE_MATURITY, the regtest halving interval, MAX_BLOCK_WEIGHT from the compiled tree",
           "extraction: ExtrOcamlBasic only; ocaml/conv.ml + ledger_driver.ml glue (script parsing, names <-> ids, merkle-mutation test, "
           "block-tree bookkeeping)",
           "tie/drivers/ledger_drv.cpp builds the blocks the script describes, calls ProcessNewBlock / InvalidateBlock / ReconsiderBlock and "
           "prints BlockChecked verdicts, the tip and the UTXO set"]

TIES = [Tie("chainsim_utxo", "tie/drivers/ledger_drv.cpp", "Extract_Ledger.v", "ledger_driver.ml", G.gen_chain("C09"), mode="C09",
            predicate="driver", nontrivial=lambda c: c.count("submit ") >= 2, classify=G.classify, shrink=G.shrink, timeout=3000)]

LEVEL_TEXT = ("Coq theorems about an executable model of ConnectBlock/UpdateCoins and DisconnectBlock/ApplyTxInUndo: disconnecting a block "
              "restores the previous UTXO map exactly (map equality on a canonical representation: values, heights and coinbase flags), and "
              "for EVERY sequence of connects, disconnects and reorganisations from genesis the chain state equals the fold of ConnectBlock "
              "over the active chain. Model tied to the real node by running reorg scripts with real blocks through ProcessNewBlock / "
              "InvalidateBlock and comparing verdicts, tips and UTXO dumps; the predicate replays the implementation's reported chain.")
LEVEL_NOTE = ("Trusted: Coq kernel, dump_params.cpp, extraction + driver glue. Premise cf_bip30 = true (see ASSUMPTIONS). Not modelled: undo "
              "serialization (undo.h) and block storage, the CCoinsViewCache layering (family coins), chain selection (family ChainSel), "
              "snapshot chainstates. DESIGN.md's undo_roundtrip through the Serialize model of CTxUndo is not part of this check.")
TECHNIQUE = "Coq proof (inverse theorem + invariant over all histories) + differential correspondence on reorg scripts against the real node"
