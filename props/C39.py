import re
from vlib.runner import Tie
from vlib import core

ID = "C39"
LEVEL = "partial"
DESIGN_REF = "DESIGN.md section 5, C39"
PROP_FILES = ["props/Properties_C39.v"]
RULE = ("relay tie: scripts of mempool submissions (BroadcastTransaction), removals (expiry), blocks, SendMessages rounds (trickles) and GETDATA "
        "requests over up to 4 mock peers (outbound, inbound, inbound noban, inbound with the mempool permission) on the real PeerManager/mempool "
        "of a regtest node; compared: entry and mempool sequence numbers, m_last_inv_sequence of the peer after every round, and the answer "
        "(tx / notfound) to every request, aimed at requests just before/after the peer's announcement snapshot; every third script also submits "
        "transactions with NO_MEMPOOL_PRIVATE_BROADCAST, opens private-broadcast connections (which tx is INVed), requests on them, and delivers the "
        "tx back from the network. private-broadcast tie: scripts "
        "of Add/Remove/PickTxForSend/GetTxForNode/NodeConfirmedReception/DidNodeConfirmReception/HavePendingTransactions/GetStale on the real "
        "PrivateBroadcast with limits 1-3, node-id reuse, re-adds of exhausted transactions. non-trivial = at least 4 operations")
ASSUMPTIONS = ["the mempool sequence counter (uint64) does not wrap (premise seq_ok of the relay theorems)",
               "the iteration order of PrivateBroadcast::m_transactions only matters for ties of max_element; the model accepts any maximal element",
               "whether a SendMessages round takes an announcement snapshot (queue not empty) is an input of the relay model; the theorems quantify over it",
               "the PeerManager-level behaviour of private broadcast is tied (ptx / pconn / pget / recv operations of the relay tie) with the relay model and "
               "the PrivateBroadcast model run side by side; ping/pong confirmation and the stale-rebroadcast timer are not exercised"]
TRUSTED = ["Coq 8.16.1 kernel (coqc)", "tie/dump_params.cpp (+ tie/params/p2pd.h) prints PrivateBroadcast::MAX_TRANSACTIONS / MAX_SEND_ATTEMPTS",
           "extraction: ExtrOcamlBasic only; ocaml/conv.ml + txrelay_driver.ml / privbcast_driver.ml glue",
           "tie/p2pd_harness.h + txrelay_drv.cpp: regtest TestChain100Setup, ConnmanTestMsg mock peers, CaptureMessage hook, PeerManager registered as validation interface",
           "tie/drivers/privbcast_drv.cpp: public API of PrivateBroadcast only"]


class HintTie(Tie):
    """The implementation's output is '<observations> ##<hints>'; the hints (its nondeterministic choices) are given to the model."""
    def __init__(self, *a, **k):
        super().__init__(*a, **k)
        self.hints = {}

    def run_impl(self, cpp, cases):
        outs = super().run_impl(cpp, cases)
        res = []
        hl = []
        for c, o in zip(cases, outs):
            obs, _, h = o.partition(" ##")
            self.hints[c] = h
            hl.append(h)
            res.append(self.canon(obs))
        # the same script can occur twice in a run with different hints (the mempool sequence at its start): keep them by position
        self.last_cases, self.last_hints = list(cases), hl
        return res

    def aug_all(self, cases):
        if getattr(self, "last_cases", None) == list(cases):
            return [c + " ##" + h for c, h in zip(cases, self.last_hints)]
        return [c + " ##" + self.hints.get(c, "") for c in cases]

    def run_model(self, mdl, cases):
        rc, out, err = core.run_lines(mdl, ["model"], self.aug_all(cases), self.timeout)
        if len(out) != len(cases):
            raise core.InfraError("model driver returned %d lines for %d cases (rc=%s)\nstderr: %s" % (len(out), len(cases), rc, err[-2000:]))
        return [self.canon(o) for o in out]

    def run_holds(self, mdl, cases, impl):
        lines = [a + " => " + i for a, i in zip(self.aug_all(cases), impl)]
        rc, out, err = core.run_lines(mdl, ["holds"], lines, self.timeout)
        if len(out) != len(cases):
            raise core.InfraError("model driver (holds) returned %d lines for %d cases\nstderr: %s" % (len(out), len(cases), err[-2000:]))
        return out


ARITY_R = {"peer": 1, "tx": 1, "rm": 1, "block": 0, "trickle": 1, "getdata": 2, "mpreq": 1, "ptx": 1, "recv": 2, "pconn": 0, "pget": 2}
ARITY_P = {"t": 1, "add": 1, "rm": 1, "pick": 1, "get": 1, "conf": 1, "did": 1, "pend": 0, "stale": 0}


def split_ops(w, arity):
    ops, i = [], 0
    while i < len(w):
        n = arity[w[i]]
        ops.append(w[i:i + 1 + n])
        i += 1 + n
    return ops


def shrink_relay(case):
    ops = split_ops(case.split(), ARITY_R)
    for i in range(len(ops) - 1, -1, -1):
        if ops[i][0] not in ("peer", "pconn"):     # connection indices must stay valid
            yield " ".join(" ".join(o) for o in ops[:i] + ops[i + 1:])


def shrink_pb(case):
    w = case.split()
    ops = split_ops(w[2:], ARITY_P)
    for i in range(len(ops) - 1, -1, -1):
        yield " ".join(w[:2] + [" ".join(o) for o in ops[:i] + ops[i + 1:]])


def gen_relay(rng, tier):
    cases = []
    n = 260 if tier == "quick" else 4000
    for it in range(n):
        kinds = [rng.choice([0, 1, 2, 2, 3]) for _ in range(rng.choice([1, 2, 3, 4]))]
        ops = ["peer %d" % k for k in kinds]
        np = len(kinds)          # ordinary peers have indices 0..np-1; private-broadcast connections get the following indices
        nconn = np
        pconns = []
        ntx = 0
        live = []                # in the mempool
        confirmed = set()
        private = []             # submitted for private broadcast
        trickles = 0
        priv = (it % 3 == 0)     # every third script exercises private broadcast
        for _ in range(rng.choice([6, 10, 16, 24])):
            r = rng.random()
            if priv and r < 0.14 and ntx < 7:
                ops.append("ptx %d" % ntx); private.append(ntx); ntx += 1
                if rng.random() < 0.5:
                    ops.append("getdata %d %d" % (rng.randrange(np), ntx - 1))      # ordinary peers must not get it
            elif priv and r < 0.26:
                ops.append("pconn"); pconns.append(nconn); nconn += 1
                if private and rng.random() < 0.8:
                    ops.append("pget %d %d" % (nconn - 1, rng.choice(private)))
            elif priv and r < 0.32 and pconns and ntx > 0:
                ops.append("pget %d %d" % (rng.choice(pconns), rng.randrange(ntx)))
            elif priv and r < 0.40 and private:
                i = rng.choice(private)
                if i not in confirmed:
                    ops.append("recv %d %d" % (rng.randrange(np), i))
                    if i not in live: live.append(i)
            elif priv and r < 0.44 and private:
                i = rng.choice(private)
                if i not in confirmed:
                    ops.append("tx %d" % i)      # submitted without private broadcast
                    if i not in live: live.append(i)
            elif r < 0.55 and ntx < 7 and rng.random() < 0.5:
                ops.append("tx %d" % ntx); live.append(ntx); ntx += 1
                # the boundary: request right after admission, before and after the next snapshot
                if rng.random() < 0.6:
                    p = rng.randrange(np)
                    ops.append("getdata %d %d" % (p, ntx - 1))
                    if rng.random() < 0.7 and trickles < 9:
                        ops.append("trickle %d" % p); trickles += 1
                        ops.append("getdata %d %d" % (p, ntx - 1))
            elif r < 0.62 and trickles < 9:
                p = rng.randrange(np)
                if kinds[p] == 3 and rng.random() < 0.5:
                    ops.append("mpreq %d" % p)
                else:
                    ops.append("trickle %d" % p)
                trickles += 1
            elif r < 0.86 and ntx > 0:
                ops.append("getdata %d %d" % (rng.randrange(np), rng.randrange(ntx)))
            elif r < 0.91 and live:
                i = rng.choice(live); live.remove(i); ops.append("rm %d" % i)
            elif r < 0.96:
                ops.append("block"); confirmed.update(live); live = []
            elif ntx > 0:
                i = rng.randrange(ntx)
                if i not in private:
                    ops.append("tx %d" % i)   # resubmission (already in mempool / already confirmed / removed earlier)
                    if i not in confirmed and i not in live: live.append(i)
        cases.append(" ".join(ops))
    return cases


def gen_pb(rng, tier):
    cases = []
    n = 1500 if tier == "quick" else 30000
    for _ in range(n):
        max_tx = rng.choice([1, 2, 3, 3, 5])
        max_send = rng.choice([1, 2, 2, 3])
        now = 1700000000
        ops = []
        node = 0
        used_nodes = []
        for _ in range(rng.choice([5, 12, 25, 40])):
            r = rng.random()
            if r < 0.22:
                ops.append("add %d" % rng.randrange(max_tx + 2))
            elif r < 0.30:
                ops.append("rm %d" % rng.randrange(max_tx + 2))
            elif r < 0.55:
                if used_nodes and rng.random() < 0.15:
                    ops.append("pick %d" % rng.choice(used_nodes))      # node id reuse
                else:
                    node += 1; used_nodes.append(node); ops.append("pick %d" % node)
            elif r < 0.68 and used_nodes:
                ops.append("conf %d" % rng.choice(used_nodes + [99]))
            elif r < 0.76:
                ops.append("get %d" % (rng.choice(used_nodes) if used_nodes and rng.random() < 0.8 else 98))
            elif r < 0.82 and used_nodes:
                ops.append("did %d" % rng.choice(used_nodes + [97]))
            elif r < 0.88:
                ops.append("pend")
            elif r < 0.94:
                ops.append("stale")
            else:
                now += rng.choice([1, 59, 60, 61, 299, 300, 301, 1000])
                ops.append("t %d" % now)
        cases.append("%d %d %s" % (max_tx, max_send, " ".join(ops)))
    return cases


TIES = [HintTie("privbcast_queue", "tie/drivers/privbcast_drv.cpp", "Extract_PrivBcast.v", "privbcast_driver.ml", gen_pb,
                predicate="driver", nontrivial=lambda c: len(c.split()) >= 8, classify=lambda c: "queue", shrink=shrink_pb),
        HintTie("relay_getdata", "tie/drivers/txrelay_drv.cpp", "Extract_TxRelay.v", "txrelay_driver.ml", gen_relay,
                predicate="driver", nontrivial=lambda c: len(c.split()) >= 8, classify=lambda c: "relay", shrink=shrink_relay,
                canon=lambda s: re.sub(r"@[\d,\-]*", "", s))]

LEVEL_TEXT = ("Coq theorems over all interleavings of mempool admissions/removals, blocks, new peers, announcement snapshots and requests: a GETDATA "
              "is answered from the mempool iff the entry's sequence number is below the peer's m_last_inv_sequence, which (invariant linking the "
              "sequence numbers to the order of events) holds iff the transaction entered the mempool before the peer's last announcement snapshot "
              "(or was re-added from a disconnected block); otherwise only transactions of the most recent block are served. For the "
              "PrivateBroadcast queue, over all operation sequences: at most max_transactions entries, at most max_send_attempts send statuses per "
              "transaction since its (re-)addition, a node id is recorded for at most one transaction, PickTxForSend returns a pending transaction "
              "of maximal priority or nothing. Both models are tied to the real code (PeerManager level for relay, class level for the queue).")
LEVEL_NOTE = ("Residue: that a private submission leaves the mempool alone and that a private-broadcast connection INVs exactly the picked transaction and serves only it are part of the model by construction (EPrivate does not touch the pool; pconn/pget use the PrivateBroadcast model) and are established for the real PeerManager by the correspondence (BroadcastTransaction(NO_MEMPOOL_PRIVATE_BROADCAST), private-broadcast connections, GETDATA on them, reception back from the network), not by a theorem about net_processing. Trusted: Coq kernel, extraction + driver glue, the test harness. Not modelled: the inventory rate-limiting buckets and the trickle timers "
              "(whether a round takes a snapshot is an input), bloom/fee filters, and "
              "the NodeConfirmedReception / stale-rebroadcast scheduling of private broadcast.")
TECHNIQUE = "Coq proof (state-machine invariants by induction over event sequences) + differential correspondence on the real PeerManager / PrivateBroadcast"
