"""Case generators of the `ledger` family (C01, C02, C09): operation scripts for the chainsim drivers
(tie/drivers/ledger_drv.cpp / ocaml/ledger_driver.ml) and function-level CheckTxInputs cases.
Python stdlib only; all randomness comes from the rng that is passed in."""

COIN = 10 ** 8
MAXM = 21 * 10 ** 14
I64 = 2 ** 63 - 1
HALVING = 150          # regtest; only used to aim at boundaries (the drivers use the real constants)


def subsidy(h):
    k = h // HALVING
    return 0 if k >= 64 else (50 * COIN) >> k


class Sc:
    """Builds one script and keeps a rough ledger so that boundary amounts can be aimed at."""

    def __init__(self, rng, nobip34=False):
        self.rng = rng
        self.ops = ["nobip34"] if nobip34 else []
        self.ntx = 0
        self.nblk = 0
        self.height = {"F": 100}
        self.vals = {}      # (name, n) -> (value, kind)
        self.fee = {}       # tx -> fee, when every input value is known
        for k in range(1, 101):
            self.vals[("f%d" % k, 0)] = (50 * COIN, "p")

    # --- ops ---
    def tx(self, ins, outs, name=None):
        """ins: list of (src, n, ok) or "null"; outs: list of (value, kind)"""
        self.ntx += 1
        name = name or "t%d" % self.ntx
        its = []
        vin = 0
        known = True
        for i in ins:
            if i == "null":
                its.append("null")
                known = False
            else:
                src, n, ok = i
                its.append("%s:%d%s" % (src, n, "+" if ok else "-"))
                if (src, n) in self.vals:
                    vin += self.vals[(src, n)][0]
                else:
                    known = False
        ots = ",".join("%d%s" % (v, k) for v, k in outs) if outs else "-"
        self.ops.append("tx %s %s %s" % (name, ",".join(its), ots))
        for n, (v, k) in enumerate(outs):
            if k in "wk":
                self.vals[(name, n)] = (v, k)
        if known:
            self.fee[name] = vin - sum(v for v, _ in outs)
        return name

    def mine(self, parent, cb, txs=(), name=None):
        """cb: list of (value, kind), or "dup:<blk>" """
        self.nblk += 1
        name = name or "b%d" % self.nblk
        self.height[name] = self.height[parent] + 1
        if isinstance(cb, str):
            cbs = cb
        else:
            cbs = ",".join("%d%s" % (v, k) for v, k in cb) if cb else "-"
            for n, (v, k) in enumerate(cb):
                if k in "wk":
                    self.vals[(name, n)] = (v, k)
        self.ops.append("mine %s %s %s%s" % (name, parent, cbs, "".join(" " + t for t in txs)))
        return name

    def reward(self, parent, txs=()):
        return subsidy(self.height[parent] + 1) + sum(max(0, self.fee.get(t, 0)) for t in txs)

    def block(self, parent, txs=(), delta=0, submit=True, split=1, name=None):
        """mine (+submit) a block whose coinbase claims subsidy + fees + delta, in `split` outputs"""
        r = self.reward(parent, txs) + delta
        if split <= 1 or r < split:
            cb = [(r, "w")]
        else:
            parts = [r // split] * split
            parts[0] += r - sum(parts)
            cb = [(p, self.rng.choice("wwk")) for p in parts]
        b = self.mine(parent, cb, txs, name)
        if submit:
            self.submit(b)
        return b

    def submit(self, b): self.ops.append("submit " + b)
    def invalidate(self, b): self.ops.append("invalidate " + b)
    def reconsider(self, b): self.ops.append("reconsider " + b)
    def flush(self): self.ops.append("flush")
    def dump(self, db=None):
        if db is None:
            db = self.rng.random() < 0.35
        self.ops.append("dumpdb" if db else "dump")

    def line(self):
        return " ; ".join(self.ops)

    # --- helpers ---
    def fanout(self, parent="F", n=None, src="f1", fee=None, submit=True, kinds="wwwk"):
        """a block on `parent` whose one transaction splits a matured fixture coinbase into n spendable outputs"""
        rng = self.rng
        n = n or rng.randrange(4, 9)
        fee = rng.choice([0, 0, 1, 1000, 12345]) if fee is None else fee
        tot = 50 * COIN - fee
        parts = []
        for i in range(n - 1):
            v = rng.choice([1, 546, 10000, COIN, 3 * COIN, tot // (2 * n)])
            parts.append(v)
        parts.append(tot - sum(parts))
        outs = [(v, rng.choice(kinds)) for v in parts]
        t = self.tx([(src, 0, True)], outs)
        b = self.block(parent, [t], submit=submit)
        return b, t, [(t, i) for i in range(n)]

    def spend(self, coins, fee=0, nout=None, kinds="wwwkr", ok=True):
        """a transaction spending the given (src, n) coins (all known), paying `fee`"""
        rng = self.rng
        vin = sum(self.vals[c][0] for c in coins)
        nout = nout or rng.randrange(1, 4)
        tot = vin - fee
        if tot < nout:
            nout = 1
        outs = []
        left = tot
        for i in range(nout - 1):
            v = rng.randrange(0, max(1, left // 2 + 1))
            outs.append(v)
            left -= v
        outs.append(left)
        outs = [(v, rng.choice(kinds)) for v in outs]
        return self.tx([(s, n, ok) for (s, n) in coins], outs)


# ------------------------------------------------------------------------------------------------
# scenarios (each returns one case line)

def sc_linear(rng):
    s = Sc(rng)
    tip, t, coins = s.fanout()
    avail = list(coins)
    if rng.random() < 0.5:
        s.dump()
    nb = rng.randrange(1, 5)
    for bi in range(nb):
        txs = []
        for _ in range(rng.randrange(1, 4)):
            if not avail:
                break
            k = min(len(avail), rng.randrange(1, 4))
            cs = [avail.pop(rng.randrange(len(avail))) for _ in range(k)]
            cs = [c for c in cs if c in s.vals]
            if not cs:
                continue
            fee = rng.choice([0, 0, 1, 777, 10 ** 5])
            fee = min(fee, sum(s.vals[c][0] for c in cs))
            nt = s.spend(cs, fee=fee)
            txs.append(nt)
            for n in range(4):
                if (nt, n) in s.vals:
                    avail.append((nt, n))
        last = bi == nb - 1
        delta = rng.choice([0, 0, 0, -1, -5000]) if not last else rng.choice([0, 0, -1, 1, 1, 2])
        if s.reward(tip, txs) + delta < 0:
            delta = 0
        b = s.block(tip, txs, delta=delta, split=rng.choice([1, 1, 2, 3]))
        if delta <= 0:
            tip = b
        if rng.random() < 0.3:
            s.flush()
        if rng.random() < 0.3:
            s.dump()
    s.dump()
    return s.line()


def sc_cb_boundary(rng):
    s = Sc(rng)
    tip, t, coins = s.fanout(n=8)
    k = rng.randrange(1, 6)
    txs = []
    for c in coins[:k]:
        v = s.vals[c][0]
        fee = rng.choice([0, 1, 2, 999, v, v // 2])
        txs.append(s.spend([c], fee=min(fee, v), kinds="wk"))
    d = rng.choice([-1, 0, 1, 1, 2, -COIN])
    if rng.random() < 0.3:
        # the coinbase burns part of its claim in an OP_RETURN output
        r = s.reward(tip, txs) + d
        x = rng.randrange(0, max(1, r))
        b = s.mine(tip, [(r - x, "w"), (x, "r")], txs)
        s.submit(b)
    else:
        s.block(tip, txs, delta=d, split=rng.choice([1, 2, 4]))
    s.dump()
    if d > 0:
        # the same transactions with an honest coinbase are then accepted
        s.block(tip, txs, delta=0)
        s.dump()
    return s.line()


def sc_dup_input(rng):
    s = Sc(rng)
    tip, t, coins = s.fanout(n=6)
    n = rng.randrange(2, 6)
    cs = [coins[i] for i in range(n)]
    i = rng.randrange(0, n - 1)
    j = rng.randrange(i + 1, n)
    cs2 = list(cs)
    cs2[j] = cs2[i]
    vin = sum(s.vals[c][0] for c in cs2)
    # pays out as if the duplicated coin counted twice: accepting it would create value
    bad = s.tx([(a, b, True) for a, b in cs2], [(vin - rng.choice([0, 1, 500]), "w")])
    pos = rng.randrange(0, 3)
    others = [s.spend([coins[5]], fee=1)] if pos else []
    b = s.block(tip, others + [bad] if pos == 1 else [bad] + others)
    s.dump()
    good = s.spend(cs, fee=3)
    s.block(tip, [good])
    s.dump()
    return s.line()


def sc_double_spend(rng):
    s = Sc(rng)
    tip, t, coins = s.fanout(n=6)
    c = coins[rng.randrange(0, 4)]
    a = s.spend([c], fee=rng.choice([0, 1]), kinds="wk")
    extra = [coins[4]] if rng.random() < 0.5 else []
    b_ = s.spend([c] + extra, fee=rng.choice([0, 7]), kinds="wk")
    filler = s.spend([coins[5]], fee=0, kinds="w")
    mode = rng.randrange(0, 4)
    if mode == 0:      # same block, any positions
        txs = [a, b_]
        txs.insert(rng.randrange(0, 3), filler)
        if rng.random() < 0.5:
            txs.reverse()
        s.block(tip, txs)
        s.dump()
        s.block(tip, [a, filler])
        s.dump()
    elif mode == 1:    # across blocks
        b1 = s.block(tip, [a])
        s.block(b1, [b_, filler])
        s.dump()
        s.block(b1, [filler])
        s.dump()
    elif mode == 2:    # the very same transaction twice in one block, not adjacent at the end
        s.block(tip, [a, filler, a] if rng.random() < 0.5 else [a, a, filler])
        s.dump()
    else:              # adjacent duplicates at the end: the merkle-mutation check fires
        s.block(tip, [filler, a, a] if rng.random() < 0.5 else [a, a])
        s.dump()
    return s.line()


def sc_forward(rng):
    s = Sc(rng)
    tip, t, coins = s.fanout(n=5)
    t1 = s.spend([coins[0]], fee=1, nout=2, kinds="w")
    t2 = s.spend([(t1, 0)], fee=2, kinds="wk")
    t3 = s.spend([(t2, 0), (t1, 1)], fee=0, kinds="w") if (t2, 0) in s.vals and (t1, 1) in s.vals and rng.random() < 0.6 else None
    chain = [t1, t2] + ([t3] if t3 else [])
    mode = rng.randrange(0, 3)
    if mode == 0:
        bad = list(chain)
        i = rng.randrange(0, len(bad) - 1)
        bad[i], bad[i + 1] = bad[i + 1], bad[i]
        s.block(tip, bad)
        s.dump()
        s.block(tip, chain)
    elif mode == 1:
        s.block(tip, chain)
    else:
        b = s.block(tip, [t1])
        s.block(b, chain[1:])
    s.dump()
    return s.line()


def sc_unspendable(rng):
    s = Sc(rng)
    tip, t, coins = s.fanout(n=5)
    v = s.vals[coins[0]][0]
    burn = rng.randrange(0, v + 1)
    kind = rng.choice("rx")
    t1 = s.tx([(coins[0][0], coins[0][1], True)], [(v - burn, "w"), (burn, kind), (0, "r")])
    b = s.block(tip, [t1])
    s.dump()
    mode = rng.randrange(0, 5)
    if mode == 0:
        bad = s.tx([(t1, 1, True)], [(burn, "w")])          # spend of the unspendable output
    elif mode == 1:
        bad = s.tx([(t1, 3, True)], [(1, "w")])             # index past the outputs
    elif mode == 2:
        bad = s.tx([("ghost", 0, True)], [(1, "w")])        # never created
    elif mode == 3:
        bad = s.tx([(coins[0][0], coins[0][1], True)], [(1, "w")])  # already spent in an earlier block
    else:
        bad = s.tx([(t1, 0, True), (t1, 2, True)], [(1, "w")])      # one good input, one OP_RETURN input
    s.block(b, [bad])
    s.dump()
    ok = s.spend([(t1, 0)], fee=0, kinds="w") if (t1, 0) in s.vals and s.vals[(t1, 0)][0] > 0 else None
    s.block(b, [ok] if ok else [])
    s.dump()
    return s.line()


def _branch(s, rng, fork, length, pool, reuse=(), bad_at=None, bad_kind=None):
    """a branch of `length` blocks on `fork` spending coins from `pool` (list of (src,n)); `reuse`: transactions of a
    competing branch to include again; returns (blocks, txs)"""
    tip = fork
    blocks = []
    alltx = []
    pool = list(pool)
    reuse = list(reuse)
    for i in range(length):
        txs = []
        if reuse and rng.random() < 0.6:
            txs.append(reuse.pop(0))
        for _ in range(rng.randrange(0, 3)):
            if pool:
                c = pool.pop(rng.randrange(len(pool)))
                if c in s.vals:
                    nt = s.spend([c], fee=rng.choice([0, 1, 100]), kinds="wwk")
                    txs.append(nt)
                    for n in range(3):
                        if (nt, n) in s.vals:
                            pool.append((nt, n))
        delta = 0
        if bad_at == i:
            if bad_kind == "cb":
                delta = 1
            elif bad_kind == "missing":
                txs.append(s.tx([("ghost%d" % s.ntx, 0, True)], [(1, "w")]))
        b = s.block(tip, txs, delta=delta, submit=False)
        blocks.append(b)
        alltx += txs
        tip = b
    return blocks, alltx


def sc_reorg(rng):
    s = Sc(rng)
    base, t, coins = s.fanout(n=8)
    la = rng.randrange(1, 4)
    poolA = coins[:5]
    A, txA = _branch(s, rng, base, la, poolA)
    for b in A:
        s.submit(b)
    s.dump()
    lb = la + 1
    bad_at = rng.randrange(0, lb) if rng.random() < 0.3 else None
    # B spends the same coins differently (conflicts) and may include some of A's transactions again
    # (mostly the first ones: their inputs come from below the fork, so they are valid on B too)
    reuse = [x for x in txA[:3] if rng.random() < 0.5]
    B, txB = _branch(s, rng, base, lb, coins[2:], reuse=reuse, bad_at=bad_at, bad_kind=rng.choice(["cb", "missing"]))
    order = list(B)
    if rng.random() < 0.2:
        order.reverse()          # children first: prev-blk-not-found, then resubmitted
        for b in order:
            s.submit(b)
        order.reverse()
    for b in order:
        s.submit(b)
        if rng.random() < 0.3:
            s.dump()
    s.dump()
    if rng.random() < 0.5:
        # extend A past B: reorg back
        tip = A[-1]
        for _ in range(lb - la + 1):
            tip = s.block(tip, [], submit=True)
        s.dump()
    return s.line()


def sc_invalidate(rng):
    s = Sc(rng)
    base, t, coins = s.fanout(n=8)
    n = rng.randrange(2, 5)
    A, txA = _branch(s, rng, base, n, coins[:6])
    for b in A:
        s.submit(b)
    s.dump()
    k = rng.randrange(0, n)
    s.invalidate(A[k])
    s.dump()
    mode = rng.randrange(0, 3)
    if mode == 0:
        s.reconsider(A[k])
        s.dump()
    elif mode == 1:
        # a competing block at the invalidated height, then reconsider: the longer original chain wins again
        par = base if k == 0 else A[k - 1]
        s.block(par, [], submit=True)
        s.dump()
        s.reconsider(A[rng.randrange(k, n)])
        s.dump()
    else:
        if k + 1 < n:
            s.submit(A[k + 1])   # descendant of an invalid block: duplicate-invalid
        s.invalidate(base)
        s.dump()
        s.reconsider(base)
        s.dump()
    return s.line()


def sc_maturity(rng):
    s = Sc(rng)
    tip = "F"
    n = rng.randrange(0, 4)
    for _ in range(n):
        tip = s.block(tip, [])
    h = s.height[tip] + 1
    k_ok = h - 100
    k_bad = h - 99
    which = rng.randrange(0, 4)
    if which == 0:
        t = s.spend([("f%d" % k_ok, 0)], fee=1, kinds="w")
        s.block(tip, [t])
    elif which == 1:
        t = s.spend([("f%d" % k_bad, 0)], fee=1, kinds="w")
        s.block(tip, [t])
        s.dump()
        tip2 = s.block(tip, [])
        s.block(tip2, [t])      # one block later it is mature
    elif which == 2 and n > 0:
        t = s.spend([("b1", 0)], fee=1, kinds="w")   # a script block's own coinbase: far from mature
        s.block(tip, [t])
    else:
        t = s.spend([("f%d" % k_ok, 0), ("f%d" % k_bad, 0)], fee=1, kinds="w") if k_bad <= 100 else s.spend([("f%d" % k_ok, 0)], fee=0)
        s.block(tip, [t])
    s.dump()
    return s.line()


def sc_scripts(rng):
    s = Sc(rng)
    kinds = rng.choice(["w", "k", "wk"])
    tip, t, coins = s.fanout(n=6, kinds=kinds)
    which = rng.randrange(0, 5)
    c = coins[rng.randrange(0, 3)]
    badtx = s.spend([c], fee=1, ok=False, kinds="w")
    if which == 0:
        s.block(tip, [badtx])
    elif which == 1:
        miss = s.tx([("ghost", 1, True)], [(1, "w")])
        s.block(tip, [badtx, miss])           # the later failure is the one reported
    elif which == 2:
        s.block(tip, [badtx], delta=1)        # bad-cb-amount is tested before the script queue is drained
    elif which == 3:
        bad2 = s.tx([("f1", 0, False)], [(1, "w")], name="tq")   # fixture coin already spent AND bad script
        s.block(tip, [bad2])
    else:
        # one good and one bad input in the same transaction
        mixed = s.tx([(coins[3][0], coins[3][1], True), (coins[4][0], coins[4][1], False)], [(5, "w")])
        s.block(tip, [mixed])
    s.dump()
    good = s.spend([c], fee=1, kinds="w")
    s.block(tip, [good])
    s.dump()
    return s.line()


def sc_values(rng):
    s = Sc(rng)
    tip, t, coins = s.fanout(n=6)
    c = coins[0]
    v = s.vals[c][0]
    which = rng.randrange(0, 8)
    if which == 0:
        bad = s.tx([(c[0], c[1], True)], [(v + 1, "w")])
    elif which == 1:
        bad = s.tx([(c[0], c[1], True)], [(-1, "w"), (v, "w")])
    elif which == 2:
        bad = s.tx([(c[0], c[1], True)], [(MAXM + 1, "w")])
    elif which == 3:
        bad = s.tx([(c[0], c[1], True)], [(MAXM, "w"), (1, "w")])
    elif which == 4:
        bad = s.tx([(c[0], c[1], True)], [(v // 2 + 1, "w"), (v - v // 2, "k")])
    elif which == 5:
        bad = s.tx([(c[0], c[1], True)], [(I64, "w"), (1, "w")])
    elif which == 6:
        bad = s.tx([(c[0], c[1], True), (coins[1][0], coins[1][1], True)], [(v + s.vals[coins[1]][0] + 1, "w")])
    else:
        bad = s.tx([(c[0], c[1], True)], [(v, "w"), (0, "r"), (1, "w")])
    s.block(tip, [bad])
    s.dump()
    cbw = rng.randrange(0, 4)
    if cbw == 0:
        b = s.mine(tip, [(MAXM, "w")], [])
    elif cbw == 1:
        b = s.mine(tip, [(-1, "w"), (50 * COIN, "w")], [])
    elif cbw == 2:
        b = s.mine(tip, [(MAXM, "w"), (MAXM, "w")], [])
    else:
        b = s.mine(tip, [(50 * COIN, "w"), (1, "r")], [])
    s.submit(b)
    s.dump()
    return s.line()


def sc_bip30(rng):
    nob = rng.random() < 0.6
    s = Sc(rng, nobip34=nob)
    tip, t, coins = s.fanout(n=4)
    which = rng.randrange(0, 4)
    if which == 0 and nob:
        # the coinbase of a coinbase-only block again (same witness commitment): its output is unspent
        ba = s.block(tip, [])
        top = ba if rng.random() < 0.5 else s.block(ba, [])
        b2 = s.mine(top, "dup:" + ba, [])
        s.submit(b2)
    elif which == 1:
        s.block(tip, [t])                     # the fan-out transaction again: outputs unspent -> BIP30
    elif which == 2:
        sp = s.spend([coins[0]], fee=0, kinds="w")
        b2 = s.block(tip, [sp])
        s.block(b2, [t])                      # partly spent: still BIP30
    else:
        sp = s.spend(list(coins), fee=0, nout=1, kinds="w")
        b2 = s.block(tip, [sp])
        s.dump()
        s.block(b2, [t])                      # completely spent: BIP30 passes, the input is gone
    s.dump()
    return s.line()


def sc_halving(rng):
    s = Sc(rng)
    tip = "F"
    while s.height[tip] < HALVING - 2:
        tip = s.block(tip, [])
    tip = s.block(tip, [], delta=rng.choice([0, -1]))          # height 149: still 50
    d = rng.choice([0, 1, 25 * COIN])
    b = s.block(tip, [], delta=d)                               # height 150: 25
    if d == 0:
        tip = b
    else:
        tip = s.block(tip, [])
    s.block(tip, [], delta=rng.choice([0, 1]))
    s.dump(db=True)
    return s.line()


def sc_dupcb_spent(rng):
    """BIP34 off: a coinbase is duplicated after its only output was spent (allowed by BIP30), then reorged away"""
    s = Sc(rng, nobip34=True)
    b1 = s.mine("F", [(rng.choice([25 * COIN, 20 * COIN, 1]), "w")], [])   # at most the subsidy after the halving
    s.submit(b1)
    tip = b1
    while s.height[tip] < 200:
        tip = s.block(tip, [])
    sp = s.spend([(b1, 0)], fee=0, nout=1, kinds="w")
    tip = s.block(tip, [sp])
    s.dump()
    d = s.mine(tip, "dup:" + b1, [])
    s.submit(d)
    s.dump()
    s.invalidate(d)
    s.dump(db=True)
    s.reconsider(d)
    s.dump()
    return s.line()


def sc_order(rng):
    s = Sc(rng)
    tip, t, coins = s.fanout(n=4)
    bad = s.block(tip, [], delta=1, submit=False)
    child = s.block(bad, [], submit=False)
    good = s.block(tip, [s.spend([coins[0]], fee=1)], submit=False)
    good2 = s.block(good, [], submit=False)
    seq = rng.randrange(0, 3)
    if seq == 0:
        s.submit(child); s.submit(bad); s.submit(child); s.submit(bad)
    elif seq == 1:
        s.submit(good2); s.submit(good); s.submit(good2); s.submit(good)
    else:
        s.submit(bad); s.submit(good); s.submit(child); s.submit(good2); s.submit(good2)
    s.dump()
    return s.line()


def sc_cbmulti(rng):
    s = Sc(rng)
    tip, t, coins = s.fanout(n=4)
    which = rng.randrange(0, 3)
    if which == 0:
        cb2 = s.tx(["null"], [(1, "w")])
        s.block(tip, [cb2])
    elif which == 1:
        x = s.tx(["null", (coins[0][0], coins[0][1], True)], [(1, "w")])
        s.block(tip, [x])
    else:
        x = s.tx([(coins[0][0], coins[0][1], True), "null"], [(1, "w")])
        s.block(tip, [s.spend([coins[1]], fee=0), x])
    s.dump()
    return s.line()


def sc_random(rng):
    """a random walk: blocks on random known parents with random (often conflicting) spends, random submits"""
    s = Sc(rng)
    base, t, coins = s.fanout(n=8)
    blocks = [base]
    pool = list(coins)
    txs = []
    for _ in range(rng.randrange(3, 9)):
        r = rng.random()
        if r < 0.45 and pool:
            k = min(len(pool), rng.randrange(1, 3))
            cs = [rng.choice(pool) for _ in range(k)]
            cs = list(dict.fromkeys(cs)) if rng.random() < 0.9 else cs
            if all(c in s.vals for c in cs) and len(set(cs)) == len(cs):
                nt = s.spend(cs, fee=rng.choice([0, 1, 50]), kinds="wwkr")
            else:
                nt = s.tx([(a, b, True) for a, b in cs], [(1, "w")])
            txs.append(nt)
            for n in range(3):
                if (nt, n) in s.vals:
                    pool.append((nt, n))
        elif r < 0.85:
            par = rng.choice(blocks[-3:])
            sel = [x for x in txs if rng.random() < 0.5][:4]
            b = s.block(par, sel, delta=rng.choice([0, 0, 0, 0, 1, -1]), submit=rng.random() < 0.85)
            blocks.append(b)
        elif r < 0.9 and len(blocks) > 1:
            s.invalidate(rng.choice(blocks[1:]))
        elif r < 0.95 and len(blocks) > 1:
            s.reconsider(rng.choice(blocks[1:]))
        else:
            s.dump()
    for b in blocks[1:]:
        if rng.random() < 0.3:
            s.submit(b)
    s.dump()
    return s.line()


SCENARIOS = {
    "linear": sc_linear, "cb_boundary": sc_cb_boundary, "dup_input": sc_dup_input, "double_spend": sc_double_spend,
    "forward": sc_forward, "unspendable": sc_unspendable, "reorg": sc_reorg, "invalidate": sc_invalidate,
    "maturity": sc_maturity, "scripts": sc_scripts, "values": sc_values, "bip30": sc_bip30, "halving": sc_halving,
    "dupcb_spent": sc_dupcb_spent, "order": sc_order, "cbmulti": sc_cbmulti, "random": sc_random,
}

# weights per property (quick tier counts; thorough multiplies)
WEIGHTS = {
    "C01": {"linear": 30, "cb_boundary": 45, "values": 30, "dup_input": 12, "double_spend": 8, "unspendable": 12, "reorg": 15,
            "invalidate": 6, "scripts": 8, "halving": 2, "maturity": 6, "random": 20, "bip30": 4, "dupcb_spent": 1, "forward": 4,
            "order": 3, "cbmulti": 3},
    "C02": {"linear": 15, "dup_input": 40, "double_spend": 40, "forward": 25, "unspendable": 30, "bip30": 20, "reorg": 15,
            "invalidate": 8, "maturity": 10, "scripts": 12, "values": 8, "random": 25, "cb_boundary": 5, "order": 6, "cbmulti": 8,
            "dupcb_spent": 1, "halving": 1},
    "C09": {"reorg": 70, "invalidate": 40, "random": 40, "linear": 15, "bip30": 10, "double_spend": 8, "forward": 8, "unspendable": 8,
            "dupcb_spent": 2, "order": 8, "scripts": 4, "maturity": 4, "halving": 1, "cb_boundary": 4, "values": 3, "dup_input": 4,
            "cbmulti": 2},
}


def gen_chain(prop):
    def gen(rng, tier):
        mult = 1 if tier == "quick" else 12
        cases = []
        for name, w in sorted(WEIGHTS[prop].items()):
            n = w * mult
            if name in ("halving", "dupcb_spent"):
                n = w * (1 if tier == "quick" else 3)
            for _ in range(n):
                cases.append(SCENARIOS[name](rng))
        rng.shuffle(cases)
        # distinct lines only
        return list(dict.fromkeys(cases))
    return gen


def shrink(case):
    """candidates: the script with one op removed (a script that no longer parses is simply not a failing one)"""
    ops = [o.strip() for o in case.split(";")]
    out = []
    # everything after the last dump is irrelevant
    for i in range(len(ops) - 1, -1, -1):
        if ops[i] in ("dump", "dumpdb") and i + 1 < len(ops):
            out.append(" ; ".join(ops[:i + 1]))
            break
    for i in range(len(ops) - 1, -1, -1):
        if ops[i] == "nobip34":
            continue
        cand = ops[:i] + ops[i + 1:]
        if cand:
            out.append(" ; ".join(cand))
        w = ops[i].split()
        if w and w[0] == "tx":
            # the transaction and every mention of it in a block
            cand = []
            for j, o in enumerate(ops):
                if j == i:
                    continue
                ww = o.split()
                if ww and ww[0] == "mine":
                    ww = ww[:4] + [t for t in ww[4:] if t != w[1]]
                    cand.append(" ".join(ww))
                else:
                    cand.append(o)
            out.append(" ; ".join(cand))
        if w and w[0] == "mine" and len(w) > 4:
            for k in range(4, len(w)):
                out.append(" ; ".join(ops[:i] + [" ".join(w[:k] + w[k + 1:])] + ops[i + 1:]))
        if w and w[0] == "dumpdb":
            out.append(" ; ".join(ops[:i] + ["dump"] + ops[i + 1:]))
    # every candidate costs a fresh node: keep the search short
    out = list(dict.fromkeys(out))
    return out[:30]


def classify(case):
    if case.startswith("fn "):
        return "fn"
    ops = [o.strip().split(" ")[0] for o in case.split(";")]
    tags = []
    if "invalidate" in ops:
        tags.append("inv")
    n = ops.count("submit")
    tags.append("b%d" % min(n, 9))
    return "chain:" + "+".join(tags)


# ------------------------------------------------------------------------------------------------
# function level: Consensus::CheckTxInputs on a synthetic view

FN_VALUES = [-1, -2, 0, 1, 546, COIN, MAXM - 1, MAXM, MAXM + 1, MAXM // 2, MAXM // 2 + 1, 2 ** 62, I64, -I64 - 1, I64 - MAXM, I64 - MAXM + 1]


def fn_line(h, coins, ins, outs):
    return "fn %d %d %s %d %s %d %s" % (h, len(coins), " ".join("%d %d %d" % c for c in coins), len(ins), " ".join(str(i) for i in ins),
                                         len(outs), " ".join(str(o) for o in outs))


def gen_fn(rng, tier):
    cases = []
    # every single value, every pair of values
    for v in FN_VALUES:
        cases.append(fn_line(200, [(v, 1, 0)], [0], [0]))
        for o in (0, 1, v, MAXM):
            if 0 <= o <= MAXM:
                cases.append(fn_line(200, [(v, 1, 0)], [0], [o]))
        for v2 in FN_VALUES:
            cases.append(fn_line(200, [(v, 1, 0), (v2, 2, 0)], [0, 1], [1]))
            cases.append(fn_line(200, [(v, 1, 0), (v2, 2, 0)], [1, 0], [0, 0]))
    # sums around MAX_MONEY with 3..8 inputs
    for n in range(2, 9):
        for tot in (MAXM - 1, MAXM, MAXM + 1):
            parts = [tot // n] * n
            parts[-1] += tot - sum(parts)
            coins = [(p, 1, 0) for p in parts]
            for out in (0, tot - 1, tot, tot + 1, MAXM):
                if 0 <= out <= MAXM:
                    cases.append(fn_line(300, coins, list(range(n)), [out]))
    # in vs out boundary, fee boundary
    for vin in (1, 1000, COIN, MAXM):
        for d in (-1, 0, 1):
            out = vin + d
            if 0 <= out <= MAXM:
                cases.append(fn_line(300, [(vin, 5, 0)], [0], [out]))
                if out >= 1:
                    cases.append(fn_line(300, [(vin, 5, 0)], [0], [out - 1, 1]))
    # maturity boundary
    for h in (100, 101, 199, 200, 201, 2 ** 31 - 1):
        for ch in (0, 1, 100, 101):
            for cb in (0, 1):
                cases.append(fn_line(h, [(COIN, ch, cb)], [0], [1]))
                cases.append(fn_line(h, [(COIN, 1, 0), (COIN, ch, cb)], [0, 1], [1]))
    # missing inputs at every position, duplicates (CheckTxInputs itself does not look for them)
    for n in range(1, 5):
        coins = [(COIN, 1, 0)] * n
        for miss in range(n):
            ins = list(range(n))
            ins[miss] = -1 - miss
            cases.append(fn_line(300, coins, ins, [1]))
        for i in range(n):
            for j in range(i + 1, n):
                ins = list(range(n))
                ins[j] = ins[i]
                cases.append(fn_line(300, coins, ins, [1]))
    # outputs out of range reach GetValueOut's exception
    for o in ([-1], [MAXM + 1], [MAXM, 1], [I64, 1], [0, 0]):
        cases.append(fn_line(300, [(MAXM, 1, 0)], [0], o))
    nrand = 1500 if tier == "quick" else 40000
    for _ in range(nrand):
        n = rng.randrange(1, 9)
        coins = []
        for _ in range(n):
            r = rng.random()
            if r < 0.6:
                v = rng.randrange(0, MAXM // n + 2)
            elif r < 0.8:
                v = rng.choice(FN_VALUES)
            else:
                v = rng.randrange(0, MAXM + 1)
            coins.append((v, rng.choice([1, 50, 100, 101, 150, 199, 200]), 1 if rng.random() < 0.2 else 0))
        ins = list(range(n))
        if rng.random() < 0.1:
            ins[rng.randrange(n)] = -1 - rng.randrange(3)
        if rng.random() < 0.1 and n > 1:
            ins[rng.randrange(n)] = ins[rng.randrange(n)]
        rng.shuffle(ins)
        tot = sum(c[0] for c in coins if 0 <= c[0] <= MAXM)
        nout = rng.randrange(1, 4)
        r = rng.random()
        if r < 0.5:
            target = min(max(tot - rng.choice([0, 0, 1, 1000]), 0), MAXM)
        elif r < 0.7:
            target = min(tot + 1, MAXM)
        else:
            target = rng.randrange(0, MAXM + 1)
        outs = []
        left = target
        for _ in range(nout - 1):
            x = rng.randrange(0, left + 1)
            outs.append(x)
            left -= x
        outs.append(left)
        cases.append(fn_line(rng.choice([150, 199, 200, 201, 300]), coins, ins, outs))
    return list(dict.fromkeys(cases))
