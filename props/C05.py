from vlib.runner import Tie
from vlib import core

ID = "C05"
LEVEL = "proof"
DESIGN_REF = "DESIGN.md section 5, C05"
PROP_FILES = ["props/Properties_C05.v"]
RULE = ("locks_fn cases: final (nLockTime = height-1/height/height+1, the 500,000,000 threshold +-1 against height and time, time "
        "locktimes at cutoff-1/cutoff/cutoff+1, every mix of final / non-final sequence numbers); mtp (chains of 1..14 and up to 45 "
        "blocks with non-monotone, duplicate and extreme times: the median at every height); seqlock (synthetic CBlockIndex chains of "
        "2..45 blocks, 1..4 inputs, height locks with v = exactly lock-1/lock/lock+1 against the block height, time locks with 512*v "
        "exactly at / one unit below / above MTP(prev) - MTP(block before the coin's), coin heights 0, 1, H, H+1, every flag bit of "
        "nSequence, versions 0..3 and 2^32-1, flag words 0..3); maturity (depths 98..101 for coinbase and non-coinbase coins, "
        "several inputs, spend heights up to 2^31-1). locks_chain cases: blocks built on a regtest chain (CSV active / not yet "
        "active) and judged by TestBlockValidity. non-trivial = every case; distinct = distinct case lines")
ASSUMPTIONS = ["CBlockIndex::GetAncestor(h) returns the ancestor at height h (the skip list is exercised by chains up to 45 blocks; modelled as indexing)",
               "block times are uint32 (CBlockIndex::nTime), heights are below 2^31-65536, coin heights lie in 0..blockHeight+1: premises "
               "wf_locks_input of the sequence-lock theorems; outside them the C++ has signed overflow or a failing Assert",
               "std::sort sorts ascending (the model's insertion sort is proved to produce the unique sorted permutation)",
               "the models are hand transcriptions; tied by the correspondence on the listed cases"]
TRUSTED = ["Coq 8.16.1 kernel (coqc; vm_compute only in the non-vacuity example)",
           "tie/dump_params.cpp + tie/params/locks.h print LOCKTIME_THRESHOLD, COINBASE_MATURITY, CTxIn::SEQUENCE_* , "
           "LOCKTIME_VERIFY_SEQUENCE and CBlockIndex::nMedianTimeSpan from the compiled tree",
           "extraction: ExtrOcamlBasic only; ocaml/conv.ml + locks_driver.ml glue",
           "tie/drivers/locks_drv.cpp builds the CBlockIndex chain / CTransaction / coins view it is told to and prints what "
           "IsFinalTx, GetMedianTimePast, CalculateSequenceLocks, EvaluateSequenceLocks, SequenceLocks, CheckTxInputs return",
           "tie/drivers/locks_chain_drv.cpp builds the regtest chain and block it is told to (TestChain100Setup, -testactivationheight=csv@h, "
           "signed transactions) and prints TestBlockValidity's reject reason"]

U32 = 0xffffffff
FINAL = 0xffffffff
DISABLE = 1 << 31
TYPE = 1 << 22
MASK = 0xffff
THRESH = 500000000
I32 = 2147483647


def py_mtp(times, h):
    w = sorted(times[max(0, h - 10):h + 1])
    return w[len(w) // 2]


def fmt_final(version, locktime, height, time, seqs):
    return "final %d %d %d %d %d %s" % (version, locktime & U32, height, time, len(seqs), " ".join(str(s) for s in seqs))


def fmt_seqlock(version, flags, times, ins):
    return "seqlock %d %d %d %s %d %s" % (version, flags, len(times), " ".join(str(t) for t in times), len(ins),
                                          " ".join("%d %d" % i for i in ins))


def rand_times(rng, n, mode=None):
    mode = mode or rng.choice(["mono", "noisy", "wild", "dups", "grid", "extreme"])
    base = rng.randrange(0, 1 << 31)
    if mode == "mono":
        t, out = base, []
        for _ in range(n):
            t += rng.randrange(1, 1200); out.append(t)
        return out
    if mode == "noisy":
        return [max(0, base + 600 * i + rng.randrange(-7200, 7200)) for i in range(n)]
    if mode == "wild":
        return [rng.randrange(0, 1 << 32) for _ in range(n)]
    if mode == "dups":
        vals = [base + rng.randrange(0, 5) for _ in range(3)]
        return [rng.choice(vals) for _ in range(n)]
    if mode == "grid":   # all times = off mod 512: every MTP difference is a multiple of 512 (exact time-lock boundaries)
        off = rng.randrange(0, 512)
        k0 = rng.randrange(0, 1 << 20)
        return [off + 512 * max(0, k0 + 2 * i + rng.randrange(-6, 7)) for i in range(n)]
    return [rng.choice([0, 1, U32, U32 - 1, 1 << 31, (1 << 31) - 1, base]) for _ in range(n)]


def seq_noise(rng):
    """bits outside the mask / type / disable positions: must be ignored"""
    r = rng.random()
    if r < 0.5:
        return 0
    n = 0
    for b in list(range(16, 22)) + list(range(23, 31)):
        if rng.random() < 0.3:
            n |= 1 << b
    return n


def gen_final(rng, tier, cases):
    seqsets = [[0], [FINAL], [FINAL - 1], [FINAL, FINAL], [FINAL, FINAL - 1], [FINAL - 1, FINAL], [0, FINAL, FINAL], [], [DISABLE], [FINAL, FINAL, FINAL]]
    heights = [0, 1, 2, 100, 101, 499999999, 500000000, 500000001, I32, I32 - 1, -1, -I32 - 1]
    for h in heights:
        for d in (-1, 0, 1):
            lt = h + d
            if 0 <= lt <= U32:
                for ss in seqsets[:6]:
                    cases.append(fmt_final(1, lt, h, 0, ss))
                    cases.append(fmt_final(2, lt, h, THRESH * 3, ss))
    for lt in (THRESH - 2, THRESH - 1, THRESH, THRESH + 1, THRESH + 2):
        for h in (THRESH - 2, THRESH - 1, THRESH, THRESH + 1, THRESH + 2, I32):
            for t in (THRESH - 1, THRESH, THRESH + 1, THRESH + 2, THRESH + 3, 0):
                cases.append(fmt_final(1, lt, h, t, [0]))
    for T in [THRESH, THRESH + 1, 1600000000, U32 - 1, U32] + [rng.randrange(THRESH, U32) for _ in range(20)]:
        for d in (-1, 0, 1):
            for ss in ([0], [FINAL], [FINAL, 0]):
                cases.append(fmt_final(2, T, rng.choice([0, 5, I32]), T + d, ss))
    for t in (-1, 0, 1, U32 + 1, U32 + 2, (1 << 63) - 1, -(1 << 63)):     # int64 times beyond uint32
        for lt in (U32, U32 - 1, THRESH, 1, 0):
            cases.append(fmt_final(1, lt, 0, t, [7]))
    for ss in seqsets:
        cases.append(fmt_final(1, 0, 0, 0, ss))
        cases.append(fmt_final(1, 1, 0, 0, ss))
        cases.append(fmt_final(1, U32, 0, 0, ss))
    n = 600 if tier == "quick" else 30000
    for _ in range(n):
        h = rng.choice([rng.randrange(0, 1000000), rng.randrange(0, I32), THRESH + rng.randrange(-3, 4)])
        time = rng.choice([rng.randrange(THRESH, U32), THRESH + rng.randrange(-3, 4)])
        r = rng.random()
        lt = (h + rng.randrange(-2, 3)) if r < 0.4 else (time + rng.randrange(-2, 3)) if r < 0.8 else rng.randrange(0, U32 + 1)
        lt = min(max(lt, 0), U32)
        ss = [rng.choice([FINAL, FINAL, FINAL, FINAL - 1, 0, rng.randrange(0, U32)]) for _ in range(rng.randrange(0, 4))]
        cases.append(fmt_final(rng.choice([1, 2]), lt, h, time, ss))


def gen_mtp(rng, tier, cases):
    reps = 12 if tier == "quick" else 400
    for n in range(1, 15):
        for _ in range(reps):
            cases.append("mtp %d %s" % (n, " ".join(str(t) for t in rand_times(rng, n))))
        cases.append("mtp %d %s" % (n, " ".join(str(n - i) for i in range(n))))          # strictly decreasing
        cases.append("mtp %d %s" % (n, " ".join(str(i) for i in range(n))))              # strictly increasing
        cases.append("mtp %d %s" % (n, " ".join(str((i * 7) % 5) for i in range(n))))
    for _ in range(reps * 3):
        n = rng.randrange(15, 46)
        cases.append("mtp %d %s" % (n, " ".join(str(t) for t in rand_times(rng, n))))


def one_input(rng, times, kind=None):
    """an input (nSequence, coin height) aimed at the boundary of its lock; returns also a label"""
    H = len(times) - 1
    kind = kind or rng.choice(["h", "h", "t", "t", "dis", "rand"])
    ch = rng.choice([0, 1, H, H, H + 1, max(0, H - 1)] + [rng.randrange(0, H + 1) for _ in range(6)])
    if kind == "h":
        v = H - ch + rng.choice([-1, 0, 0, 1, 1, 2])
        v = min(max(v, 0), MASK)
        return (v | seq_noise(rng), ch)
    if kind == "t":
        a = py_mtp(times, max(ch - 1, 0)) if max(ch - 1, 0) <= H else 0
        b = py_mtp(times, H - 1)
        v = (b - a) // 512 + rng.choice([-1, 0, 0, 1, 1, 2])
        v = min(max(v, 0), MASK)
        if max(ch - 1, 0) > H:
            ch = H + 1
        return (TYPE | v | seq_noise(rng), ch)
    if kind == "dis":
        return (DISABLE | rng.choice([0, TYPE]) | rng.choice([MASK, 0, rng.randrange(0, MASK + 1)]) | seq_noise(rng), ch)
    return (rng.choice([0, MASK, TYPE | MASK, TYPE, FINAL, FINAL - 1, DISABLE - 1, rng.randrange(0, U32 + 1)]), ch)


def gen_seqlock(rng, tier, cases):
    nchains = 60 if tier == "quick" else 2500
    for ci in range(nchains):
        n = rng.choice([2, 2, 3, 5, 11, 12, 13, 14]) if ci % 3 else rng.randrange(2, 46)
        times = rand_times(rng, n, rng.choice(["mono", "noisy", "grid", "grid", "wild", "dups", None]))
        H = n - 1
        # single-input boundary sweeps
        for ch in sorted(set([0, 1, H, H + 1, max(0, H - 1), rng.randrange(0, H + 1)])):
            for d in (-1, 0, 1):
                v = H - ch + d
                if 0 <= v <= MASK:
                    cases.append(fmt_seqlock(2, 1, times, [(v, ch)]))
            if max(ch - 1, 0) <= H:
                a = py_mtp(times, max(ch - 1, 0)); b = py_mtp(times, H - 1)
                for d in (-1, 0, 1, 2):
                    v = (b - a) // 512 + d
                    if 0 <= v <= MASK:
                        cases.append(fmt_seqlock(2, 1, times, [(TYPE | v, ch)]))
        # not enforced: version, flag word, disable bit (with a lock that would fail)
        bad_h = (MASK, H)
        bad_t = (TYPE | MASK, 1)
        for version in (0, 1, 2, 3, U32):
            for flags in (0, 1, 2, 3):
                cases.append(fmt_seqlock(version, flags, times, [rng.choice([bad_h, bad_t])]))
        cases.append(fmt_seqlock(2, 1, times, [(DISABLE | MASK, H)]))
        cases.append(fmt_seqlock(2, 1, times, [(DISABLE | TYPE | MASK, 1)]))
        cases.append(fmt_seqlock(2, 1, times, [(DISABLE | MASK, H), bad_h]))
        cases.append(fmt_seqlock(2, 1, times, []))
        # several inputs
        for _ in range(8 if tier == "quick" else 30):
            ins = [one_input(rng, times) for _ in range(rng.randrange(1, 5))]
            cases.append(fmt_seqlock(rng.choice([2, 2, 2, 3, 1]), rng.choice([1, 1, 1, 3, 0]), times, ins))


def gen_maturity(rng, tier, cases):
    M = core.parse_params().get("COINBASE_MATURITY", 100)
    spends = [M - 1, M, M + 1, 200, 1000, 840000, I32, I32 - 1, 0, 1]
    for S in spends:
        for depth in (M - 2, M - 1, M, M + 1, 0, 1, -1):
            ch = S - depth
            if 0 <= ch <= I32:
                for cb in (0, 1):
                    cases.append("maturity %d 1 %d %d" % (S, ch, cb))
                cases.append("maturity %d 2 %d 0 %d 1" % (S, ch, ch))
                if S - M >= 0:
                    cases.append("maturity %d 3 %d 1 %d 1 %d 0" % (S, S - M, ch, ch))
    n = 300 if tier == "quick" else 20000
    for _ in range(n):
        S = rng.choice([rng.randrange(0, 2000), rng.randrange(0, I32 + 1)])
        ins = []
        for _ in range(rng.randrange(1, 5)):
            ch = min(max(S - M + rng.choice([-2, -1, 0, 0, 1, 1, 2, 50, -50]), 0), I32)
            ins.append("%d %d" % (ch, rng.choice([0, 1, 1])))
        cases.append("maturity %d %d %s" % (S, len(ins), " ".join(ins)))


def gen_fn(rng, tier):
    cases = []
    gen_final(rng, tier, cases)
    gen_mtp(rng, tier, cases)
    gen_seqlock(rng, tier, cases)
    gen_maturity(rng, tier, cases)
    return cases


# ---- end to end: blocks on a regtest chain --------------------------------------------------------------
# TestChain100Setup is deterministic (its tip hash is asserted by the test library): genesis time, then
# block i at 1598887951 + i.  The driver checks these against the real chain (TIMES-MISMATCH otherwise).
BASE_TIMES = [1296688602] + [1598887951 + i for i in range(1, 101)]


def fmt_blk(csv_height, extra, block_time, version, locktime, ins):
    return "blk %d %d %s %d %d %d %d %s base %d %s" % (
        csv_height, len(extra), " ".join(str(t) for t in extra), block_time, version, locktime & U32, len(ins),
        " ".join("%s %d %d" % i for i in ins), len(BASE_TIMES), " ".join(str(t) for t in BASE_TIMES))


def make_extra(rng, E, mode):
    times = list(BASE_TIMES)
    extra = []
    off = rng.randrange(0, 512)
    for j in range(E):
        m = py_mtp(times, len(times) - 1)
        if mode == "min":
            t = m + 1
        elif mode == "grid":          # every extra time = off mod 512, non-monotone but above the MTP
            k = (m + 1 - off + 511) // 512 + rng.choice([0, 0, 1, 3, 7])
            t = off + 512 * k
        elif mode == "jumpy":
            t = m + 1 + rng.choice([0, 1, 5, 600, 3000, 7000])
        else:
            t = max(m + 1, times[-1] + rng.randrange(-400, 900))
        times.append(t); extra.append(t)
    return extra, times


def gen_chain(rng, tier):
    cases = []
    nworlds = 10 if tier == "quick" else 120
    shapes = [(1, "min"), (2, "jumpy"), (13, "grid"), (14, "grid"), (5, "noisy"), (12, "jumpy"), (13, "grid"), (3, "noisy"), (14, "grid"), (11, "jumpy")]
    for wi in range(nworlds):
        E, mode = shapes[wi % len(shapes)] if wi < len(shapes) else (rng.randrange(1, 16), rng.choice(["min", "grid", "jumpy", "noisy"]))
        extra, times = make_extra(rng, E, mode)
        N = len(times)                      # height of the candidate block
        csv_height = [1, 1, N, N + 1, 1, N - 1, 1, 500, 1, N][wi % 10] if wi < 20 else rng.choice([1, N - 1, N, N + 1, 500])
        active = csv_height <= N
        mtp_prev = py_mtp(times, N - 1)
        bts = [mtp_prev + 1, mtp_prev + 1 + rng.randrange(1, 5000)]
        NONFINAL = FINAL - 1
        matured = ("c", E + 1)              # depth exactly 100
        def add(bt, version, lt, ins):
            cases.append(fmt_blk(csv_height, extra, bt, version, lt, ins))
        for bt in bts:
            cutoff = mtp_prev if active else bt
            # absolute locktime by height and by time, with and without the all-final escape
            for lt in (N - 1, N, N + 1, 0, 1):
                add(bt, 1, lt, [matured + (NONFINAL,)])
                add(bt, 2, lt, [matured + (FINAL,)])
            for lt in (cutoff - 1, cutoff, cutoff + 1, bt - 1, bt, mtp_prev - 1, mtp_prev, THRESH, THRESH - 1):
                add(bt, 1, lt, [matured + (NONFINAL,)])
            add(bt, 1, cutoff, [matured + (FINAL,), ("f", 1, NONFINAL)])
            add(bt, 1, cutoff, [matured + (FINAL,), ("f", 1, FINAL)])
            if bt != bts[0] and tier == "quick":
                continue          # the block's own time only matters for the absolute locktime rule
            # maturity: depths 100, 99, 98 and the youngest coinbases
            for k in (E + 1, E + 2, E + 3, 100, 100 + E):
                add(bt, 2, 0, [("c", k, FINAL)])
                add(bt, 2, 0, [("f", 1, FINAL), ("c", k, FINAL)])
            # relative height locks on non-coinbase coins (height 100+j) and on the matured coinbase
            for j in sorted(set([1, E, max(1, E - 1), rng.randrange(1, E + 1)])):
                ch = 100 + j
                for d in (-1, 0, 1):
                    v = N - ch + d
                    if 0 <= v <= MASK:
                        add(bt, 2, 0, [("f", j, v)])
                        add(bt, 1, 0, [("f", j, v)])                 # version 1: not enforced
                        add(bt, 2, 0, [("f", j, DISABLE | v)])
                        add(bt, 3, 0, [("f", j, v | seq_noise(rng)), matured + (FINAL,)])
                a = py_mtp(times, ch - 1)
                for d in (-1, 0, 1, 2):
                    v = (mtp_prev - a) // 512 + d
                    if 0 <= v <= MASK:
                        add(bt, 2, 0, [("f", j, TYPE | v)])
                        add(bt, 2, 0, [("f", j, TYPE | DISABLE | v)])
                        add(bt, 0, 0, [("f", j, TYPE | v)])
            for d in (-1, 0, 1):
                add(bt, 2, 0, [matured + (100 + d,)])
                a = py_mtp(times, E)
                v = (mtp_prev - a) // 512 + d
                if 0 <= v <= MASK:
                    add(bt, 2, 0, [matured + (TYPE | v,)])
        # random mixes
        for _ in range(10 if tier == "quick" else 40):
            bt = rng.choice(bts)
            ins, used = [], set()
            for _ in range(rng.randrange(1, 4)):
                kind = rng.choice(["c", "f", "f"])
                k = rng.choice([E + 1, E + 1, E + 2, rng.randrange(E + 1, 101)]) if kind == "c" else rng.randrange(1, E + 1)
                if (kind, k) in used:
                    continue
                used.add((kind, k))
                ch = k if kind == "c" else 100 + k
                r = rng.random()
                if r < 0.35:
                    seq = min(max(N - ch + rng.choice([-1, 0, 0, 1]), 0), MASK)
                elif r < 0.7:
                    seq = TYPE | min(max((mtp_prev - py_mtp(times, ch - 1)) // 512 + rng.choice([-1, 0, 0, 1]), 0), MASK)
                else:
                    seq = rng.choice([FINAL, NONFINAL, DISABLE | MASK, 0])
                ins.append((kind, k, seq))
            cutoff = mtp_prev if active else bt
            lt = rng.choice([0, 0, N - 1, N, cutoff - 1, cutoff])
            add(bt, rng.choice([1, 2, 2, 2]), lt, ins)
    return cases


TIES = [Tie("locks_fn", "tie/drivers/locks_drv.cpp", "Extract_Locks.v", "locks_driver.ml", gen_fn, predicate="driver"),
        Tie("locks_chain", "tie/drivers/locks_chain_drv.cpp", "Extract_Locks.v", "locks_driver.ml", gen_chain, predicate="driver",
            classify=lambda c: "blk csv@%s E=%s" % (c.split()[1], c.split()[2]))]

LEVEL_TEXT = ("Coq theorems for all inputs in the representable ranges: IsFinalTx accepts iff locktime 0, or a height locktime strictly below "
              "the block height, or a time locktime strictly below the cutoff, or all sequences final; the block cutoff is MTP(prev) once "
              "CSV is active; GetMedianTimePast is element n/2 of the sorted last min(11,h+1) times (unique); SequenceLocks accepts iff "
              "every enforced input satisfies coinHeight+v <= blockHeight (height type) or MTP(max(coinHeight-1,0)) + 512v <= MTP(prev) "
              "(time type), enforcement off for version<2 / flag off / disable bit; maturity accepts iff every coinbase coin has depth >= 100. "
              "Models tied to the real functions by differential execution on synthetic chains at every boundary; constants regenerated "
              "from the compiled tree each run.")
LEVEL_NOTE = ("Trusted: Coq kernel, dump_params.cpp, extraction + driver glue. The models are hand transcriptions checked by correspondence, "
              "not by a semantics of C++. GetAncestor's skip list is abstracted to indexing by height. For a coin at height 0 the code uses "
              "MTP(block 0) (std::max(nCoinHeight-1, 0)); the theorem states that literally.")
TECHNIQUE = "Coq proof (model = declarative spec, iff) + differential correspondence"
