"""Shared generators / Tie for the mempool family (C22, C23, C28): operation scripts for tie/drivers/mempool_drv.cpp.

A script is one line `op ; op ; ...` (see the driver's header).  The builder below keeps a rough picture of the chain and
the pool (which outputs exist, how deep, what is probably in the pool) so that most scripts are valid histories, and aims
the interesting steps at the boundaries of the code: coinbase maturity depth 99/100 across a disconnect, nLockTime at
height / median-time-past -1/0/+1, BIP68 locks 0/1/2 on confirmed and unconfirmed parents, conflicts confirmed in blocks with
unconfirmed descendants, resurrected transactions with children left in the pool, evictions that must take descendants
along, templates at the weight / sigop limits -1/0/+1."""
import re
from vlib.runner import Tie
from vlib import core

MODEL_REASONS = {"ok", "bad-txns-vin-empty", "bad-txns-inputs-duplicate", "non-final", "non-BIP68-final",
                 "bad-txns-premature-spend-of-coinbase", "bad-txns-spends-conflicting-tx", "script-verify-failed", "mempool_full"}
REASON_MAP = {"txn-already-in-mempool": "in-mempool", "txn-same-nonwitness-data-in-mempool": "in-mempool",
              "bad-txns-inputs-missingorspent": "missing", "txn-already-known": "missing"}


def canon_reason(r):
    if r in MODEL_REASONS:
        return r
    if r in REASON_MAP:
        return REASON_MAP[r]
    if r in ("policy", "in-mempool", "missing"):
        return r
    return "policy"


def obs(line):
    """The observable part of a driver line: details stripped, reject reasons mapped to the model's classes."""
    toks = [t.strip() for t in line.split(" | ")]
    out = []
    for t in toks:
        t = t.split(" ;; ")[0].strip()
        w = t.split(" ")
        if len(w) >= 3 and w[0] in ("a", "t"):
            w[2] = canon_reason(w[2])
            t = " ".join(w)
        if len(w) >= 3 and w[0] == "k":
            # package: the order of the "added" events is not part of the comparison
            w = [("A=" + ",".join(sorted(x[2:].split(",")))) if x.startswith("A=") else x for x in w]
            t = " ".join(w)
        out.append(t)
    return " | ".join(out)


def _same_txid_twice(case):
    seen = set()
    for op in case.split(" ; "):
        w = op.split()
        if w and w[0] == "tx":
            key = tuple(x.replace("!", "") for x in w[2:])
            if key in seen:
                return True
            seen.add(key)
    return False


class MempoolTie(Tie):
    """The model replay is given the implementation's line (policy verdicts, evictions, chain movements are the
    implementation's own answers: see ocaml/mempool_driver.ml); the comparison is on the observable part."""
    def __init__(self, *a, **k):
        super().__init__(*a, **k)
        self._full = {}
        # A script that defines two transactions with the same fields up to the bad-signature marker "!" asks for
        # two different transactions with one txid; the C++ driver's own parser refuses that script (BADSCRIPT)
        # while the model driver has no txids to notice it.  Such scripts are malformed cases, not observations
        # (thorough-tier false alarm corrected, DESIGN 9.4): they are not generated.
        g = self.gen
        if g is not None:
            self.gen = lambda rng, tier, _g=g: [c for c in _g(rng, tier) if not _same_txid_twice(c)]

    def run_impl(self, cpp, cases):
        full = Tie.run_impl(self, cpp, cases)
        for c, f in zip(cases, full):
            self._full[c] = f
        return [obs(f) for f in full]

    def run_model(self, mdl, cases):
        lines = [c + " => " + self._full.get(c, "") for c in cases]
        rc, out, err = core.run_lines(mdl, ["model"] + ([self.mode] if self.mode else []), lines, self.timeout)
        if len(out) != len(cases):
            raise core.InfraError("model driver %s returned %d lines for %d cases (rc=%s)\nstderr: %s\nlast: %s"
                                  % (self.model_driver, len(out), len(cases), rc, err[-2000:], out[-3:]))
        return [obs(o) for o in out]

    def run_holds(self, mdl, cases, impl):
        lines = [c + " => " + self._full.get(c, i) for c, i in zip(cases, impl)]
        rc, out, err = core.run_lines(mdl, ["holds"] + ([self.mode] if self.mode else []), lines, self.timeout)
        if len(out) != len(cases):
            raise core.InfraError("model driver %s (holds) returned %d lines for %d cases\nstderr: %s"
                                  % (self.model_driver, len(out), len(cases), err[-2000:]))
        return out


# ------------------------------------------------------------------------------------------------
SEQ_FINAL = "f"
SEQ_RBF = "4294967293"
TYPE_FLAG = 1 << 22


def tx_weight(nin, nout, pad=0, sigops=0):
    """weight of a driver-built transaction whose inputs are all P2WSH(OP_TRUE) outputs"""
    def varint(n):
        return 1 if n < 253 else (3 if n <= 0xffff else 5)
    nonwit = 4 + varint(nin) + 41 * nin + 4
    nouts = nout + (1 if pad else 0) + (1 if sigops else 0)
    nonwit += varint(nouts) + 43 * nout
    if pad:
        push = pad + (1 if pad < 76 else (2 if pad <= 255 else 3))
        sl = 1 + push
        nonwit += 8 + varint(sl) + sl
    if sigops:
        nonwit += 8 + varint(sigops) + sigops
    wit = 2 + 3 * nin
    return 4 * nonwit + wit


class B:
    """script builder with a rough model of what exists"""
    def __init__(self, rng, cfg=None):
        self.rng = rng
        self.ops = []
        if cfg:
            self.ops.append("cfg " + cfg)
        self.n = 0
        self.height = 100
        self.blocks = []            # names of script blocks on the active chain (tip last)
        self.btime = 0              # last block time used (relative to T0)
        self.times = list(range(-100, 1))   # block times of the active chain by height (fixture: one second apart)
        self.now = 1
        self.conf = []              # confirmed unspent outputs (src, n, height, cb)
        self.unconf = []            # outputs of transactions believed to be in the pool (src, n)
        self.pool = {}              # name -> (ins [(src,n)], nout)
        self.defs = {}              # name -> (ins, nout)
        for k in range(1, 101):
            self.conf.append(("f%d" % k, 0, k, True))

    def mtp(self):
        w = sorted(self.times[-11:])
        return w[len(w) // 2]

    def name(self, p="t"):
        self.n += 1
        return "%s%d" % (p, self.n)

    def mature(self, o):
        return (not o[3]) or (self.height + 1 - o[2] >= 100)

    def spendable_conf(self):
        return [o for o in self.conf if self.mature(o)]

    def tx(self, ins, nout, fee=None, ver=2, lock="0", pad=0, seqs=None, bad=False, sigops=0, name=None):
        """ins: list of (src, n); returns the name"""
        name = name or self.name()
        if fee is None:
            fee = self.rng.choice([1000, 2000, 5000, 10000, 20000, 50000])
        seqs = seqs or [SEQ_FINAL] * len(ins)
        # two definitions with the same content would be the same transaction (same txid): make the fee differ
        if not hasattr(self, "_seen"):
            self._seen = set()
        while (tuple(ins), tuple(seqs), nout, fee, ver, lock, pad, sigops, bad) in self._seen:
            fee += 1
        self._seen.add((tuple(ins), tuple(seqs), nout, fee, ver, lock, pad, sigops, bad))
        istr = ",".join("%s:%d:%s%s" % (s, n, q, "!" if (bad and i == 0) else "") for i, ((s, n), q) in enumerate(zip(ins, seqs)))
        self.ops.append("tx %s %d %s %d %d %s %d%s" % (name, ver, lock, fee, pad, istr, nout, (" %d" % sigops) if sigops else ""))
        self.defs[name] = (list(ins), nout)
        return name

    def atmp(self, name, expect=True):
        self.ops.append("atmp " + name)
        if expect:
            ins, nout = self.defs[name]
            # conflicts leave (approximately: directly conflicting entries and their outputs)
            for other in [o for o, (oi, _) in self.pool.items() if set(oi) & set(ins)]:
                self.drop(other)
            self.pool[name] = (ins, nout)
            for k in range(nout):
                self.unconf.append((name, k))
            self.unconf = [o for o in self.unconf if o not in ins]

    def drop(self, name):
        if name in self.pool:
            del self.pool[name]
            self.unconf = [o for o in self.unconf if o[0] != name]
            for c in [o for o, (oi, _) in self.pool.items() if any(s == name for s, _ in oi)]:
                self.drop(c)

    def test(self, name):
        self.ops.append("test " + name)

    def next_time(self):
        self.btime = max(self.btime + self.rng.choice([1, 1, 1, 30, 600]), 1)
        return self.btime

    def mine(self, names=(), t=None, bname=None):
        bname = bname or self.name("b")
        t = self.next_time() if t is None else t
        self.ops.append("mine %s %d %s" % (bname, t, " ".join(names)))
        self.height += 1
        self.times.append(t)
        self.blocks.append((bname, list(names)))
        for nm in names:
            ins, nout = self.defs[nm]
            spent = set(ins)
            self.conf = [o for o in self.conf if (o[0], o[1]) not in spent]
            for k in range(nout):
                self.conf.append((nm, k, self.height, False))
            if nm in self.pool:
                del self.pool[nm]
                self.unconf = [o for o in self.unconf if o[0] != nm]
            else:
                for other in [o for o, (oi, _) in self.pool.items() if set(oi) & spent]:
                    self.drop(other)
        self.conf.append((bname, 0, self.height, True))
        return bname

    def inval_tip(self):
        if not self.blocks:
            return
        bname, names = self.blocks.pop()
        self.ops.append("inval " + bname)
        self.height -= 1
        self.times.pop()
        created = set(names) | {bname}
        self.conf = [o for o in self.conf if o[0] not in created]
        for nm in names:
            ins, nout = self.defs[nm]
            # inputs come back (heights unknown here: treat as old non-coinbase unless fixture)
            for (s, n) in ins:
                if s.startswith("f") and s[1:].isdigit():
                    self.conf.append((s, n, int(s[1:]), True))
                elif not any(s == x for x in created):
                    self.conf.append((s, n, self.height, False))
            self.pool[nm] = (ins, nout)
            for k in range(nout):
                self.unconf.append((nm, k))
        return bname

    def op(self, s):
        self.ops.append(s)

    def line(self):
        return " ; ".join(self.ops)


def fanout(b, width=None):
    """confirm a transaction that turns a mature fixture coinbase into `width` P2WSH outputs; returns its name"""
    rng = b.rng
    width = width or rng.choice([2, 3, 4, 6])
    src = rng.choice(b.spendable_conf()[:3])
    t = b.tx([(src[0], src[1])], width, fee=rng.choice([10000, 100000]))
    b.mine([t])
    return t


def pick_conf(b, k=1, noncb=True):
    c = [o for o in b.spendable_conf() if not (noncb and o[3])]
    b.rng.shuffle(c)
    return [(o[0], o[1]) for o in c[:k]]


# ------------------------------------------------------------------------------------------------
# C22 scenario classes

def sc_chain(rng):
    """chains and trees of unconfirmed transactions (depth up to 6), some mined, evictions and expiry"""
    b = B(rng, rng.choice([None, None, "expiry=1"]))
    for _ in range(rng.choice([1, 2])):
        b.mine()
    f = fanout(b, rng.choice([2, 3, 5]))
    roots = pick_conf(b, rng.choice([1, 2, 3]))
    allnames = []
    for r in roots:
        cur = [r]
        for depth in range(rng.choice([1, 3, 6])):
            nxt = []
            for o in cur[:2]:
                nout = rng.choice([1, 1, 2, 3])
                t = b.tx([o], nout, fee=rng.choice([300, 1000, 5000, 30000]), pad=rng.choice([0, 0, 200, 3000]))
                b.atmp(t)
                allnames.append(t)
                nxt += [(t, k) for k in range(nout)]
            cur = nxt
            if not cur:
                break
    # a child with two unconfirmed parents
    if len(b.unconf) >= 2:
        ins = rng.sample(b.unconf, 2)
        t = b.tx(ins, 1, fee=rng.choice([500, 40000]))
        b.atmp(t)
        allnames.append(t)
    for _ in range(rng.choice([1, 2, 3])):
        r = rng.random()
        if r < 0.3 and allnames:
            k = rng.choice([1, 2, 3])
            # mine a prefix-closed subset: the first k accepted (parents come first in allnames)
            sel = [n for n in allnames if n in b.pool][:k]
            b.mine(sel)
        elif r < 0.55:
            b.op("trim %d" % rng.choice([0, 1, 20000, 60000, 150000, 300000, 1000000]))
            b.pool = {}
            b.unconf = []
        elif r < 0.8:
            dt = rng.choice([10, 3599, 3600, 3601, 7200])
            b.now += dt
            b.op("time %d" % b.now)
            if rng.random() < 0.5:
                b.op("expire %d" % rng.choice([1, dt - 1, dt, dt + 1, 100000]))
            else:
                o = pick_conf(b, 1)
                if o:
                    t = b.tx(o, 1)
                    b.atmp(t)
        else:
            if allnames:
                b.op("prio %s %d" % (rng.choice(allnames), rng.choice([-100000, 1000, 10000000])))
    return "chain", b.line()


def sc_conflict(rng):
    """double spends: replacements (accepted and refused), a transaction spending what it replaces, conflicts confirmed in
    a block while their victims have unconfirmed descendants"""
    b = B(rng)
    b.mine()
    fanout(b, rng.choice([3, 4, 6]))
    outs = pick_conf(b, 3)
    if len(outs) < 2:
        return "conflict", b.line()
    o1, o2 = outs[0], outs[1]
    a = b.tx([o1], 2, fee=5000, seqs=[rng.choice([SEQ_FINAL, SEQ_RBF])])
    b.atmp(a)
    c1 = b.tx([(a, 0)], 1, fee=3000)
    b.atmp(c1)
    c2 = b.tx([(c1, 0), (a, 1)], 1, fee=3000)
    b.atmp(c2)
    other = b.tx([o2], 1, fee=7000)
    b.atmp(other)
    kind = rng.choice(["rbf_hi", "rbf_lo", "spend_conflict", "block_conflict", "block_conflict", "two_conflicts"])
    if kind == "rbf_hi":
        r = b.tx([o1], 1, fee=rng.choice([50000, 11100, 11300, 12000]))
        b.atmp(r)
    elif kind == "rbf_lo":
        r = b.tx([o1], 1, fee=rng.choice([100, 5000, 10999]))
        b.atmp(r, expect=False)
    elif kind == "spend_conflict":
        # spends o1 (conflict with a) and an output of a descendant of a
        r = b.tx([o1, (rng.choice([c1, c2]), 0) if rng.random() < 0.5 else (a, 1)], 1, fee=90000)
        b.atmp(r, expect=False)
    elif kind == "block_conflict":
        r = b.tx([o1] + ([o2] if rng.random() < 0.4 else []), 1, fee=1000)
        b.mine([r])
    else:
        r = b.tx([o1, o2], 1, fee=rng.choice([90000, 200]))
        b.atmp(r, expect=rng.random() < 0.5)
    # afterwards: spend whatever is around, maybe mine the pool's roots, maybe disconnect
    for _ in range(rng.choice([0, 1, 2])):
        if b.unconf and rng.random() < 0.6:
            t = b.tx([rng.choice(b.unconf)], 1)
            b.atmp(t)
        else:
            o = pick_conf(b, 1)
            if o:
                t = b.tx(o, 1)
                b.atmp(t)
    if rng.random() < 0.5:
        b.inval_tip()
    return "conflict", b.line()


def sc_maturity(rng):
    """coinbase spends at maturity depth 100 / 99 / 101 and a disconnect that un-matures them, with descendants"""
    b = B(rng)
    k = rng.choice([1, 2, 3])
    for _ in range(k):
        b.mine()
    # after k blocks the tip is 100+k; f_j is spendable in the next block iff 101 + k - j >= 100, i.e. j <= k + 1
    edge = k + 1
    spend = rng.choice([edge, edge, edge - 1, edge + 1])
    t = b.tx([("f%d" % spend, 0)], 2, fee=10000)
    b.atmp(t, expect=spend <= edge)
    ch = b.tx([(t, 0)], 1, fee=2000)
    b.atmp(ch, expect=spend <= edge)
    # a second, older coinbase spend that survives
    if edge - 2 >= 1:
        t2 = b.tx([("f%d" % (edge - 2), 0)], 1, fee=9000)
        b.atmp(t2)
    # a transaction with a coinbase input and an unconfirmed input
    if spend <= edge and edge - 1 >= 1 and spend != edge - 1:
        mix = b.tx([(t, 1), ("f%d" % (edge - 1), 0)], 1, fee=4000)
        b.atmp(mix)
    how = rng.choice(["inval", "inval", "inval2", "fork", "mine_then_inval"])
    if how == "inval":
        b.inval_tip()
    elif how == "inval2":
        b.inval_tip()
        b.inval_tip()
    elif how == "fork":
        # replace the tip by a two-block branch: height goes up by one, everything stays mature
        parent = "h%d" % (b.height - 1)
        n1, n2 = b.name("b"), b.name("b")
        b.op("fork %s %s %d" % (n1, parent, b.btime + 5))
        b.op("fork %s %s %d" % (n2, n1, b.btime + 6))
    else:
        b.mine([t])
        b.inval_tip()
        b.inval_tip()
    b.op("template 4000000 8000 1 400")
    return "maturity", b.line()


def sc_resurrect(rng):
    """transactions confirmed in a block with children left in / added to the pool; the block is disconnected (invalidate, or
    a fork that overtakes) so parents come back; forks that confirm some of them again or confirm conflicts"""
    b = B(rng)
    b.mine()
    fanout(b, rng.choice([4, 6]))
    outs = pick_conf(b, 4)
    if len(outs) < 3:
        return "resurrect", b.line()
    p1 = b.tx([outs[0]], 2, fee=8000)
    p2 = b.tx([outs[1]], 1, fee=6000, ver=rng.choice([2, 2, 4]))       # version 4: non-standard, refused when resurrected
    b.atmp(p1)
    if rng.random() < 0.5:
        b.atmp(p2, expect=False)
    forkparent_h = b.height
    blk = b.mine([p1, p2])
    c1 = b.tx([(p1, 0)], 1, fee=3000)
    b.atmp(c1)
    c2 = b.tx([(p2, 0), (p1, 1)], 1, fee=3000)
    b.atmp(c2)
    g = b.tx([(c1, 0)], 1, fee=2500)
    b.atmp(g)
    how = rng.choice(["inval", "fork_same", "fork_conflict", "fork_empty", "deep"])
    if how == "inval":
        b.inval_tip()
        if rng.random() < 0.5:
            b.op("recon " + blk)
    elif how == "deep":
        b.mine()
        b.op("inval " + blk)
    else:
        parent = "h%d" % forkparent_h
        n1, n2 = b.name("b"), b.name("b")
        if how == "fork_same":
            b.op("fork %s %s %d %s" % (n1, parent, b.btime + 3, p1))
            b.op("fork %s %s %d" % (n2, n1, b.btime + 4))
        elif how == "fork_conflict":
            x = b.tx([outs[0]], 1, fee=1000)          # conflicts with p1
            b.op("fork %s %s %d %s" % (n1, parent, b.btime + 3, x))
            b.op("fork %s %s %d" % (n2, n1, b.btime + 4))
        else:
            b.op("fork %s %s %d" % (n1, parent, b.btime + 3))
            b.op("fork %s %s %d" % (n2, n1, b.btime + 4))
    if rng.random() < 0.5:
        t = b.tx([outs[2]], 1)
        b.atmp(t)
    b.op("template 4000000 8000 1 400")
    return "resurrect", b.line()


def sc_locks(rng):
    """nLockTime at height / median-time-past boundaries, BIP68 locks on confirmed and unconfirmed parents; a disconnect or a
    slow block moves the boundary"""
    b = B(rng)
    b.mine()
    fanout(b, 6)
    nb = rng.choice([0, 1, 2])
    for _ in range(nb):
        b.mine()
    outs = pick_conf(b, 6)
    h = b.height
    made = []
    for o in outs[:rng.choice([2, 3, 4])]:
        kind = rng.choice(["height", "height", "time", "seq_h", "seq_t", "seq_unconf"])
        if kind == "height":
            lock = str(h + rng.choice([-1, 0, 1, 2]))
            t = b.tx([o], 1, lock=lock, seqs=[rng.choice(["0", SEQ_RBF, SEQ_FINAL])])
            b.atmp(t, expect=True)
        elif kind == "time":
            lock = "t%d" % (b.mtp() + rng.choice([-700, -2, -1, -1, 0, 0, 1, 1, 2, 5]))
            t = b.tx([o], 1, lock=lock, seqs=["0"])
            b.atmp(t, expect=True)
        elif kind == "seq_h":
            # o was confirmed 1 + nb blocks ago (fanout block), relative height lock around that
            t = b.tx([o], 1, seqs=[str(rng.choice([0, 1, nb, nb + 1, nb + 2, nb + 3]))])
            b.atmp(t, expect=True)
        elif kind == "seq_t":
            t = b.tx([o], 1, seqs=[str(TYPE_FLAG | rng.choice([0, 1, 2]))])
            b.atmp(t, expect=True)
        else:
            p = b.tx([o], 1)
            b.atmp(p)
            t = b.tx([(p, 0)], 1, seqs=[str(rng.choice([0, 0, 1, TYPE_FLAG, TYPE_FLAG | 1]))], ver=rng.choice([2, 2, 1]))
            b.atmp(t, expect=True)
        made.append(t)
    how = rng.choice(["inval", "inval", "mine", "mine_slow", "inval_recon", "none"])
    if how == "inval":
        b.inval_tip()
    elif how == "mine":
        b.mine()
    elif how == "mine_slow":
        b.mine(t=b.btime + 1)
        b.btime += 1
    elif how == "inval_recon":
        x = b.inval_tip()
        if x:
            b.op("recon " + x)
    for o in outs[4:5]:
        t = b.tx([o], 1, lock=str(b.height + rng.choice([0, 1])), seqs=["0"])
        b.atmp(t, expect=True)
    b.op("template 4000000 8000 1 400")
    return "locks", b.line()


def sc_random(rng):
    """a random walk over all the operations"""
    b = B(rng, rng.choice([None, None, "expiry=1", "maxmempool=5"]))
    b.mine()
    fanout(b, rng.choice([3, 6]))
    names = []
    for _ in range(rng.randrange(6, 16)):
        r = rng.random()
        if r < 0.45:
            src = []
            if b.unconf and rng.random() < 0.6:
                src.append(rng.choice(b.unconf))
            c = pick_conf(b, 1, noncb=rng.random() < 0.8)
            if c and (not src or rng.random() < 0.4):
                src.append(c[0])
            if not src:
                continue
            if rng.random() < 0.08:
                src.append(("nosuch", 0))
            t = b.tx(src, rng.choice([1, 1, 2]), fee=rng.choice([0, 150, 1000, 8000, 60000]), bad=rng.random() < 0.05,
                     pad=rng.choice([0, 0, 0, 1500]), seqs=[rng.choice([SEQ_FINAL, SEQ_RBF, "0"]) for _ in src],
                     ver=rng.choice([2, 2, 2, 1, 3]))
            b.atmp(t)
            names.append(t)
            if rng.random() < 0.1:
                b.atmp(t, expect=False)
        elif r < 0.6:
            sel = [n for n in names if n in b.pool][:rng.choice([0, 1, 2, 4])]
            b.mine(sel)
        elif r < 0.72:
            b.inval_tip()
        elif r < 0.8:
            b.op("trim %d" % rng.choice([0, 30000, 100000, 500000]))
            b.pool = {}
            b.unconf = []
        elif r < 0.88:
            b.now += rng.choice([60, 3600, 4000])
            b.op("time %d" % b.now)
        elif r < 0.94:
            b.op("expire %d" % rng.choice([1, 3600, 100000]))
        else:
            b.op("template %d %d %d %d" % (rng.choice([4000000, 20000, 9000]), rng.choice([8000, 2000]), rng.choice([1, 1000, 100000]), 400))
    return "random", b.line()


def sc_expiry(rng):
    """a parent older than its descendants: Expire (directly, or through LimitMempoolSize with -mempoolexpiry=1) with a cutoff
    between their entry times must take the younger descendants along"""
    natural = rng.random() < 0.5
    b = B(rng, "expiry=1" if natural else None)
    b.mine()
    fanout(b, 6)
    outs = pick_conf(b, 4)
    p = b.tx([outs[0]], 2, fee=5000)
    b.atmp(p)
    other_old = b.tx([outs[1]], 1, fee=4000)
    b.atmp(other_old)
    t1 = rng.choice([600, 1800, 3000])
    b.now += t1
    b.op("time %d" % b.now)
    c = b.tx([(p, 0)], 1, fee=3000)
    b.atmp(c)
    young = b.tx([outs[2]], 1, fee=3000)
    b.atmp(young)
    if rng.random() < 0.5:
        g = b.tx([(c, 0), (p, 1)], 1, fee=2000)
        b.atmp(g)
    if natural:
        # now - 3600 falls between the two entry times
        b.now = 1 + 3600 + rng.choice([1, t1 // 2, t1 - 1, t1, t1 + 1])
        b.op("time %d" % b.now)
        t = b.tx([outs[3]], 1, fee=6000)
        b.atmp(t)
    else:
        b.op("expire %d" % rng.choice([1, t1 // 2, t1 - 1, t1, t1 + 1]))
    b.op("template 4000000 8000 1 400")
    return "expiry", b.line()


def sc_lockpoints(rng):
    """BIP68-locked children (nSequence 1..3 height type, 512-second units time type) of outputs confirmed in the tip block or
    one below, then a REAL competing branch of depth 1-2 that removes the funding block and ends at an equal or greater
    height: the cached LockPoints must be recognised as stale (maxInputBlock includes an input confirmed in the tip block)"""
    b = B(rng)
    timed = rng.random() < 0.35
    if timed:
        # five blocks 600 s apart, the funding block is the sixth: MTP(tip) - MTP(tip-1) >= 600 > 512
        t = 0
        for _ in range(5):
            t += 600
            b.mine(t=t)
        b.btime = t
        src = rng.choice(b.spendable_conf()[:3])
        fund = b.tx([(src[0], src[1])], 4, fee=10000)
        b.mine([fund], t=b.btime + 600)
        b.btime += 600
    else:
        for _ in range(rng.choice([1, 2])):
            b.mine()
        fund = fanout(b, 4)
    fund_h = b.height
    depth = 1
    if rng.random() < 0.4:
        b.mine(t=b.btime + (600 if timed else 1))
        b.btime += 600 if timed else 1
        depth = 2
    # children: the funding output is depth-1 blocks below the next block's parent; lock v is satisfied iff v <= depth
    kids = []
    for k in range(rng.choice([1, 2, 3])):
        if timed and rng.random() < 0.7:
            v = rng.choice([1, 1, 2]) if depth == 1 else rng.choice([1, 2, 3])
            sq = str(TYPE_FLAG | v)
        else:
            v = rng.choice([1, 1, depth, depth, depth + 1, 3])
            sq = str(v)
        c = b.tx([(fund, k)], 2, fee=rng.choice([3000, 8000]), seqs=[sq])
        b.atmp(c)
        kids.append(c)
    if rng.random() < 0.5 and kids:
        g = b.tx([(kids[0], 0)], 1, fee=2000, seqs=[rng.choice([SEQ_FINAL, "0"])])
        b.atmp(g)
    # an unlocked sibling that survives
    s0 = b.tx([(fund, 3)], 1, fee=4000)
    b.atmp(s0)
    # the competing branch starts below the funding block and gets one block longer than the active chain
    parent = "h%d" % (fund_h - 1)
    n_new = depth + 1
    t0 = b.btime + 5
    include = rng.choice(["none", "none", "first", "second"])
    prev = parent
    for i in range(n_new):
        name = b.name("b")
        txs = ""
        if (include == "first" and i == 0) or (include == "second" and i == 1):
            txs = " " + fund
        b.op("fork %s %s %d%s" % (name, prev, t0 + i * (600 if timed else 1), txs))
        prev = name
    if rng.random() < 0.3:
        b.op("fork %s %s %d" % (b.name("b"), prev, t0 + n_new * (600 if timed else 1)))
    b.op("template 4000000 8000 1 400")
    return "lockpoints", b.line()


def sc_package(rng):
    """package submissions (child with its unconfirmed parents): a low-fee parent paid for by the child, two parents, a parent
    already in the pool, a package replacing pool entries, packages that are refused (not child-with-parents, conflicting)"""
    b = B(rng)
    b.mine()
    fanout(b, 6)
    outs = pick_conf(b, 6)
    kind = rng.choice(["cpfp", "two_parents", "parent_in_pool", "pkg_rbf", "not_cwp", "conflict_in_pkg", "missing"])
    if kind == "cpfp":
        p1 = b.tx([outs[0]], 1, fee=rng.choice([0, 10, 100, 5000]))
        c = b.tx([(p1, 0)], 1, fee=rng.choice([100, 20000]))
        b.op("pkg %s %s" % (p1, c))
    elif kind == "two_parents":
        p1 = b.tx([outs[0]], 1, fee=rng.choice([10, 3000]))
        p2 = b.tx([outs[1]], 2, fee=rng.choice([10, 3000]))
        c = b.tx([(p1, 0), (p2, 0)], 1, fee=30000)
        b.op("pkg %s %s %s" % (p1, p2, c))
        if rng.random() < 0.5:
            t = b.tx([(p2, 1)], 1)
            b.atmp(t)
    elif kind == "parent_in_pool":
        p1 = b.tx([outs[0]], 1, fee=4000)
        b.atmp(p1)
        p2 = b.tx([outs[1]], 1, fee=50)
        c = b.tx([(p1, 0), (p2, 0)], 1, fee=30000)
        b.op("pkg %s %s %s" % (p1, p2, c))
    elif kind == "pkg_rbf":
        v = b.tx([outs[0]], 1, fee=2000, seqs=[SEQ_RBF])
        b.atmp(v)
        v2 = b.tx([(v, 0)], 1, fee=1000)
        b.atmp(v2)
        p1 = b.tx([outs[0]], 1, fee=rng.choice([100, 2500]))
        c = b.tx([(p1, 0)], 1, fee=rng.choice([500, 60000]))
        b.op("pkg %s %s" % (p1, c))
    elif kind == "not_cwp":
        p1 = b.tx([outs[0]], 1)
        p2 = b.tx([outs[1]], 1)
        b.op("pkg %s %s" % (p1, p2))
    elif kind == "conflict_in_pkg":
        p1 = b.tx([outs[0]], 1)
        c = b.tx([(p1, 0), outs[0]], 1)
        b.op("pkg %s %s" % (p1, c))
    else:
        p1 = b.tx([("nosuch", 0)], 1)
        c = b.tx([(p1, 0)], 1)
        b.op("pkg %s %s" % (p1, c))
    b.pool = {}
    b.unconf = []
    r = rng.random()
    if r < 0.4:
        b.mine()
    elif r < 0.7:
        b.inval_tip()
    b.op("template 4000000 8000 1 400")
    return "package", b.line()


C22_CLASSES = [sc_lockpoints, sc_maturity, sc_resurrect, sc_conflict, sc_locks, sc_chain, sc_random, sc_package, sc_expiry]


def gen_c22(rng, tier):
    n = 11 if tier == "quick" else 240
    cases = []
    for f in C22_CLASSES:
        for _ in range(n):
            k, line = f(rng)
            cases.append(line)
    return cases


# ------------------------------------------------------------------------------------------------
# C23: templates

def sc_template_weight(rng):
    """a pool of padded transactions of known weight; templates with block_max_weight at reserved + cumulative chunk
    weight -1/0/+1, small reserved values, min fee rates around the chunks' fee rates"""
    b = B(rng)
    b.mine()
    fanout(b, 6)
    outs = pick_conf(b, 6)
    k = rng.choice([2, 3, 4])
    ws = []
    fees = sorted([rng.choice([2000, 5000, 9000, 20000, 40000, 90000]) + i for i in range(k)], reverse=True)
    for i in range(k):
        pad = rng.choice([200, 1000, 4000])
        t = b.tx([outs[i]], 1, fee=fees[i] * (1 + pad // 200), pad=pad)
        b.atmp(t)
        ws.append(tx_weight(1, 1, pad))
    # a child of the first (two-transaction cluster)
    if rng.random() < 0.5:
        ch = b.tx([(list(b.pool)[0], 0)], 1, fee=rng.choice([100, 500000]))
        b.atmp(ch)
    reserved = rng.choice([8000, 2000, 2000, 3000])
    cum = 0
    marks = []
    for w in ws:
        cum += w
        marks.append(cum)
    for m in rng.sample(marks, min(len(marks), 2)):
        for d in (-1, 0, 1):
            b.op("template %d %d %d %d" % (reserved + m + d, reserved, 1, 400))
    b.op("template %d %d %d %d" % (reserved, reserved, 1, 400))
    b.op("template 4000000 %d %d %d" % (reserved, rng.choice([1, 1000, 50000, 10000000]), rng.choice([0, 400])))
    if rng.random() < 0.3:
        b.op("template %d %d 1 400" % (rng.choice([4000001, 1999, 1000]), rng.choice([1999, 2000, 4000001])))
    return "tweight", b.line()


def sc_template_sigops(rng):
    """transactions carrying many legacy sigops; the coinbase sigop reservation moves the total to 80000 -1/0/+1"""
    b = B(rng, "nonstd=1")
    b.mine()
    fanout(b, 6)
    outs = pick_conf(b, 6)
    k = rng.choice([2, 3, 5])
    total = 0
    for i in range(k):
        s = rng.choice([4000, 3999, 2000, 1000])
        t = b.tx([outs[i]], 1, fee=400000 + 1000 * i, sigops=s)
        b.atmp(t)
        total += 4 * s
    for d in (-1, 0, 1, rng.choice([-4000, 400])):
        cb = 80000 - total + d
        if 0 <= cb <= 80001:
            b.op("template 4000000 8000 1 %d" % cb)
    b.op("template 4000000 8000 1 %d" % rng.choice([0, 400, 80000, 80001]))
    return "tsigops", b.line()


def sc_template_final(rng):
    """time-locked transactions around the median time past / height of the next block, then a template, a mined block, a
    template again; a transaction that became non-final for the template after a disconnect"""
    b = B(rng)
    b.mine()
    fanout(b, 6)
    outs = pick_conf(b, 5)
    for o in outs[:3]:
        if rng.random() < 0.5:
            lock = "t%d" % (b.mtp() + rng.choice([-2, -1, -1, 0, 1]))
        else:
            lock = str(b.height + rng.choice([-1, 0, 0, 1]))
        t = b.tx([o], 1, lock=lock, seqs=["0"], fee=rng.choice([3000, 30000]))
        b.atmp(t)
    b.op("template 4000000 8000 1 400")
    b.mine(t=b.btime + rng.choice([1, 2, 10]))
    b.btime += 10
    for o in outs[3:5]:
        t = b.tx([o], 1, lock=str(b.height + rng.choice([0, 1])), seqs=["0"])
        b.atmp(t)
    b.op("template 4000000 8000 1 400")
    b.inval_tip()
    b.op("template 4000000 8000 1 400")
    return "tfinal", b.line()


def sc_template_clock(rng):
    """blocks stamped ahead of the clock: the median time past overtakes the block time CreateNewBlock starts from, and a
    transaction time-locked between the two is final for the next block (the cutoff is the median time past)"""
    b = B(rng)
    b.mine(t=100)
    b.btime = 100
    fanout(b, 6)
    for _ in range(rng.choice([5, 6, 7])):
        b.mine(t=b.btime + rng.choice([100, 600]))
        b.btime = b.times[-1]
    outs = pick_conf(b, 4)
    m = b.mtp()
    for o in outs[:3]:
        lock = "t%d" % rng.choice([m - 1, m - 1, m, 2, 50, m - 50])
        t = b.tx([o], 1, lock=lock, seqs=["0"], fee=rng.choice([3000, 30000]))
        b.atmp(t)
    b.op("template 4000000 8000 1 400")
    if rng.random() < 0.5:
        b.op("time %d" % (m + rng.choice([-1, 0, 1, 5000])))
        b.op("template 4000000 8000 1 400")
    return "tclock", b.line()


def gen_c23(rng, tier):
    n = 12 if tier == "quick" else 150
    cases = []
    for f in (sc_template_weight, sc_template_sigops, sc_template_final, sc_template_clock):
        for _ in range(n):
            cases.append(f(rng)[1])
    # templates at the end of C22-style histories
    for f in (sc_resurrect, sc_conflict, sc_chain, sc_random):
        for _ in range(n // 2):
            line = f(rng)[1]
            cases.append(line + " ; template 4000000 8000 1 400 ; template %d 2000 %d 400" % (rng.choice([3000, 6000, 100000]), rng.choice([1, 5000])))
    return cases


# ------------------------------------------------------------------------------------------------
# C28: test-accept then submit

def with_tests(rng, line):
    ops = line.split(" ; ")
    out = []
    for o in ops:
        if o.startswith("atmp ") and rng.random() < 0.7:
            out.append("test " + o[5:])
        out.append(o)
    return " ; ".join(out)


def sc_testaccept(rng):
    """one transaction of every verdict class, each tested and then submitted: valid, child of an unconfirmed parent, missing
    input, bad witness, non-final, immature coinbase spend, replacement with too low / sufficient fee, already in the pool"""
    b = B(rng)
    b.mine()
    fanout(b, 6)
    outs = pick_conf(b, 6)
    def both(name, expect=True):
        b.test(name)
        b.atmp(name, expect=expect)
    kinds = ["valid", "child", "missing", "badwit", "nonfinal", "immature", "rbf_lo", "rbf_hi", "again", "zero_fee"]
    rng.shuffle(kinds)
    base = b.tx([outs[0]], 2, fee=5000)
    b.atmp(base)
    k = 1
    for kind in kinds[:rng.choice([5, 7, 10])]:
        if kind == "valid" and k < len(outs):
            both(b.tx([outs[k]], 1)); k += 1
        elif kind == "child":
            both(b.tx([(base, 1)], 1, fee=3000))
        elif kind == "missing":
            both(b.tx([("nosuch", 0)], 1), expect=False)
        elif kind == "badwit" and k < len(outs):
            both(b.tx([outs[k]], 1, bad=True), expect=False); k += 1
        elif kind == "nonfinal" and k < len(outs):
            both(b.tx([outs[k]], 1, lock=str(b.height + 5), seqs=["0"]), expect=False); k += 1
        elif kind == "immature":
            both(b.tx([("f%d" % (b.height - 100 + 3), 0)], 1), expect=False)
        elif kind == "rbf_lo":
            both(b.tx([outs[0]], 1, fee=100), expect=False)
        elif kind == "rbf_hi":
            both(b.tx([outs[0]], 1, fee=90000))
        elif kind == "again":
            both(base, expect=False)
        elif kind == "zero_fee" and k < len(outs):
            both(b.tx([outs[k]], 1, fee=0), expect=False); k += 1
    return "testaccept", b.line()


def sc_truc(rng):
    """TRUC (version 3) shapes, each candidate tested and then submitted: a second child of a parent that already has an
    unconfirmed child (sibling eviction: accepted when it pays enough more, refused otherwise), a child replacing its sibling
    through a shared input, a too-large child, a non-TRUC child of a TRUC parent, ordinary replacement candidates and a
    child of a parent that was refused for its fee (package-less CPFP)"""
    b = B(rng)
    b.mine()
    fanout(b, 6)
    outs = pick_conf(b, 6)

    def both(name, expect=True):
        b.test(name)
        b.atmp(name, expect=expect)
    par = b.tx([outs[0]], 3, fee=5000, ver=3)
    b.atmp(par)
    c1 = b.tx([(par, 0)], 1, fee=rng.choice([1000, 2000, 4000]), ver=3)
    b.atmp(c1)
    shapes = ["sibling_hi", "sibling_hi", "sibling_lo", "sibling_conflict", "big_child", "non_truc_child", "rbf", "cpfp"]
    rng.shuffle(shapes)
    k = 1
    for sh in shapes[:rng.choice([2, 3, 4])]:
        if sh == "sibling_hi":
            both(b.tx([(par, 1)], 1, fee=rng.choice([20000, 50000, 9000]), ver=3))
        elif sh == "sibling_lo":
            both(b.tx([(par, 2)], 1, fee=rng.choice([100, 1000, 2000, 4050]), ver=3), expect=False)
        elif sh == "sibling_conflict":
            both(b.tx([(par, 0)], 1, fee=rng.choice([300, 30000]), ver=3), expect=False)
        elif sh == "big_child" and k + 1 < len(outs):
            p2 = b.tx([outs[k]], 2, fee=5000, ver=3); k += 1
            b.atmp(p2)
            both(b.tx([(p2, 0)], 1, fee=60000, ver=3, pad=rng.choice([3500, 4200, 6000])), expect=False)
            both(b.tx([(p2, 1)], 1, fee=6000, ver=3, pad=rng.choice([0, 3000])))
        elif sh == "non_truc_child":
            both(b.tx([(par, 2)], 1, fee=30000, ver=2), expect=False)
        elif sh == "rbf" and k < len(outs):
            v = b.tx([outs[k]], 1, fee=3000, seqs=[SEQ_RBF]); 
            b.atmp(v)
            both(b.tx([outs[k]], 1, fee=rng.choice([3000, 3100, 3500, 40000])), expect=False)
            k += 1
        elif sh == "cpfp" and k < len(outs):
            lo = b.tx([outs[k]], 1, fee=rng.choice([0, 10])); k += 1
            both(lo, expect=False)
            both(b.tx([(lo, 0)], 1, fee=50000), expect=False)
    return "truc", b.line()


def gen_c28(rng, tier):
    n = 9 if tier == "quick" else 120
    cases = []
    for _ in range(n + 3):
        cases.append(sc_truc(rng)[1])
    for _ in range(2 * n):
        cases.append(sc_testaccept(rng)[1])
    for f in (sc_conflict, sc_maturity, sc_locks, sc_chain, sc_resurrect, sc_random):
        for _ in range(n):
            cases.append(with_tests(rng, f(rng)[1]))
    return cases


# ------------------------------------------------------------------------------------------------
def classify(c):
    ops = [o.strip().split(" ")[0] for o in c.split(";")]
    tags = []
    for k in ("inval", "fork", "recon", "trim", "expire", "template", "test"):
        if k in ops:
            tags.append(k)
    return "+".join(tags) or "plain"


def nontrivial(c):
    return "atmp " in c


_SHRINK_BUDGET = [40]


def shrink(c):
    """candidates: the script with a block of operations removed (halves, quarters, then single operations, later ones
    first); unused definitions go with them.  Every candidate costs a fresh node, so the total number of rounds is bounded."""
    if _SHRINK_BUDGET[0] <= 0:
        return []
    _SHRINK_BUDGET[0] -= 1
    ops = [o.strip() for o in c.split(";") if o.strip()]
    head = [o for o in ops if o.startswith("cfg ")]
    body = [o for o in ops if not o.startswith("cfg ")]
    idx = [i for i, o in enumerate(body) if not o.startswith("tx ")]

    def without(drop):
        keep = [o for i, o in enumerate(body) if i not in drop]
        # drop definitions nothing refers to any more
        changed = True
        while changed:
            changed = False
            for j, o in enumerate(keep):
                if o.startswith("tx "):
                    name = o.split(" ")[1]
                    if not any(re.search(r"(^|[ ,])%s($|[ :])" % re.escape(name), x) for k, x in enumerate(keep) if k != j):
                        del keep[j]
                        changed = True
                        break
        return " ; ".join(head + keep)

    cands = []
    n = len(idx)
    for parts in (2, 4):
        size = max(1, n // parts)
        for start in range(n - size, -1, -size):
            cands.append(without(set(idx[start:start + size])))
    for i in reversed(idx):
        cands.append(without({i}))
    seen = set()
    out = []
    for x in cands:
        if x != c and x not in seen and "atmp" in x or "pkg" in x:
            seen.add(x)
            out.append(x)
    return out[:14]
