from vlib.runner import Tie
from vlib import core

ID = "C19"
LEVEL = "proof"
DESIGN_REF = "DESIGN.md section 5, C19 and section 9"
PROP_FILES = ["props/Properties_C19.v"]
RULE = ("cases: synthetic block-file layouts (1-8 files, contiguous or overlapping height ranges, sizes chosen so that usage straddles "
        "target - buffer), tip heights around PruneAfterHeight and 288, prune locks at the file boundaries +-12 and INT_MAX, manual "
        "heights, IBD with best header above the tip, unvalidated snapshot base; disc: prune locks moved back by a real DisconnectTip. "
        "non-trivial = at least one non-empty file; distinct = distinct case lines")
ASSUMPTIONS = ["prune locks with height_first >= 2 (locks at 0 or 1 are the recorded finding C19-lock-below-2)",
               "file sizes and the prune target are such that the uint64 usage sum does not wrap (premise no_wrap of the theorems; sizes are 32-bit fields)",
               "PRUNE_LOCK_BUFFER (file-local constant 10) is tied behaviourally by lock-boundary cases, not generated"]
TRUSTED = ["Coq 8.16.1 kernel (coqc)", "tie/dump_params.cpp (+ tie/params/store.h) prints MIN_BLOCKS_TO_KEEP, MIN_DISK_SPACE_FOR_BLOCK_FILES, chunk sizes, regtest PruneAfterHeight",
           "extraction: ExtrOcamlBasic only; ocaml/conv.ml + storeprune_driver.ml glue",
           "tie/drivers/storeprune_drv.cpp installs the synthetic layout into the real BlockManager (private members via #define private public; "
           "const prune-mode members switched on in place) and calls the real Chainstate::FlushStateToDisk / DisconnectTip"]
TOP = 1500
MIB = 1 << 20


def layout(rng, tip):
    nf = rng.choice([1, 2, 3, 3, 4, 5, 8])
    files = []
    h = 0
    style = rng.choice(["contig", "contig", "overlap", "random"])
    for i in range(nf):
        if style == "contig":
            span = rng.choice([1, 2, 50, 200, 287, 288, 289, 400])
            hf, hl = h, h + span - 1
            h = hl + 1
        elif style == "overlap":
            hf = max(0, h - rng.choice([0, 1, 30]))
            hl = hf + rng.choice([0, 1, 100, 300, 600])
            h = hl + 1 - rng.choice([0, 0, 20])
            h = max(h, 0)
        else:
            hf = rng.randrange(0, TOP); hl = rng.randrange(hf, TOP + 1)
        size = rng.choice([0, 1, 50 * MIB, 128 * MIB, 130 * MIB, 200 * MIB, 300 * MIB, 533 * MIB, 550 * MIB, 4294967295])
        undo = rng.choice([0, 1, MIB, 17 * MIB, 60 * MIB])
        files.append((size, undo, hf, hl))
    return files


def gen(rng, tier):
    P = core.parse_params()
    after = P["REGTEST_PRUNE_AFTER_HEIGHT"]
    cases = []
    n = 2500 if tier == "quick" else 60000
    for _ in range(n):
        tip = rng.choice([TOP, TOP, 1400, after - 1, after, after + 1, after + 2, 1289, 1300, 289, 288, 0, 1, 1111])
        files = layout(rng, tip)
        # align some boundaries with tip-288
        if rng.random() < 0.5 and files:
            i = rng.randrange(len(files)); s, u, hf, hl = files[i]
            hl = max(0, tip - 288 + rng.choice([-1, 0, 1])); hf = min(hf, hl); files[i] = (s, u, hf, hl)
        usage = sum(s + u for s, u, _, _ in files)
        r = rng.random()
        if r < 0.55: target = 550 * MIB
        elif r < 0.8: target = max(1, usage + 17 * MIB + rng.choice([-MIB, -1, 0, 1, MIB, -200 * MIB]))
        else: target = rng.choice([1, 549 * MIB, 551 * MIB, 2000 * MIB, 18446744073709551615])
        manual = 0 if rng.random() < 0.7 else rng.choice([1, 2, tip - 289, tip - 288, tip - 287, tip, 100, 700, 5000])
        manual = max(0, manual)
        if tip < 1:
            manual = 0   # FindFilesToPruneManual asserts height > 0; unreachable through the RPC for an empty chain
        ibd = 1 if rng.random() < 0.2 else 0
        best = rng.choice([tip, tip, TOP, min(TOP, tip + 1), min(TOP, tip + 300)]) if tip <= TOP else TOP
        snap = -1 if rng.random() < 0.8 else rng.choice([0, 1, 100, 499, 500, 501, 1000])
        locks = []
        for _k in range(rng.choice([0, 0, 1, 1, 2, 3])):
            bl = [2147483647, 2, 3, 11, 12, 13, 600, 1112, 1113, tip, tip + 1]
            for s, u, hf, hl in files:
                bl += [hl + d for d in (10, 11, 12, 13)] + [hf + 11, hf + 12]
            l = rng.choice(bl)
            locks.append(max(2, l) if rng.random() < 0.97 else rng.choice([0, 1]))
        cases.append("prune %d %d %d %d %d %d %d %s %d %s" % (tip, manual, ibd, best, target, snap, len(locks), " ".join(map(str, locks)) + (" " if locks else ""), len(files), " ".join("%d %d %d %d" % f for f in files)))
    # lock moves on a real disconnect (the fixture's tip is TOP and is restored after each case)
    for _ in range(40 if tier == "quick" else 400):
        ls = [rng.choice([TOP + 1, TOP, TOP - 1, TOP - 2, 5, 2147483647, TOP - 12]) for _k in range(rng.choice([1, 2, 3]))]
        cases.append("disc %d %d %s" % (TOP, len(ls), " ".join(map(str, ls))))
    return [" ".join(c.split()) for c in cases]


def nontrivial(c):
    w = c.split()
    if w[0] == "disc":
        return True
    nl = int(w[7]); nf = int(w[8 + nl]); fs = w[9 + nl:]
    return any(int(fs[4 * k]) > 0 for k in range(nf))


TIES = [Tie("prune_fn", "tie/drivers/storeprune_drv.cpp", "Extract_StorePrune.v", "storeprune_driver.ml", gen,
            predicate="driver", nontrivial=nontrivial)]

LEVEL_TEXT = ("Coq theorems over every block-file layout, prune target, manual height, IBD state, lock set and snapshot state of an "
              "executable transcription of the pruning step (last_prune from the locks, GetPruneRange, FindFilesToPrune(Manual), lock update on "
              "disconnect): every selected file is outside the 288-block window (tip >= 288), below every prune lock (lock >= 2), above an "
              "unvalidated snapshot base; automatic pruning proceeds until under target or no eligible file remains; locks move back on "
              "disconnect. The two clamp corners where the statement is false of the real code are proved as _refuted theorems with witnesses, "
              "replayed on the implementation and listed in known_findings.json. Model tied to the real FlushStateToDisk/DisconnectTip on synthetic layouts.")
LEVEL_NOTE = ("Trusted: Coq kernel, dump_params.cpp, extraction + driver glue; the driver installs synthetic CBlockFileInfo vectors and locks into the "
              "real BlockManager through private members and switches the const prune-mode members on in place. Not modelled: a second (historical) "
              "chainstate halving the target (pe_num_chainstates is fixed to 1 in the tie), actual file unlinking, index code that sets the locks. "
              "32-bit wrap of nSize+nUndoSize is modelled (it is in the code) and exercised.")
TECHNIQUE = "Coq proof (induction over file lists and lock lists, refuted corners by vm_compute witnesses) + differential correspondence"
