from vlib.runner import Tie
from vlib import core
from props import ledger_gen as G

ID = "C02"
LEVEL = "proof"
DESIGN_REF = "DESIGN.md section 5, C02 (and the chainsim driver at the start of section 5)"
PROP_FILES = ["props/Properties_C02.v"]
RULE = ("cases: operation scripts run against a fresh regtest node with real blocks and transactions: a duplicated input at every pair of "
        "positions of 2-5 inputs (paying out the doubled value), two transactions spending one outpoint at any positions of a block and "
        "across blocks, the same transaction twice in a block (adjacent: merkle mutation; apart: missing inputs), spends of outputs created "
        "later in the block, of OP_RETURN / oversized-script outputs, of never-created outpoints and of indexes past the outputs, "
        "re-inclusion of a transaction whose outputs are unspent / partly spent / fully spent (BIP30), duplicate coinbases with BIP34 off, "
        "premature coinbase spends at depth 99/100, invalid scripts, each followed by UTXO dumps and by the honest variant; plus reorgs. "
        "Non-trivial = at least one block is submitted; distinct = distinct case lines.")
ASSUMPTIONS = ["transaction ids are abstract numbers in the model; the block-level theorems assume that the id determines the transaction among the "
               "transactions of the block (collision freeness of the txid hash) and PROVE that an accepted block has distinct ids; the chain-level "
               "theorem assumes the ids along the active chain distinct (collision freeness; BIP34 for coinbases - without BIP34 a coinbase can "
               "legitimately be duplicated once its outputs are spent, which the tie exercises with BIP34 switched off)",
               "BIP30 is enforced (cf_bip30 = true) in the block-level uniqueness / no-forward-spend / closed-form theorems and the history theorem",
               "script validity of an input is a bit carried by the model's transaction",
               "the model is a hand transcription of CheckBlock's transaction part, CheckTxInputs, UpdateCoins, AddCoin, ConnectBlock, tied by "
               "the correspondence"]
TRUSTED = ["Coq 8.16.1 kernel (coqc; vm_compute in the examples)",
           "tie/dump_params.cpp prints MAX_MONEY, COINBASE_MATURITY, the regtest halving interval from the compiled tree",
           "extraction: ExtrOcamlBasic only; ocaml/conv.ml + ledger_driver.ml glue",
           "tie/drivers/ledger_drv.cpp builds the blocks the script describes, calls ProcessNewBlock etc. and prints verdicts, tip and UTXO set; "
           "a node that aborts (assertion) is reported as CRASH and counted as a violation"]

TIES = [Tie("chainsim_spends", "tie/drivers/ledger_drv.cpp", "Extract_Ledger.v", "ledger_driver.ml", G.gen_chain("C02"), mode="C02",
            predicate="driver", nontrivial=lambda c: "submit " in c, classify=G.classify, shrink=G.shrink, timeout=3000)]

LEVEL_TEXT = ("Coq theorems about an executable model of CheckBlock/CheckTxInputs/UpdateCoins/ConnectBlock: every input of an accepted block "
              "exists in the view left by the earlier transactions, no outpoint is consumed twice in a transaction, a block or (for every "
              "history of connects/disconnects/reorgs) along the active chain, no forward spends, BIP30 no-overwrite, unspendable outputs never "
              "enter, rejected blocks change nothing, and the UTXO set is exactly created minus spent. Model tied to the real node by adversarial "
              "block scripts through ProcessNewBlock; the predicate rescans the implementation's active chain for dangling/repeated inputs.")
LEVEL_NOTE = ("Trusted: Coq kernel, dump_params.cpp, extraction + driver glue. Premises: hash collision freeness (ids determine transactions; distinct "
              "ids along the chain), BIP30 enforcement. Not modelled: cache layers between CoinsTip and the database (family coins), script "
              "interpreter, merkle-root mutation check (the same transaction twice at the end of a block is refused there first; OCaml glue).")
TECHNIQUE = "Coq proof (closed form of the view: created minus spent; invariant over all histories) + differential correspondence on adversarial blocks"
