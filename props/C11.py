import hashlib
from vlib.runner import Tie
from vlib import core
from props import script_gen as G
from props.script_gen import O, op, push, push_int, scriptnum, hx
from props import C12

ID = "C11"
LEVEL = "proof"
DESIGN_REF = "DESIGN.md section 5, C11"
PROP_FILES = ["props/Properties_C11.v"]
RULE = ("cases: `vpair <f> <g> <scriptSig> <scriptPubKey> <oracle bits> <witness>` with f a subset of g, both valid flag "
        "combinations: VerifyScript is run (twice) under f and under g with the same stub checker, on template spends (P2PK, P2PKH, "
        "bare multisig, P2SH, P2WPKH, P2WSH, P2SH-P2WPKH, P2SH-P2WSH, unknown witness versions, pay-to-anchor) and their "
        "mutations (wrong hash, non-push or extra scriptSig, extra stack items, superfluous witness, oversized witness items), "
        "with inner scripts from the C12 grammar, plus every vector of script_tests.json under its own flags and single-flag "
        "removals/additions, plus STANDARD flags against every GetBlockScriptFlags value, plus `tappair` lines: taproot script-path spends "
        "of real trees built by the driver on the NUMS key (leaf scripts with and without OP_SUCCESSx, oversized arguments, annex, leaf "
        "versions, broken commitments / control sizes). g is a random valid set, f removes one flag or a random subset. "
        "Non-trivial = the run under g succeeded or failed after evaluating at least one script; distinct = distinct case lines.")
ASSUMPTIONS = ["the signature / locktime / sequence checker is an arbitrary function that does not depend on the flags (premise of the theorems; "
               "true of GenericTransactionSignatureChecker, which never sees the flags)",
               "valid flag combinations are those VerifyScript asserts: CLEANSTACK => P2SH and WITNESS, WITNESS => P2SH",
               "the taproot commitment check (tapleaf hash, Merkle path, key tweak) is an arbitrary oracle that does not see the flags; in the correspondence it is true for the control blocks TaprootBuilder produces and false after a bit flip / truncation / for random bytes",
               "the models of EvalScript / VerifyScript are hand transcriptions tied by the correspondence (C12 and this check)"]
TRUSTED = ["Coq 8.16.1 kernel (coqc; vm_compute for the flag-set inclusions over generated constants)",
           "tie/params/script.h: flag bit positions, STANDARD/MANDATORY flag sets and every value of GetBlockScriptFlags (all deployment boundaries x all script_flag_exceptions) printed from the compiled tree",
           "extraction: ExtrOcamlBasic only; ocaml/conv.ml + script_driver.ml glue; ocaml/script_hashes.ml",
           "tie/drivers/script_drv.cpp calls VerifyScript with a stub checker that is the same function of the oracle bits as the model's stub_checker"]

NFLAGS = 21


def h160(b):
    return hashlib.new("ripemd160", hashlib.sha256(b).digest()).digest()


def sha(b):
    return hashlib.sha256(b).digest()


def fix_valid(f, B):
    """make a flag set one that VerifyScript accepts"""
    if f >> B["CLEANSTACK"] & 1:
        f |= (1 << B["P2SH"]) | (1 << B["WITNESS"])
    if f >> B["WITNESS"] & 1:
        f |= 1 << B["P2SH"]
    return f


def shrink_valid(f, B):
    """largest valid subset of f obtained by dropping dependents"""
    if not (f >> B["P2SH"] & 1):
        f &= ~((1 << B["WITNESS"]) | (1 << B["CLEANSTACK"]))
    if not (f >> B["WITNESS"] & 1):
        f &= ~(1 << B["CLEANSTACK"])
    return f


def is_taproot_spk(spk):
    return len(spk) == 34 and spk[0] == 0x51 and spk[1] == 0x20


def vpair(f, g, ssig, spk, obits, wit, B):
    return "vpair %d %d %s %s %d %d%s" % (f, g, hx(ssig), hx(spk), obits, len(wit), "".join(" " + hx(e) for e in wit))


def flag_pairs(rng, B, g=None, k=3):
    """(f, g) with f subset of g, both valid"""
    out = []
    if g is None:
        g = fix_valid(G.rand_flags(rng, NFLAGS), B)
    out.append((g, g))
    bits = [b for b in range(NFLAGS) if g >> b & 1]
    for _ in range(k):
        if not bits:
            break
        r = rng.random()
        if r < 0.6:
            f = g & ~(1 << rng.choice(bits))
        elif r < 0.8:
            f = g & rng.getrandbits(NFLAGS)
        else:
            f = 0
        out.append((shrink_valid(f, B), g))
    return out


def templates(rng, B, tier):
    """(scriptSig, scriptPubKey, witness) spends"""
    out = []
    sig = G.rand_sig(rng)
    if rng.random() < 0.5:
        sig = bytes([0x30, 6, 2, 1, rng.randrange(1, 127), 2, 1, rng.randrange(1, 127), 1])      # small valid DER + SIGHASH_ALL
    pk = bytes([rng.choice([2, 3])]) + bytes(rng.randrange(256) for _ in range(32)) if rng.random() < 0.7 else G.rand_pubkey(rng)
    inner = rng.choice([op("1"), push(pk) + op("CHECKSIG"), op("DUP") + op("HASH160") + push(h160(pk)) + op("EQUALVERIFY") + op("CHECKSIG"),
                        C12.rand_block(rng, 0, 3), op("1") + push(pk) + op("1") + op("CHECKMULTISIG"), op("0"), op("1") + op("1"),
                        op("CHECKLOCKTIMEVERIFY") + op("DROP") + op("1"), op("IF") + op("1") + op("ELSE") + op("0") + op("ENDIF"), b"\x00\x14" + h160(pk),
                        b"\x00\x20" + sha(op("1")), op("NOP1") + op("1"), op("1") + bytes([0x4c, 1, 1]), op("DEPTH") + op("0") + op("EQUAL"), op("CODESEPARATOR") + op("1")])
    args = rng.choice([[], [sig], [sig, pk], [b""], [b"\x01"], [b"", sig], [b"\x01", b"\x01"], [G.rand_num_bytes(rng)]])
    push_args = b"".join(G.any_push(rng, a) for a in args)
    # P2PK, P2PKH, bare
    out.append((push(sig), push(pk) + op("CHECKSIG"), []))
    out.append((push(sig) + push(pk), op("DUP") + op("HASH160") + push(h160(pk)) + op("EQUALVERIFY") + op("CHECKSIG"), []))
    out.append((push_args, inner, []))
    out.append((op("0") + push(sig), op("1") + push(pk) + op("1") + op("CHECKMULTISIG"), []))
    out.append((push_args + rng.choice([b"", op("NOP"), op("1"), op("DUP")]), inner, []))
    # P2SH
    redeem = inner
    spk_sh = op("HASH160") + push(h160(redeem)) + op("EQUAL")
    out.append((push_args + push(redeem), spk_sh, []))
    out.append((push_args + op("NOP") + push(redeem), spk_sh, []))
    out.append((push_args + push(redeem), op("HASH160") + push(h160(redeem + b"\x00")) + op("EQUAL"), []))
    out.append((push_args + push(redeem) + op("1"), spk_sh, []))
    out.append((push(redeem), spk_sh, [b"\x01"]))
    # P2WPKH / P2WSH
    out.append((b"", b"\x00\x14" + h160(pk), [sig, pk]))
    out.append((b"", b"\x00\x14" + h160(pk), [sig, pk, b""]))
    out.append((b"", b"\x00\x14" + h160(pk[:-1] + b"\x00"), [sig, pk]))
    out.append((op("1"), b"\x00\x14" + h160(pk), [sig, pk]))
    ws = inner
    out.append((b"", b"\x00\x20" + sha(ws), args + [ws]))
    out.append((b"", b"\x00\x20" + sha(ws), args + [b"\x01", ws]))
    out.append((b"", b"\x00\x20" + sha(ws + b"\x61"), args + [ws]))
    out.append((b"", b"\x00\x20" + sha(ws), []))
    out.append((b"", b"\x00\x20" + sha(ws), [bytes(rng.choice([520, 521]))] + [op("DROP") + ws] if False else args + [ws]))
    big = op("DROP") + op("1")
    out.append((b"", b"\x00\x20" + sha(big), [bytes(rng.choice([520, 521])), big]))
    out.append((b"", b"\x00" + push(bytes(rng.choice([2, 19, 21, 31, 33, 40]))), args + [ws]))
    # P2SH-wrapped witness programs
    for prog, wit in ((b"\x00\x14" + h160(pk), [sig, pk]), (b"\x00\x20" + sha(ws), args + [ws])):
        spk2 = op("HASH160") + push(h160(prog)) + op("EQUAL")
        out.append((push(prog), spk2, wit))
        out.append((bytes([0x4c, len(prog)]) + prog, spk2, wit))      # not exactly a single direct push: WITNESS_MALLEATED_P2SH
        out.append((op("1") + push(prog), spk2, wit))
        out.append((push(prog), spk2, []))
    # other witness versions, anchor, taproot-shaped (TAPROOT masked by vpair), witness where none is expected
    for v in (1, 2, 16):
        for ln in (2, 20, 32, 40):
            prog = bytes([0x50 + v]) + push(bytes(rng.randrange(256) for _ in range(ln)))
            out.append((b"", prog, rng.choice([[], [b"\x01"], args])))
            out.append((push(prog), op("HASH160") + push(h160(prog)) + op("EQUAL"), rng.choice([[], [b"\x01"]])))
    out.append((b"", bytes([0x51, 0x02, 0x4e, 0x73]), rng.choice([[], [b"\x01"]])))
    out.append((push(bytes([0x51, 0x02, 0x4e, 0x73])), op("HASH160") + push(h160(bytes([0x51, 0x02, 0x4e, 0x73]))) + op("EQUAL"), rng.choice([[], [b"\x01"]])))
    out.append((push_args, inner, [b"\x01"]))
    return out


def gen(rng, tier):
    B = G.flag_bits()
    P = core.parse_params()
    c = []
    n = 260 if tier == "quick" else 8000
    for _ in range(n):
        ob = rng.choice([0, 0xffffffff, 0xffffffff, rng.getrandbits(32)])
        for (ssig, spk, wit) in templates(rng, B, tier):
            for (f, g) in flag_pairs(rng, B, k=2):
                c.append(vpair(f, g, ssig, spk, ob, wit, B))
    # the json vectors: under their own flags g, all single-flag removals f, and g extended by one flag
    std = P["SCR_STANDARD_SCRIPT_VERIFY_FLAGS"]
    blocks = sorted(set(int(x) for x in __import__("re").findall(r"\((\d+)\)%Z", open(core.COQ + "/gen/Params_gen.v").read().split("Definition SCR_BLOCK_FLAGS_ALL")[1].split("\n")[0])))
    for (wit, ssig, spk, fl, exp) in G.json_vectors():
        g = fix_valid(fl, B)
        ob = rng.choice([0, 0xffffffff])
        c.append(vpair(g, g, ssig, spk, ob, wit, B))
        bits = [b for b in range(NFLAGS) if g >> b & 1]
        for b in bits:
            c.append(vpair(shrink_valid(g & ~(1 << b), B), g, ssig, spk, ob, wit, B))
        b = rng.randrange(NFLAGS)
        g2 = fix_valid(g | (1 << b), B)
        c.append(vpair(g, g2, ssig, spk, ob, wit, B))
        # policy vs consensus: standard flags against a block's flags
        bf = rng.choice(blocks)
        c.append(vpair(bf, std, ssig, spk, ob, wit, B))
    # taproot script-path / key-path spends of real trees (built by the driver), under pairs of flag sets
    n = 700 if tier == "quick" else 20000
    must = (1 << B["P2SH"]) | (1 << B["WITNESS"])
    for _ in range(n):
        script, a = rng.choice([(op("1"), []), (op("DROP") + op("1"), [b"\x01"]), (op("NOP1") + op("1"), []), (op("IF") + op("1") + op("ELSE") + op("1") + op("ENDIF"), [b"\x02"]),
                                (push(bytes(33)) + op("CHECKSIG"), [b"\x01"]), (push(bytes(32)) + op("CHECKSIGVERIFY") + op("1"), [b"\x01"]), (C12.rand_block(rng, 0, 2), [G.rand_num_bytes(rng)])])
        if rng.random() < 0.5:
            ops = G.parse_ops(script)
            pos = rng.randrange(len(ops) + 1)
            script = b"".join(o[2] for o in ops[:pos]) + bytes([rng.choice(C12.OP_SUCCESS)]) + b"".join(o[2] for o in ops[pos:])
        args = rng.choice([a, a, [bytes(521)] + a[1:] if a else [bytes(521)], [b"\x01"] * 1001])
        g = fix_valid(G.rand_flags(rng, NFLAGS) | (must if rng.random() < 0.85 else 0) | ((1 << B["TAPROOT"]) if rng.random() < 0.8 else 0), B)
        for (f, g2) in flag_pairs(rng, B, g=g, k=2):
            c.append("tappair %d %d %d %d %s %d %d %d %s %d%s" % (f, g2, rng.choice([0xc0, 0xc0, 0xc2]), rng.choice([0, 1]), hx(script), rng.choice([0, 0xffffffff, rng.getrandbits(32)]),
                                                                 rng.choice([1, 1, 1, 0]), rng.choice([0, 0, 0, 1, 32]), rng.choice(["x", "x", "50"]), len(args), "".join(" " + hx(e) for e in args)))
    for (ssig, spk, wit) in templates(rng, B, tier) + std_templates(rng):
        for bf in blocks:
            c.append(vpair(bf, std, ssig, spk, 0xffffffff, wit, B))
    return c


def std_templates(rng):
    """spends that pass every STANDARD rule except the one being probed (well-formed low-S DER signature with SIGHASH_ALL,
    compressed key, minimal pushes, clean stack), each varied in exactly one policy-relevant way: they are what separates a
    standard flag set that lost a consensus flag from the block flags"""
    out = []
    sig = bytes([0x30, 6, 2, 1, rng.randrange(1, 127), 2, 1, rng.randrange(1, 127), 1])
    pk = bytes([2]) + bytes(rng.randrange(256) for _ in range(32))
    ms = op("1") + push(pk) + op("1") + op("CHECKMULTISIG")
    for dummy in (op("0"), op("1"), push(b"\x00")):                      # NULLDUMMY
        out.append((dummy + push(sig), ms, []))
        out.append((dummy + push(sig) + push(ms), op("HASH160") + push(h160(ms)) + op("EQUAL"), []))
        out.append((b"", b"\x00\x20" + sha(ms), [b"" if dummy == op("0") else b"\x01", sig, ms]))
    nonder = bytes([0x30, 7, 2, 2, 0, 1, 2, 1, 1, 1])                      # DERSIG: padded R
    for s in (sig, nonder, sig[:-1] + b"\x04"):
        out.append((push(s), push(pk) + op("CHECKSIG"), []))
    for n in (0, 1, 500000000):                                           # CLTV / CSV arguments
        out.append((b"", push_int(n) + op("CHECKLOCKTIMEVERIFY") + op("DROP") + op("1"), []))
        out.append((b"", push_int(n) + op("CHECKSEQUENCEVERIFY") + op("DROP") + op("1"), []))
        out.append((b"", push_int(-1 - n) + op("CHECKLOCKTIMEVERIFY") + op("DROP") + op("1"), []))
    out.append((op("1") + push(op("0")), op("HASH160") + push(h160(op("0"))) + op("EQUAL"), []))       # P2SH
    out.append((b"", b"\x00\x20" + sha(op("0")), [op("0")]))                                              # WITNESS
    out.append((b"", op("1"), [b"\x01"]))                                                                 # unexpected witness
    return out


def shrink(case):
    w = case.split(" ")
    if w[0] not in ("vpair", "tappair"):
        return
    f, g = int(w[1]), int(w[2])
    # drop flags common to both sets
    for b in range(NFLAGS):
        if f >> b & 1:
            yield " ".join([w[0], str(f & ~(1 << b)), str(g & ~(1 << b))] + w[3:])
    # drop flags only in g (keep at least one difference)
    diff = [b for b in range(NFLAGS) if (g >> b & 1) and not (f >> b & 1)]
    if len(diff) > 1:
        for b in diff:
            yield " ".join([w[0], str(f), str(g & ~(1 << b))] + w[3:])
    k = 6 if w[0] == "vpair" else 10
    n = int(w[k])
    for i in range(n):
        yield " ".join(w[:k] + [str(n - 1)] + w[k + 1:k + 1 + i] + w[k + 2 + i:])


TIES = [Tie("verifyscript_flag_pairs", "tie/drivers/script_drv.cpp", "Extract_Script.v", "script_driver.ml", gen,
            predicate="driver", nontrivial=lambda c: True, shrink=shrink, extra_ml=("script_hashes.ml",))]

LEVEL_TEXT = ("Coq theorems over the modelled interpreter (every EvalScript opcode; VerifyScript with P2SH and witness v0): for all scripts, "
              "stacks, witnesses and every checker that does not see the flags, if f is a subset of g then EvalScript succeeding under g "
              "succeeds under f with the identical final state, and for valid combinations VerifyScript succeeding under g succeeds under f "
              "(each of the 21 flags only adds failure conditions or an extra evaluation stage); the standard flags contain the mandatory "
              "flags and every value GetBlockScriptFlags can return on every built-in chain (generated constants), hence a spend verifying "
              "under the policy flags verifies under the next block's flags. Tied to the real VerifyScript by differential execution on pairs "
              "of flag sets, where the property itself is also evaluated on the implementation's results (and each call is repeated to check "
              "determinism).")
LEVEL_NOTE = ("Taproot is inside the model (annex, key path / script path, control-block size rule, leaf versions, OP_SUCCESSx pre-scan, validation "
              "weight); named residue: the commitment check itself (ComputeTapleafHash / ComputeTaprootMerkleRoot / CheckTapTweak) is an oracle, and the "
              "real signature checkers are an oracle (C10). The theorem needs no exception among the 21 flags: none was found for which "
              "monotonicity fails on valid combinations (CLEANSTACK without P2SH+WITNESS and WITNESS without P2SH are the combinations the "
              "code itself asserts away; for them monotonicity would indeed fail, e.g. {CLEANSTACK} vs {CLEANSTACK,P2SH}). Determinism is "
              "definitional for the model and checked for the implementation by calling VerifyScript twice per case. Trusted: Coq kernel, "
              "dump_params.cpp + tie/params/script.h, extraction + driver glue.")
TECHNIQUE = "Coq proof (flag monotonicity by step simulation; bit-set inclusions by vm_compute over generated constants) + differential correspondence on flag-set pairs"
