from vlib.runner import Tie
from vlib import core

ID = "C63"
LEVEL = "proof"
DESIGN_REF = "DESIGN.md section 5, C63"
PROP_FILES = ["props/Properties_C63.v"]
RULE = ("cases: op scripts on a fresh TestChain100Setup with the real scheduler thread delivering the notifications: blocks mined on "
        "the tip and on competing forks of every depth (valid, or failing in ConnectBlock so that ActivateBestChain backs out of a "
        "half-done reorg), invalidateblock / reconsiderblock, mempool transactions (chains, double spends replaced or rejected, "
        "spends of just-matured coinbases), blocks that confirm or conflict with them, expiry, size-limit eviction (including of the "
        "transaction being accepted), clock jumps, with and without initial-block-download, queue drained after every op or only at "
        "the end. non-trivial = at least one reorg, invalidation or mempool removal op; distinct = distinct case lines")
ASSUMPTIONS = ["the op script (which blocks a step disconnects/connects, which transactions the mempool removes or re-accepts) is an input of "
               "the model: the theorems hold for every script that satisfies the consistency the C++ asserts (connect on the tip, remove "
               "only pool members, no block transaction left in the pool after removeForBlock, accepted transaction not already confirmed)",
               "single-transaction acceptance only (package submission reports TransactionAddedToMempool before LimitMempoolSize and is not modelled)",
               "the node state before the first notification is known to the subscriber (it starts from the same chain and an empty mempool)"]
TRUSTED = ["Coq 8.16.1 kernel (coqc)", "extraction: ExtrOcamlBasic only; ocaml/conv.ml + notify_driver.ml glue (names <-> numbers, markers)",
           "tie/drivers/notify_drv.cpp: recording CValidationInterface on the real ValidationSignals/SerialTaskRunner/CScheduler thread; markers are "
           "closures inserted with CallFunctionInValidationInterfaceQueue carrying the chain and mempool read synchronously by the validation thread"]


# ---------------------------------------------------------------------------------------------------------------
# generator: a small python picture of the block tree so that blocks only contain transactions that are valid on
# their branch (inputs created on the branch and not yet spent there); which chain is active is NOT tracked here.

class G:
    def __init__(self, rng):
        self.rng = rng
        self.ops = []
        self.blocks = {"F": dict(parent=None, h=0, created={"f%d" % k for k in range(1, 101)}, spent=set(), bad=False)}
        self.order = ["F"]
        self.txs = {}          # name -> (src, n, nout)
        self.txorder = []
        self.pooled = []       # names submitted with atmp (whether or not accepted)
        self.nb = 0
        self.nt = 0
        self.tipguess = "F"

    def new_tx(self, src, n, fee, nout):
        self.nt += 1
        name = "t%d" % self.nt
        self.txs[name] = (src, n, nout)
        self.txorder.append(name)
        self.ops.append("tx %s %s %d %d" % (name, src if n is None else "%s:%d" % (src, n), fee, nout))
        return name

    def coin_of(self, name):
        src, n, _ = self.txs[name]
        return (src, 0 if n is None else n)

    def valid_on(self, name, parent, extra_created, extra_spent):
        b = self.blocks[parent]
        src, n, _ = self.txs[name]
        if name in b["created"] or name in extra_created:
            return False
        if src.startswith("f") and src[1:].isdigit():
            if int(src[1:]) > b["h"] + 1:
                return False
        elif src not in b["created"] and src not in extra_created:
            return False
        c = self.coin_of(name)
        return c not in b["spent"] and c not in extra_spent

    def mine(self, parent, bad=False, want=None, maxtx=3):
        self.nb += 1
        name = "b%d" % self.nb
        p = self.blocks[parent]
        created, spent, txl = set(), set(), []
        cands = list(want) if want is not None else [t for t in self.txorder if self.rng.random() < 0.5]
        for t in cands:
            if len(txl) >= maxtx:
                break
            if self.valid_on(t, parent, created, spent):
                txl.append(t); created.add(t); spent.add(self.coin_of(t))
        self.blocks[name] = dict(parent=parent, h=p["h"] + 1, created=p["created"] | created, spent=p["spent"] | spent, bad=bad)
        self.order.append(name)
        self.ops.append("mine %s %s %s%s" % (name, parent, "bad" if bad else "ok", "".join(" " + t for t in txl)))
        if not bad and self.blocks[name]["h"] > self.blocks[self.tipguess]["h"]:
            self.tipguess = name
        return name

    def spendable(self):
        """(src, n) outputs of defined transactions, favouring recent ones"""
        out = []
        for t in self.txorder:
            for n in range(self.txs[t][2]):
                out.append((t, n))
        return out

    def atmp_new(self, kind):
        rng = self.rng
        outs = self.spendable()
        used = {self.coin_of(t) for t in self.txorder}
        if kind == "conflict" and self.pooled:
            victim = rng.choice(self.pooled)
            src, n, _ = self.txs[victim]
            fee = rng.choice([500, 2000, 30000, 60000])
            t = self.new_tx(src, n, fee, rng.choice([1, 2]))
        elif kind == "child" and self.pooled:
            par = rng.choice(self.pooled[-4:])
            n = rng.randrange(self.txs[par][2])
            t = self.new_tx(par, n, rng.choice([1000, 2000, 5000]), rng.choice([1, 2, 3]))
        elif kind == "coinbase":
            k = rng.choice([1, 2, 2, 3, 3, 4, 5])
            t = self.new_tx("f%d" % k, None, rng.choice([2000, 10000]), rng.choice([1, 2, 6]))
        else:
            free = [o for o in outs if o not in used]
            if not free:
                return self.atmp_new("coinbase")
            src, n = rng.choice(free)
            t = self.new_tx(src, n, rng.choice([1000, 2000, 4000, 20000]), rng.choice([1, 2]))
        self.ops.append("atmp " + t)
        self.pooled.append(t)
        return t


def script(rng, tier):
    g = G(rng)
    flags = []
    if rng.random() < 0.12: flags.append("ibd")
    if rng.random() < 0.4: flags.append("nosync")
    style = rng.choice(["mix", "mix", "reorg", "mempool", "limits"])
    if style != "reorg" or rng.random() < 0.5:
        g.ops.append("tx fan f1 10000 %d" % rng.choice([6, 10, 12]))
        g.txs["fan"] = ("f1", None, 12); g.txorder.append("fan")
        g.txs["fan"] = ("f1", None, int(g.ops[-1].split()[-1]))
        g.mine("F", want=["fan"])
    n = rng.choice([4, 8, 12, 18]) if tier == "quick" else rng.choice([6, 12, 20, 30])
    for _ in range(n):
        r = rng.random()
        if style == "reorg":
            w = [("minetip", 3), ("fork", 4), ("forkbad", 1.5), ("extend", 3), ("inv", 1.5), ("recon", 1.5), ("atmp", 1)]
        elif style == "mempool":
            w = [("minetip", 2), ("fork", 1), ("atmp", 4), ("conflict", 2), ("child", 2), ("cb", 1), ("inv", 1), ("recon", 0.7), ("minepool", 2), ("mineconf", 1.5)]
        elif style == "limits":
            w = [("atmp", 3), ("child", 2), ("time", 1.5), ("expire", 1), ("trim", 1), ("limit", 1.5), ("minetip", 1), ("conflict", 1), ("minepool", 1)]
        else:
            w = [("minetip", 2), ("fork", 2), ("forkbad", 0.7), ("extend", 2), ("inv", 1), ("recon", 1), ("atmp", 2), ("conflict", 1), ("child", 1),
                 ("cb", 0.7), ("minepool", 1.5), ("mineconf", 1), ("time", 0.3), ("expire", 0.3), ("trim", 0.3), ("limit", 0.3)]
        tot = sum(x for _, x in w); x = rng.random() * tot
        for k, wt in w:
            x -= wt
            if x <= 0:
                break
        if k == "minetip":
            g.mine(g.tipguess, maxtx=rng.choice([0, 0, 2, 4]))
        elif k == "minepool":
            g.mine(g.tipguess, want=list(g.pooled), maxtx=rng.choice([1, 2, 5]))
        elif k == "mineconf":
            # a block holding a DIFFERENT spend of a coin that a pooled transaction spends (-> CONFLICT removal)
            if g.pooled:
                victim = rng.choice(g.pooled)
                src, nn, _ = g.txs[victim]
                t = g.new_tx(src, nn, 3000, 1)
                g.mine(g.tipguess, want=[t])
        elif k in ("fork", "forkbad"):
            parent = rng.choice(g.order[-6:]) if rng.random() < 0.7 else rng.choice(g.order)
            g.mine(parent, bad=(k == "forkbad"), maxtx=rng.choice([0, 0, 1, 3]))
        elif k == "extend":
            # extend a non-tip branch (often past the active tip)
            leafs = [b for b in g.order if not any(g.blocks[c]["parent"] == b for c in g.order)]
            parent = rng.choice(leafs)
            for _k in range(rng.choice([1, 1, 2, 3])):
                parent = g.mine(parent, bad=(rng.random() < 0.08), maxtx=rng.choice([0, 1]))
        elif k == "inv" and len(g.order) > 1:
            g.ops.append("inv " + rng.choice(g.order[1:][-6:] if rng.random() < 0.7 else g.order[1:]))
        elif k == "recon" and len(g.order) > 1:
            g.ops.append("recon " + rng.choice(g.order[1:]))
        elif k == "atmp":
            g.atmp_new("fresh")
        elif k == "conflict":
            g.atmp_new("conflict")
        elif k == "child":
            g.atmp_new("child")
        elif k == "cb":
            g.atmp_new("coinbase")
        elif k == "time":
            g.ops.append("time %d" % rng.choice([60, 3600, 1209600 - 1, 1209600, 1209601, 1300000]))
        elif k == "expire":
            g.ops.append("expire")
        elif k == "trim":
            g.ops.append("trim")
        elif k == "limit":
            g.ops.append("limit " + rng.choice(["cur", "cur", "max"]))
    body = " ; ".join(g.ops)
    return (" ".join(flags) + " ; " if flags else "") + body


FIXED = [
    # the ActivateBestChain back-out: reorg to a longer branch whose last block is invalid, return to the old tip (no UpdatedBlockTip)
    "mine a1 F ok ; mine a2 a1 ok ; mine a3 a2 ok ; mine b2 a1 ok ; mine b3 b2 ok ; mine b4 b3 bad ; inv a2 ; recon a2",
    "nosync ; mine a1 F ok ; mine a2 a1 ok ; mine a3 a2 ok ; mine b2 a1 ok ; mine b3 b2 ok ; mine b4 b3 bad ; inv a2 ; recon a2",
    # a transaction accepted and expired by the LimitMempoolSize of its own acceptance: removed without having been reported added
    "tx fan f1 10000 10 ; mine g1 F ok fan ; tx p fan:0 2000 2 ; atmp p ; time 1300000 ; tx t p:0 2000 1 ; atmp t",
    "tx fan f1 10000 10 ; mine g1 F ok fan ; tx p fan:0 50000 2 ; atmp p ; tx q fan:1 50000 1 ; atmp q ; limit cur ; tx t fan:2 1000 1 ; atmp t ; limit max ; atmp t",
    # initial block download: no MempoolTransactionsRemovedForBlock
    "ibd ; tx fan f1 10000 10 ; mine g1 F ok fan ; tx p fan:0 50000 2 ; atmp p ; mine g2 g1 ok p ; tx q fan:1 3000 1 ; atmp q ; mine h2 g1 ok ; mine h3 h2 ok",
    # confirm, conflict, reorg back
    "tx fan f1 10000 10 ; mine g1 F ok fan ; tx a fan:0 2000 2 ; atmp a ; tx b a:0 2000 1 ; atmp b ; tx a2 fan:0 3000 1 ; mine g2 g1 ok a2 ; mine h2 g1 ok ; mine h3 h2 ok ; inv h2 ; recon h2",
    # a just-matured coinbase spend made immature again by an invalidation
    "mine a1 F ok ; mine a2 a1 ok ; tx c f3 2000 2 ; atmp c ; inv a2 ; recon a2 ; mine a3 a2 ok c",
]


def gen(rng, tier):
    cases = list(FIXED)
    n = 60 if tier == "quick" else 2500
    for _ in range(n):
        cases.append(script(rng, tier))
    return cases


def nontrivial(c):
    return any(k in c for k in ("inv ", "recon ", " bad", "atmp ", "expire", "trim"))


def classify(c):
    f = c.split(";")[0].split()
    return "+".join(x for x in f if x in ("ibd", "nosync")) or "plain"


def shrink(c):
    """drop one op at a time (later ops first); the flags segment stays"""
    segs = [s.strip() for s in c.split(";")]
    head = []
    if segs and segs[0] and all(x in ("ibd", "nosync", "plain") for x in segs[0].split()):
        head, segs = [segs[0]], segs[1:]
    for i in range(len(segs) - 1, -1, -1):
        yield " ; ".join(head + segs[:i] + segs[i + 1:])


class Proj(str):
    """compared on the block notifications (D / C / U tokens, in order) and the final chain only: the mempool
    notifications depend on mempool policy, which the model does not predict; they are judged by `holds`."""
    def key(self):
        if "|" not in self:
            return str(self)
        toks = self.split("|")[0].split()
        keep = [t for t in toks if t[:2] in ("D:", "C:", "U:")]
        marks = [t for t in toks if t.startswith("M:")]
        last = marks[-1].split(":")[1] if marks else ""
        return " ".join(keep) + " # " + last
    def __eq__(self, other):
        return Proj.key(self) == Proj.key(Proj(other))
    def __ne__(self, other):
        return not self.__eq__(other)
    def __hash__(self):
        return hash(Proj.key(self))


TIES = [Tie("notify_chainsim", "tie/drivers/notify_drv.cpp", "Extract_Notify.v", "notify_driver.ml", gen,
            predicate="driver", nontrivial=nontrivial, classify=classify, shrink=shrink, canon=Proj, timeout=3000)]

LEVEL_TEXT = ("Coq theorems, for EVERY sequence of ActivateBestChain passes (any number of steps, reorgs of any depth, steps that back out of a failed "
              "reorg), InvalidateBlock runs and mempool operations of an executable transcription of the notification emission points: a subscriber "
              "that rebuilds chain and mempool from the notifications alone accepts every notification (each BlockDisconnected is for its current tip, "
              "each BlockConnected extends it, each UpdatedBlockTip names its tip and a fork block on its chain at or above the lowest point reached, "
              "every removal is of a transaction it holds, every addition of one it does not hold and that is not confirmed) and ends with exactly the "
              "node's chain and mempool; a step's block notifications are its disconnections (tip downwards) followed by its connections in order; "
              "transactions reported removed for a block are in that block; the SerialTaskRunner delivers in insertion order under every interleaving "
              "of inserting and servicing threads and never loses a wake-up. The clause 'reported added before reported removed' is proved false of the "
              "code (a transaction expired or evicted by the LimitMempoolSize of its own acceptance is reported removed and never added: _refuted "
              "theorem with witness, replayed on the node) and true for every script without such an acceptance.")
LEVEL_NOTE = ("LEVEL is 'proof' for the logic of the emission points and of the queue. Not expressible in the model and therefore not proved: the C++ "
              "memory model (that m_callbacks_mutex / cs_main really make the modelled critical sections atomic), the scheduler thread's lifetime, "
              "callbacks that re-enter validation, several subscribers being registered/unregistered while events are in flight (the list/refcount "
              "logic of ValidationSignalsImpl), ChainStateFlushed and the synchronous signals (BlockChecked, NewPoWValidBlock, ActiveTipChange). "
              "Which steps the chain selector takes and which transactions the mempool removes are inputs (quantified over), not derived; the "
              "correspondence predicts the block notifications with a small selector (model/NotifySim.v) and judges the mempool notifications with "
              "the proved subscriber predicate on the real node's output at every op boundary. Package acceptance is not modelled.")
TECHNIQUE = "Coq proof (simulation invariant between node-side emitter and subscriber, induction over op scripts and queue schedules) + differential correspondence on the real node with the real scheduler thread"
