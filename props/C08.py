from vlib.runner import Tie
from vlib import core

ID = "C08"
LEVEL = "proof"
DESIGN_REF = "DESIGN.md section 5, C08"
PROP_FILES = ["props/Properties_C08.v"]
RULE = ("cases: op scripts run on a fresh TestChain100Setup (regtest, 100 blocks): random block trees of up to 25 blocks on top "
        "of g100..g93 with forks of different lengths, blocks that fail at connect / at the contextual check / at CheckBlock in "
        "random positions, deliveries in random order (child before parent), duplicates, header-only deliveries, requested and "
        "unrequested blocks, invalidateblock / reconsiderblock of script and fixture blocks at random points. After EVERY op the "
        "implementation prints the tip and every block whose flags changed; the model must print the same, and the property's "
        "predicates are evaluated on the implementation's index after every op. Non-trivial = at least one block delivery and a "
        "fork or an invalid block or an invalidate; distinct = distinct case lines.")
ASSUMPTIONS = ["single caller: no concurrent ProcessNewBlock / RPC (ActivateBestChainStep's lock-release points are not modelled)",
               "no pruning, no assumeutxo snapshot chainstate, no PreciousBlock, no system (disk) errors, block index not reloaded from disk",
               "headers arrive with min_pow_checked = true and pass CheckBlockHeader / ContextualCheckBlockHeader",
               "a block's parent, claimed work and validity kind are functions of its id (hash); GetBlockProof > 0",
               "the model is a hand transcription of validation.cpp's chain selection; tied by the per-op correspondence"]
TRUSTED = ["Coq 8.16.1 kernel (coqc)",
           "tie/dump_params.cpp prints MIN_BLOCKS_TO_KEEP and SEQ_ID_INIT_FROM_DISK from the compiled tree",
           "extraction: ExtrOcamlBasic only; ocaml/conv.ml + chainsel_driver.ml glue (script parsing, delta printing, re-rooting of the dump)",
           "tie/drivers/chainsel_drv.cpp builds the blocks it is told to and calls ProcessNewBlock / ProcessNewBlockHeaders / the "
           "invalidateblock and reconsiderblock RPC bodies of the real node; it overwrites m_options.minimum_chain_work for `mw`"]

KINDS = ["valid"] * 16 + ["badconnect"] * 2 + ["badctx", "badfinal", "badcheck"]


def gen_tree(rng, nmax, bases):
    """blocks: list of (name, parent, kind); names b1.. ; parents among bases or earlier blocks"""
    n = rng.randrange(1, nmax + 1)
    blocks = []
    style = rng.random()
    for i in range(1, n + 1):
        if not blocks or rng.random() < (0.15 if style < 0.6 else 0.35):
            parent = rng.choice(bases)
        elif rng.random() < 0.65:
            parent = blocks[-1][0]           # extend the most recent block: long forks
        else:
            parent = rng.choice(blocks)[0]
        kind = rng.choice(KINDS) if rng.random() < 0.8 else "valid"
        blocks.append(("b%d" % i, parent, kind))
    return blocks


def gen_script(rng, blocks, bases, unreq_p=0.15):
    ops = []
    names = [b[0] for b in blocks]
    order = list(names)
    r = rng.random()
    if r < 0.35:
        pass                                 # parents first
    elif r < 0.6:
        order.reverse()                      # children first
    else:
        rng.shuffle(order)
    for nm in order:
        r = rng.random()
        if r < 0.12:
            ops.append("hdr %s" % nm)
            if rng.random() < 0.6:
                ops.append("sub %s req" % nm)
        elif r < 0.12 + unreq_p:
            ops.append("sub %s unreq" % nm)
            if rng.random() < 0.5:
                ops.append("sub %s req" % nm)
        else:
            ops.append("sub %s req" % nm)
    # duplicates / late redeliveries
    for _ in range(rng.randrange(0, 4)):
        nm = rng.choice(names)
        ops.insert(rng.randrange(0, len(ops) + 1), rng.choice(["sub %s req", "sub %s unreq", "hdr %s"]) % nm)
    # second pass for blocks whose parents were unknown the first time
    if rng.random() < 0.7:
        for nm in names:
            if rng.random() < 0.6:
                ops.append("sub %s req" % nm)
    # invalidate / reconsider
    targets = names + [b for b in bases] + ["g%d" % rng.randrange(90, 101)]
    for _ in range(rng.choice([0, 0, 1, 1, 2, 3, 4])):
        t = rng.choice(targets)
        pos = rng.randrange(0, len(ops) + 1)
        ops.insert(pos, "inv %s" % t)
        if rng.random() < 0.75:
            t2 = t if rng.random() < 0.6 else rng.choice(targets)
            ops.insert(rng.randrange(pos + 1, len(ops) + 1), "rec %s" % t2)
    if rng.random() < 0.15:
        ops.insert(rng.randrange(0, len(ops) + 1), "rec %s" % rng.choice(targets))
    return ops


def fmt(blocks, ops, mw=None):
    parts = (["mw %d" % mw] if mw is not None else []) + ["blk %s %s %s" % b for b in blocks] + ops
    return "; ".join(parts)


FIXED = [
    # first seen wins among equal work; a longer fork takes over; reorg back after invalidate
    "blk a g99 valid; blk b a valid; sub a req; sub b req",
    "blk a g100 valid; blk b g100 valid; sub a req; sub b req; blk c b valid; sub c req; inv c; rec c",
    "blk a g100 valid; blk b g100 valid; sub b req; sub a req; inv b; rec b",
    # child before parent: linked through m_blocks_unlinked when the parent arrives
    "blk a g100 valid; blk b a valid; blk c b valid; hdr a; hdr b; hdr c; sub c req; sub b req; sub a req",
    "blk a g100 valid; blk b a valid; blk c a valid; blk d b valid; hdr a b c d; sub d req; sub c req; sub b req; sub a req",
    # invalid in the middle of the better fork: fall back to the best valid one
    "blk a g100 valid; blk b a badconnect; blk c b valid; blk d g100 valid; sub a req; sub b req; sub c req; sub d req; rec b; rec c",
    "blk a g100 valid; blk b a badconnect; blk c b valid; hdr a b c; sub c req; sub b req; sub a req; rec c",
    "blk a g99 valid; blk b a valid; blk c b badconnect; blk d c valid; hdr a b c d; sub d req; sub c req; sub b req; sub a req",
    "blk a g100 badctx; blk b a valid; hdr a; hdr b; sub b req; sub a req; sub b req; rec a; sub a req",
    "blk a g100 badfinal; blk b a valid; hdr a b; sub b req; sub a req; rec b",
    "blk a g100 badcheck; blk b a valid; sub a req; hdr a; sub a req; hdr b; sub b req",
    # invalidate inside the active chain with competing forks
    "blk a g98 valid; blk b a valid; sub a req; sub b req; inv g99; rec g99",
    "blk a g98 valid; blk b a valid; blk c b valid; sub a req; sub b req; inv g99; sub c req; rec g100",
    "blk a g100 valid; blk b a valid; blk c g100 valid; blk d c valid; sub a req; sub b req; sub c req; sub d req; inv a; rec b",
    "blk a g100 valid; blk b a valid; blk c a valid; sub a req; sub b req; sub c req; inv b; inv c; rec a; rec c",
    "blk x g97 valid; blk y x valid; blk z y valid; blk w z valid; hdr x y z w; sub w req; sub z req; inv g98; sub y req; sub x req; rec g98",
    "inv g0; inv g1; rec g50; inv g100; inv g99; rec g100",
    # header-only descendants of an invalidated block; children of failed blocks refused
    "blk a g100 valid; blk b a valid; hdr a b; inv a; blk c b valid; hdr c; sub b req; rec a; sub a req; sub b req",
    "blk a g100 badconnect; sub a req; blk b a valid; sub b req; hdr b; rec a; hdr b; sub b req",
]


def shrink(case):
    parts = [p.strip() for p in case.split(";") if p.strip()]
    out = []
    # drop one op
    for i, p in enumerate(parts):
        w = p.split()
        if w[0] in ("blk", "chain"):
            nm = w[1]
            rest = []
            ok = True
            for j, q in enumerate(parts):
                if j == i:
                    continue
                qw = q.split()
                if qw[0] == "blk" and qw[2] == nm:
                    ok = False
                    break
                if qw[0] == "chain":
                    if qw[2] == nm:
                        ok = False
                        break
                    rest.append(q)
                    continue
                if qw[0] != "blk" and qw[0] != "mw" and any((x == nm or (w[0] == "chain" and x.startswith(nm) and x[len(nm):].isdigit())) for x in qw[1:]):
                    continue
                rest.append(q)
            if ok:
                out.append("; ".join(rest))
        else:
            out.append("; ".join(parts[:i] + parts[i + 1:]))
    # make an invalid block valid
    for i, p in enumerate(parts):
        w = p.split()
        if w[0] == "blk" and w[3] != "valid":
            out.append("; ".join(parts[:i] + ["blk %s %s valid" % (w[1], w[2])] + parts[i + 1:]))
    return out


def gen(rng, tier):
    cases = list(FIXED)
    nrand = 420 if tier == "quick" else 12000
    for _ in range(nrand):
        nb = rng.choice([1, 2, 3, 3, 5, 7])
        bases = ["g%d" % (100 - rng.choice([0, 0, 0, 1, 1, 2, 3, 5, 7])) for _ in range(nb)]
        blocks = gen_tree(rng, rng.choice([3, 5, 8, 12, 25]), bases)
        ops = gen_script(rng, blocks, bases)
        cases.append(fmt(blocks, ops))
    return cases


def nontrivial(c):
    return "sub " in c and (" inv " in c or "bad" in c or c.count("blk ") >= 3)


def classify(c):
    k = []
    if "inv " in c: k.append("inv")
    if "rec " in c: k.append("rec")
    if "bad" in c: k.append("invalid")
    if "unreq" in c: k.append("unreq")
    return "+".join(k) or "plain"


TIES = [Tie("chainsel_ops", "tie/drivers/chainsel_drv.cpp", "Extract_ChainSel.v", "chainsel_driver.ml", gen, mode="C08",
            predicate="driver", nontrivial=nontrivial, classify=classify, shrink=shrink)]

LEVEL_TEXT = ("Coq theorems (coq/props/Properties_C08.v, all closed under the global context, nothing partial) by induction over ALL "
              "sequences of header deliveries, block deliveries (requested or not), invalidateblock and reconsiderblock calls from the "
              "genesis state, for every block universe (arbitrary parent / work / validity kind per block id, work > 0, genesis valid) "
              "and every MinimumChainWork: (1) an invariant modelled on CheckBlockIndex holds after every op (index is a tree; active "
              "chain = ancestry of the tip, all with data, unflagged, valid; failure flags descendant-closed; HaveNumChainTxs <=> data on "
              "the whole ancestry; candidates sound and complete; m_blocks_unlinked exact; sequence ids unique) and the tip is the only "
              "candidate left; (2) tip_is_best: the tip is the maximum, in CBlockIndexWorkComparator's order, of the blocks whose whole "
              "ancestry has data and no failure flag (hence greatest chainwork, and earliest sequence id among equal work); (3) no block "
              "failing a consensus check and no descendant of one is ever in the active chain; (4) invalidateblock b leaves b flagged and "
              "outside the active chain; (5) after reconsiderblock the tip is best again. Loops carry explicit fuel with proved bounds "
              "(FindMostWorkChain |candidates|+1, ReceivedBlockTransactions |unlinked|+1, ActivateBestChain |index|+1 rounds). Model tied "
              "to the real ChainstateManager on TestChain100Setup by running the same op script on both and comparing the call result, the "
              "tip and every changed block flag (known, HAVE_DATA, FAILED, active, nSequenceId) after every op; the property's predicates "
              "are evaluated on the implementation's index after every op.")
LEVEL_NOTE = ("Trusted: Coq kernel, dump_params.cpp, extraction + driver glue. The model is a hand transcription; block ids stand for "
              "hashes; the ancestor list stored in a header stands for the pprev/pskip pointers; ActivateBestChainStep's early "
              "returns (lock release, 32-block batches) are not modelled because with one caller they only split the same sequence "
              "of connects. Not modelled: pruning (FindMostWorkChain's missing-data branch is transcribed and proved unreachable), "
              "snapshot chainstates, PreciousBlock, m_best_header, m_best_invalid, too-little-chainwork headers (min_pow_checked=false), "
              "system errors. The predicates evaluated on the implementation's dump (holds_tip_best, holds_tip_most_work, "
              "holds_active_clean) are extracted Coq functions proved to hold on the dump of every reachable model state "
              "(C08_search_predicates_hold_on_model_states); the OCaml glue that rebuilds the dump from the per-op deltas and re-roots "
              "it at the lowest touched fixture block is trusted.")
TECHNIQUE = "Coq proof (invariant in the style of CheckBlockIndex, induction over op sequences) + per-op differential correspondence"
