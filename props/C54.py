from vlib.runner import Tie
from vlib import core

ID = "C54"
LEVEL = "proof"
DESIGN_REF = "DESIGN.md section 5, C54"
PROP_FILES = ["props/Properties_C54.v"]
RULE = ("cases: tree <bits table> <N> <parent of block 1..N-1> | queries: block trees (linear chains, two long branches forking at "
        "every depth class, random recursive trees with recent-biased and uniform parents, bushy trees) of 1..3000 blocks (thorough: "
        "6000) are inserted through BlockManager::AddToBlockIndex; queries: a <b> <h> GetAncestor at 0, h, h+-1, -1, the skip heights, "
        "powers of two +-1 and random heights; s <b> the stored pskip; l <a> <b> LastCommonAncestor on random, same-branch, identical "
        "and cross-branch pairs; f <tip> <b> CChain::SetTip+FindFork (b above, on and off the chain); c <tip> <h> chain[h]; loc <b> "
        "LocatorEntries; w <b> nChainWork with mixed nBits (valid, zero, negative, overflowing, target 1); proof <nBits> GetBitsProof for "
        "all 256 size bytes x sign x boundary mantissas and random nBits. Non-trivial = trees with more than one block and every proof "
        "case; distinct = distinct case lines.")
ASSUMPTIONS = ["block heights stay below 2^30-1 (LocatorEntries' `step *= 2` would overflow int beyond that; nHeight+1 does not overflow)",
               "a single genesis block (LastCommonAncestor dereferences nullptr for blocks of different trees)",
               "accumulated chain work below 2^256 for the sum clause",
               "the model is a hand transcription of chain.cpp; tied by the correspondence on the listed cases; block identity is the "
               "insertion index (pointers never compared across trees)"]
TRUSTED = ["Coq 8.16.1 kernel (coqc; no native_compute)",
           "extraction: ExtrOcamlBasic only; ocaml/conv.ml + chainnav_driver.ml glue (zarith only to parse/print and for the big-integer "
           "reference of floor(2^256/(target+1)))",
           "tie/drivers/chainnav_drv.cpp inserts headers with BlockManager::AddToBlockIndex on a regtest TestingSetup and maps returned "
           "pointers back to insertion indices through the block hash"]

BITS_MIX = [0x207fffff, 0x1d00ffff, 0x1b0404cb, 0x03000001, 0x00000000, 0x04800001, 0x2100ffff, 0x170331db, 0x01010000]


def skip_height(h):
    if h < 2:
        return 0
    ilo = lambda n: n & (n - 1)
    return ilo(ilo(h - 1)) + 1 if (h & 1) else ilo(h)


def make_tree(rng, n, style):
    parents = []
    if style == "linear":
        parents = list(range(0, n - 1))
    elif style == "fork":
        # a main chain and a side branch leaving it at a chosen depth
        main = max(1, int(n * rng.choice([0.5, 0.6, 0.75, 0.9])))
        parents = list(range(0, main - 1))
        fork = rng.randrange(0, main)
        prev = fork
        for i in range(main, n):
            parents.append(prev)
            prev = i
    elif style == "recent":
        for i in range(1, n):
            parents.append(max(0, i - 1 - int(rng.expovariate(0.7))))
    elif style == "uniform":
        for i in range(1, n):
            parents.append(rng.randrange(0, i))
    elif style == "mixed":
        for i in range(1, n):
            r = rng.random()
            if r < 0.9:
                parents.append(i - 1)
            elif r < 0.97:
                parents.append(max(0, i - 1 - rng.randrange(0, 20)))
            else:
                parents.append(rng.randrange(0, i))
    return parents


def gen_tree_case(rng, n, style, nq):
    parents = make_tree(rng, n, style)
    height = [0] * n
    for i in range(1, n):
        height[i] = height[parents[i - 1]] + 1
    deepest = max(range(n), key=lambda i: height[i])
    if rng.random() < 0.5:
        bits = [0x207fffff]
    else:
        k = rng.randrange(1, 6)
        bits = [rng.choice(BITS_MIX) for _ in range(k)]
    qs = []

    def pick():
        r = rng.random()
        if r < 0.25:
            return deepest
        if r < 0.5:
            return n - 1 - min(n - 1, int(rng.expovariate(0.1)))
        return rng.randrange(0, n)

    for _ in range(nq):
        r = rng.random()
        b = pick()
        hb = height[b]
        if r < 0.35:
            cands = [0, hb, hb + 1, hb - 1, -1, skip_height(hb), skip_height(hb) - 1, skip_height(hb) + 1, skip_height(max(0, hb - 1)),
                     rng.randrange(0, hb + 1), hb // 2, 1, 2, 2147483647, -2147483648]
            for p in (1, 2, 4, 8, 16, 64, 256, 1024):
                if p <= hb:
                    cands += [hb - p, p, p - 1]
            qs.append("a %d %d" % (b, rng.choice(cands)))
        elif r < 0.45:
            qs.append("s %d" % b)
        elif r < 0.65:
            a = pick()
            if rng.random() < 0.15:
                a = b
            qs.append("l %d %d" % (a, b))
        elif r < 0.8:
            tip = pick()
            qs.append("f %d %d" % (tip, b))
        elif r < 0.85:
            tip = pick()
            qs.append("c %d %d" % (tip, rng.choice([0, height[tip], height[tip] + 1, -1, rng.randrange(0, height[tip] + 1)])))
        elif r < 0.93:
            qs.append("loc %d" % b)
        elif r < 0.98:
            qs.append("w %d" % b)
        else:
            qs.append("h %d" % b)
    qs.append("loc %d" % deepest)
    qs.append("s %d" % deepest)
    qs.append("w %d" % deepest)
    return "tree %d %s %d %s | %s" % (len(bits), " ".join(map(str, bits)), n, " ".join(map(str, parents)), " ".join(qs))


def gen_proof(rng, tier):
    cases = []
    mants = [0, 1, 0x7f, 0x80, 0xff, 0x100, 0xffff, 0x10000, 0x7fffff, 0x400000, 0x123456]
    for size in range(256):
        for sign in (0, 0x00800000):
            for m in mants:
                cases.append("proof %d" % ((size << 24) | sign | m))
    for _ in range(500 if tier == "quick" else 50000):
        if rng.random() < 0.5:
            cases.append("proof %d" % rng.getrandbits(32))
        else:
            cases.append("proof %d" % ((rng.randrange(0, 36) << 24) | rng.getrandbits(23)))
    return cases


def gen(rng, tier):
    cases = gen_proof(rng, tier)
    plan = []
    if tier == "quick":
        plan += [(n, s, 40) for n in (1, 2, 3, 5, 12, 13, 30) for s in ("linear", "uniform")]
        plan += [(rng.randrange(20, 300), s, 60) for s in ("linear", "fork", "recent", "uniform", "mixed") for _ in range(8)]
        plan += [(rng.randrange(600, 1200), s, 80) for s in ("linear", "fork", "mixed", "recent") for _ in range(2)]
        plan += [(3000, "linear", 120), (2500, "fork", 120), (2000, "mixed", 100)]
    else:
        plan += [(n, s, 60) for n in range(1, 40) for s in ("linear", "uniform", "fork")]
        plan += [(rng.randrange(20, 400), s, 80) for s in ("linear", "fork", "recent", "uniform", "mixed") for _ in range(120)]
        plan += [(rng.randrange(600, 2000), s, 120) for s in ("linear", "fork", "mixed", "recent") for _ in range(12)]
        plan += [(6000, "linear", 200), (5000, "fork", 200), (4000, "mixed", 200), (3000, "recent", 200)]
    for (n, style, nq) in plan:
        cases.append(gen_tree_case(rng, n, style, nq))
    return cases


TIES = [Tie("chainnav_fn", "tie/drivers/chainnav_drv.cpp", "Extract_ChainNav.v", "chainnav_driver.ml", gen,
            predicate="driver", nontrivial=lambda c: not c.startswith("tree 1 545259519 1 |"),
            classify=lambda c: c.split(" ", 1)[0])]

LEVEL_TEXT = ("Coq theorems for every tree built by adding blocks in any order and shape: BuildSkip stores exactly the ancestor at "
              "GetSkipHeight(nHeight), which is proved to lie in [0, nHeight); GetAncestor terminates within nHeight+1 iterations and "
              "returns the unique block at the requested height on the path to genesis (nullptr outside 0..nHeight); LastCommonAncestor "
              "and CChain::FindFork (on the vChain SetTip builds) return a common ancestor with no common ancestor above it; LocatorEntries "
              "returns ancestors at heights h, h-1 (x11), then steps 2,4,8,... clamped at genesis, strictly decreasing, genesis last; "
              "GetBitsProof = floor(2^256/(target+1)) over unbounded integers for every nBits (0 for negative/zero/overflowing targets, no "
              "division by zero, no wrap); nChainWork = sum of block proofs over the ancestry while below 2^256. Model tied to the real "
              "functions through BlockManager::AddToBlockIndex-built trees and differential queries.")
LEVEL_NOTE = ("Trusted: Coq kernel; extraction and the OCaml/C++ glue. The model is a hand transcription; the two nested loops of "
              "LastCommonAncestor are modelled as one state machine (same transitions). The locator theorem assumes heights below 2^30-1 "
              "(beyond that `step *= 2` overflows int in the C++). GetBlockProofEquivalentTime is not covered.")
TECHNIQUE = "Coq proof (induction on fuel/insertion order over an executable pointer-structure model) + differential correspondence"
