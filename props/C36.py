from vlib.runner import Tie
from vlib import core

ID = "C36"
LEVEL = "partial"
DESIGN_REF = "DESIGN.md section 5, C36"
PROP_FILES = ["props/Properties_C36.v"]
RULE = ("cases: one mock peer (outbound full relay / inbound / manual / block-relay-only, with or without the noban permission, routable or local "
        "address) on the real PeerManager of a regtest node; the peer sends one of: 11 kinds of tx message (valid, bad signature, non-standard, "
        "orphan, conflicting, premature coinbase spend, duplicate, truncated payload, no inputs, outputs exceed inputs, garbage), headers (invalid "
        "proof of work, far-future time, non-continuous, fine), a full block (mutated merkle root, consensus-invalid coinbase, valid), an oversized "
        "inv/getdata/headers, or is attributed every BlockValidationResult value through the real BlockChecked -> MaybePunishNodeForBlock (a stored "
        "side-chain block it sent), or UnitTestMisbehaving; observed after the next SendMessages: CNode::fDisconnect, BanMan::IsDiscouraged. "
        "all cases are distinct and non-trivial")
ASSUMPTIONS = ["that the tx message path contains no Misbehaving call is a structural property of the code: carried by the correspondence "
               "(11 kinds of tx message x every peer kind), not by a theorem",
               "MaybePunishNodeForBlock with via_compact_block = true is transcribed and proved about but not exercised by the tie "
               "(the compact-block reconstruction path registers the source only for blocks that then connect)"]
TRUSTED = ["Coq 8.16.1 kernel (coqc)", "tie/dump_params.cpp (+ tie/params/p2pd.h) prints the BlockValidationResult enum values",
           "extraction: ExtrOcamlBasic only; ocaml/conv.ml + punish_driver.ml glue (which message kinds set the misbehaviour flag)",
           "tie/p2pd_harness.h + punish_drv.cpp: regtest TestChain100Setup, ConnmanTestMsg mock peers, injected BlockChecked verdicts, PeerManager::UnitTestMisbehaving"]


def gen(rng, tier):
    cases = []
    actions = ["mis"] + ["blockres %d" % r for r in range(9)] + ["tx %d" % k for k in range(11)] + ["hdr %d" % k for k in range(4)] + \
              ["blk %d" % k for k in range(3)] + ["big inv", "big getdata", "big headers"]
    combos = [(c, nb, lo) for c in (0, 1, 2, 3) for nb in (0, 1) for lo in (0, 1)]
    allc = [(c, nb, lo, a) for (c, nb, lo) in combos for a in actions]
    # every tx kind from every kind of peer, every block verdict from every kind of peer: the full tables
    if tier == "quick":
        rng.shuffle(allc)
        must = [x for x in allc if x[3].startswith("tx") or x[3].startswith("blockres") or x[3] == "mis"]
        rest = [x for x in allc if x not in must]
        allc = must + rest[:60]
    for (c, nb, lo, a) in allc:
        cases.append("%d %d %d %s" % (c, nb, lo, a))
    return cases


TIES = [Tie("punish_table", "tie/drivers/punish_drv.cpp", "Extract_Punish.v", "punish_driver.ml", gen,
            predicate="driver", classify=lambda c: c.split()[3])]

LEVEL_TEXT = ("Coq theorems about a transcription of the punishment decision tables: the complete table of MaybePunishNodeForBlock "
              "(which BlockValidationResult sets the misbehaviour flag, depending on via_compact_block and inbound), "
              "MaybeDiscourageAndDisconnect (noban -> nothing, manual -> nothing, local address -> disconnect only, else disconnect and discourage): "
              "noban and manual peers are never disconnected or discouraged; the sender of a full block found invalid (consensus, mutated, invalid "
              "header, invalid or missing predecessor) and the sender of headers with invalid proof of work is disconnected, and discouraged iff its "
              "address is not local. The tables are tied to the real PeerManager by enumerating every verdict, message kind and peer kind.")
LEVEL_NOTE = ("Residue: 'no transaction message ever causes punishment' is a property of the structure of the tx message handler (no Misbehaving call "
              "on that path); the model states it as a constant table and the clause is carried by the correspondence over 11 kinds of tx message "
              "(invalid, non-standard, orphan, conflicting, undecodable...) from every kind of peer, not by a theorem. Not covered: addr/filter "
              "messages, compact-block paths (via_compact_block = true rows are proved about, not exercised).")
TECHNIQUE = "Coq proof (decision tables, case analysis over the compiled enum values) + correspondence on the real PeerManager"
