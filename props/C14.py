from vlib.runner import Tie
from vlib import core

ID = "C14"
LEVEL = "partial"
DESIGN_REF = "DESIGN.md section 5, C14"
PROP_FILES = ["props/Properties_C14.v"]
RULE = ("cases: the real CCheckQueue with 0..8 worker threads and batch sizes 1..128, one queue object reused over several "
        "CCheckQueueControl sessions (all checks pass / exactly one fails at every position / several fail / empty session / a failing session "
        "followed by a passing one), checks handed over in 1..n Add() calls, some checks slow so that workers overlap, the whole script repeated "
        "20-200 times; only schedule-independent facts are compared: pass/fail of each Complete(), the reported failure is one of the failing "
        "checks, every check ran when success is reported, no check ran twice. prevout_fetch: the real CoinsViewOverlay over a cache over an "
        "in-memory coins database with 0..16 fetch threads, blocks of 1..30 transactions spending base coins, outputs created earlier in the block, "
        "absent coins and duplicated outpoints, accessed in block order / shuffled / partially / with extra outpoints, repeated 5-50 times; "
        "compared: every answer equals the direct lookup, the cache below the overlay stays empty, AllInputsConsumed, identical over repetitions. "
        "non-trivial = at least one worker thread and more than one check")
ASSUMPTIONS = ["a check's verdict does not depend on the schedule (the checks share no mutable state)",
               "m_mutex makes the critical sections of Loop()/Add() atomic and std::condition_variable behaves as specified (the model's steps ARE those critical sections)",
               "only the master thread calls Add()/Complete(), one CCheckQueueControl at a time (m_control_mutex)"]
TRUSTED = ["Coq 8.16.1 kernel (coqc)", "extraction: ExtrOcamlBasic only; ocaml/conv.ml + checkqueue_driver.ml glue (a seeded random scheduler over the extracted step function)",
           "tie/drivers/checkqueue_drv.cpp: real CCheckQueue<DrvCheck> / CCheckQueueControl with real threads; per-check atomic run counters"]


def session(rng, kind, maxn):
    n = rng.choice([1, 2, 3, 5, 8, 13, 21, 40, maxn])
    if kind == "empty":
        return ""
    vs = ["0"] * n
    if kind == "onefail":
        vs[rng.randrange(n)] = str(rng.randrange(1, 1000))
    elif kind == "manyfail":
        for _ in range(rng.choice([2, 3, n])):
            vs[rng.randrange(n)] = str(rng.randrange(1, 1000))
    elif kind == "allfail":
        vs = [str(rng.randrange(1, 1000)) for _ in range(n)]
    slow = rng.random()
    if slow < 0.5:
        p = rng.choice([0.2, 0.5, 1.0])
        vs = [v + ("s" if rng.random() < p else "") for v in vs]
    # split into Add() batches
    out, i = [], 0
    style = rng.choice(["one", "each", "rand"])
    while i < n:
        k = n if style == "one" else 1 if style == "each" else rng.randrange(1, n - i + 1)
        out.append(",".join(vs[i:i + k])); i += k
    if rng.random() < 0.1:
        out.insert(rng.randrange(len(out) + 1), "")      # an empty Add()
    return "/".join(out)


def gen(rng, tier):
    cases = []
    # every position of a single failure, every thread count
    for w in range(0, 9):
        for pos in range(6):
            vs = ["0"] * 6; vs[pos] = "7"
            cases.append("cq %d %d 30 | %s | 0,0,0" % (w, rng.choice([1, 2, 128]), ",".join(vs)))
    n = 250 if tier == "quick" else 6000
    for _ in range(n):
        w = rng.choice([0, 1, 2, 3, 4, 6, 8])
        bs = rng.choice([1, 2, 3, 8, 128])
        reps = rng.choice([20, 50, 200]) if tier == "quick" else rng.choice([50, 200, 1000])
        ns = rng.choice([1, 2, 3, 4])
        ss = [session(rng, rng.choice(["pass", "pass", "onefail", "onefail", "manyfail", "allfail", "empty"]), 64) for _ in range(ns)]
        cases.append("cq %d %d %d | %s" % (w, bs, reps, " | ".join(ss)))
    return cases


def nontrivial(c):
    w = c.split()
    return int(w[1]) > 0 and c.count(",") > 0


class Verdict(str):
    """compared on pass/fail per session only: which failing check is reported and how many checks ran before the failure
    was seen depend on the schedule (judged by `holds`)."""
    def key(self):
        out = []
        for t in self.split():
            if ":res=" not in t:
                return str(self)
            res = t.split(":res=")[1].split(";")[0]
            out.append(t.split(":")[0] + ("=pass" if res == "-" else "=fail"))
        return " ".join(out)
    def __eq__(self, other):
        return Verdict.key(self) == Verdict.key(Verdict(other))
    def __ne__(self, other):
        return not self.__eq__(other)
    def __hash__(self):
        return hash(Verdict.key(self))


def gen_fetch(rng, tier):
    cases = ["fetch 4 20 | c1 ; c2,c3 ; t1,c4 ; c9 | c1 c2 c3 t1 c4 c9 | 1 2 3 4",
             "fetch 4 20 | c1 ; c2,c3 ; t1,c4 ; c9 | c2 c1 c3 c9 c4 c1 | 1 2 3 4",
             "fetch 0 5 | c1 ; c2 | c1 c2 | 1"]
    n = 300 if tier == "quick" else 6000
    for _ in range(n):
        th = rng.choice([0, 1, 2, 4, 8, 16])
        ntx = rng.choice([1, 2, 3, 6, 12, 30])
        coins = list(range(1, 3 * ntx + 4))
        txs, flat = [], []
        nxt = 1
        for j in range(1, ntx + 1):
            ins = []
            for _k in range(rng.choice([1, 1, 2, 3])):
                if j > 1 and rng.random() < 0.25:
                    ins.append("t%d" % rng.randrange(1, j))
                elif rng.random() < 0.1 and flat:
                    ins.append(rng.choice(flat))            # the same outpoint twice in the block (an invalid block)
                else:
                    ins.append("c%d" % nxt); nxt += 1
            txs.append(",".join(ins)); flat += ins
        order = rng.choice(["inorder", "inorder", "shuffled", "partial", "extra"])
        acc = list(flat)
        if rng.random() < 0.5:
            acc = [a for a in acc if not a.startswith("t")]      # as ConnectBlock: outputs created in the block are found in the cache
        if order == "shuffled": rng.shuffle(acc)
        elif order == "partial": acc = acc[:rng.randrange(0, len(acc) + 1)]
        elif order == "extra":
            for _k in range(rng.choice([1, 3])):
                acc.insert(rng.randrange(len(acc) + 1), rng.choice(["c%d" % rng.randrange(1, nxt + 3), rng.choice(flat)]))
        present = [k for k in range(1, nxt + 3) if rng.random() < rng.choice([1.0, 0.9, 0.5])]
        cases.append("fetch %d %d | %s | %s | %s" % (th, rng.choice([5, 20, 50]), " ; ".join(txs), " ".join(acc), " ".join(map(str, present))))
    return cases


TIES = [Tie("checkqueue", "tie/drivers/checkqueue_drv.cpp", "Extract_CheckQueue.v", "checkqueue_driver.ml", gen,
            predicate="driver", nontrivial=nontrivial, classify=lambda c: "w" + c.split()[1], canon=Verdict, timeout=3000),
        Tie("prevout_fetch", "tie/drivers/checkqueue_fetch_drv.cpp", "Extract_ConcFetch.v", "checkqueue_fetch_driver.ml", gen_fetch,
            predicate="driver", nontrivial=lambda c: not c.startswith("fetch 0 "), classify=lambda c: "t" + c.split()[1], timeout=3000)]

LEVEL_TEXT = ("Coq theorems over EVERY schedule (any interleaving of the critical sections of master and workers, any number of workers, any batch "
              "size, condition variables with lost-notification semantics) of an executable transcription of CCheckQueue::Loop / Add / Complete: "
              "Complete() reports success iff every check of the session passes, i.e. iff serial evaluation succeeds; a reported failure is the result "
              "of one of the session's failing checks (which one is schedule-dependent); success is reported only after every check ran; a batch is "
              "skipped only when a failure is already recorded; a thread never publishes a failure left over from an earlier session (local_result "
              "outlives loop iterations); after Complete() the queue is clean; Complete() never deadlocks and returns within a computed number of "
              "steps under every schedule. The prevout fetcher (CoinsViewOverlay) in the same style: for every schedule and request order each fetched coin "
              "is the base view's coin, its assertions never fire, no input is claimed twice, the validation thread's wait always makes progress. Tied to "
              "the real CCheckQueue and the real CoinsViewOverlay with real threads on schedule-independent observables.")
LEVEL_NOTE = ("PARTIAL. Proved: the script-check queue clauses (verdict and reject-reason category independent of thread count and interleaving) and the "
              "prevout-fetch clause (same coins as a direct lookup; the base is only read through the const PeekCoin, so 'base unchanged' holds by "
              "construction of the model and is checked on the real views by the driver). NOT proved, named residue: (1) 'no data race' and memory-order "
              "correctness -- the models' atomic steps are the m_mutex critical sections resp. the fetch_add / coin write / release-store / "
              "acquire-wait events in program order and sequentially consistent; that the C++ atomics realise them is not expressible in an executable "
              "Gallina model (a ThreadSanitizer run would be supporting evidence, not a proof); (2) 'the resulting UTXO set' is not part of these "
              "models (script checks do not write the UTXO set; the overlay's Flush/SpendCoin/AddCoin are the cache layers of C15, the ledger is "
              "C01/C02/C09); (3) ThreadPool internals and StopFetching/Reset joining the workers. The correspondence exercises real threads but cannot "
              "enumerate schedules; it compares only schedule-independent facts.")
TECHNIQUE = "Coq proof (inductive invariant of a small-step concurrent machine, permutation reasoning over thread-held batches, decreasing measure for termination) + differential correspondence with real threads"
