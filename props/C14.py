from vlib.runner import Tie
from vlib import core

ID = "C14"
LEVEL = "partial"
DESIGN_REF = "DESIGN.md section 5, C14"
PROP_FILES = ["props/Properties_C14.v"]
RULE = ("cases: the real CCheckQueue with 0..8 worker threads and batch sizes 1..128, one queue object reused over several "
        "CCheckQueueControl sessions (all checks pass / exactly one fails at every position / several fail / empty session / a failing session "
        "followed by a passing one), checks handed over in 1..n Add() calls, some checks slow so that workers overlap, the whole script repeated "
        "20-200 times; only schedule-independent facts are compared: pass/fail of each Complete(), the reported failure is one of the failing "
        "checks, every check ran when success is reported, no check ran twice. non-trivial = at least one worker thread and more than one check")
ASSUMPTIONS = ["a check's verdict does not depend on the schedule (the checks share no mutable state)",
               "m_mutex makes the critical sections of Loop()/Add() atomic and std::condition_variable behaves as specified (the model's steps ARE those critical sections)",
               "only the master thread calls Add()/Complete(), one CCheckQueueControl at a time (m_control_mutex)"]
TRUSTED = ["Coq 8.16.1 kernel (coqc)", "extraction: ExtrOcamlBasic only; ocaml/conv.ml + checkqueue_driver.ml glue (a seeded random scheduler over the extracted step function)",
           "tie/drivers/checkqueue_drv.cpp: real CCheckQueue<DrvCheck> / CCheckQueueControl with real threads; per-check atomic run counters"]


def session(rng, kind, maxn):
    n = rng.choice([1, 2, 3, 5, 8, 13, 21, 40, maxn])
    if kind == "empty":
        return ""
    vs = ["0"] * n
    if kind == "onefail":
        vs[rng.randrange(n)] = str(rng.randrange(1, 1000))
    elif kind == "manyfail":
        for _ in range(rng.choice([2, 3, n])):
            vs[rng.randrange(n)] = str(rng.randrange(1, 1000))
    elif kind == "allfail":
        vs = [str(rng.randrange(1, 1000)) for _ in range(n)]
    slow = rng.random()
    if slow < 0.5:
        p = rng.choice([0.2, 0.5, 1.0])
        vs = [v + ("s" if rng.random() < p else "") for v in vs]
    # split into Add() batches
    out, i = [], 0
    style = rng.choice(["one", "each", "rand"])
    while i < n:
        k = n if style == "one" else 1 if style == "each" else rng.randrange(1, n - i + 1)
        out.append(",".join(vs[i:i + k])); i += k
    if rng.random() < 0.1:
        out.insert(rng.randrange(len(out) + 1), "")      # an empty Add()
    return "/".join(out)


def gen(rng, tier):
    cases = []
    # every position of a single failure, every thread count
    for w in range(0, 9):
        for pos in range(6):
            vs = ["0"] * 6; vs[pos] = "7"
            cases.append("cq %d %d 30 | %s | 0,0,0" % (w, rng.choice([1, 2, 128]), ",".join(vs)))
    n = 250 if tier == "quick" else 6000
    for _ in range(n):
        w = rng.choice([0, 1, 2, 3, 4, 6, 8])
        bs = rng.choice([1, 2, 3, 8, 128])
        reps = rng.choice([20, 50, 200]) if tier == "quick" else rng.choice([50, 200, 1000])
        ns = rng.choice([1, 2, 3, 4])
        ss = [session(rng, rng.choice(["pass", "pass", "onefail", "onefail", "manyfail", "allfail", "empty"]), 64) for _ in range(ns)]
        cases.append("cq %d %d %d | %s" % (w, bs, reps, " | ".join(ss)))
    return cases


def nontrivial(c):
    w = c.split()
    return int(w[1]) > 0 and c.count(",") > 0


class Verdict(str):
    """compared on pass/fail per session only: which failing check is reported and how many checks ran before the failure
    was seen depend on the schedule (judged by `holds`)."""
    def key(self):
        out = []
        for t in self.split():
            if ":res=" not in t:
                return str(self)
            res = t.split(":res=")[1].split(";")[0]
            out.append(t.split(":")[0] + ("=pass" if res == "-" else "=fail"))
        return " ".join(out)
    def __eq__(self, other):
        return Verdict.key(self) == Verdict.key(Verdict(other))
    def __ne__(self, other):
        return not self.__eq__(other)
    def __hash__(self):
        return hash(Verdict.key(self))


TIES = [Tie("checkqueue", "tie/drivers/checkqueue_drv.cpp", "Extract_CheckQueue.v", "checkqueue_driver.ml", gen,
            predicate="driver", nontrivial=nontrivial, classify=lambda c: "w" + c.split()[1], canon=Verdict, timeout=3000)]

LEVEL_TEXT = ("Coq theorems over EVERY schedule (any interleaving of the critical sections of master and workers, any number of workers, any batch "
              "size, condition variables with lost-notification semantics) of an executable transcription of CCheckQueue::Loop / Add / Complete: "
              "Complete() reports success iff every check of the session passes, i.e. iff serial evaluation succeeds; a reported failure is the result "
              "of one of the session's failing checks (which one is schedule-dependent); success is reported only after every check ran; a batch is "
              "skipped only when a failure is already recorded; a thread never publishes a failure left over from an earlier session (local_result "
              "outlives loop iterations); after Complete() the queue is clean; Complete() never deadlocks and returns within a computed number of "
              "steps under every schedule. Tied to the real CCheckQueue with real threads on schedule-independent observables.")
LEVEL_NOTE = ("PARTIAL. Proved: the script-check queue clauses (verdict and reject-reason category independent of thread count and interleaving). NOT "
              "proved, named residue: (1) 'no data race' and memory-order correctness -- the model's atomic steps are the m_mutex critical sections and "
              "sequentially consistent; that the C++ realises them is not expressible in an executable Gallina model; (2) the prevout fetcher "
              "(CoinsViewOverlay::StartFetching / ProcessInput / FetchCoinFromBase, fetch_add + release/acquire flag) is not modelled here; (3) 'the "
              "resulting UTXO set' is not part of this model (script checks do not write the UTXO set; C01/C02/C09/C15 cover the ledger and the cache "
              "layers). The correspondence exercises real threads but cannot enumerate schedules; it compares only schedule-independent facts.")
TECHNIQUE = "Coq proof (inductive invariant of a small-step concurrent machine, permutation reasoning over thread-held batches, decreasing measure for termination) + differential correspondence with real threads"
