from vlib.runner import Tie
from vlib import core

ID = "C60"
LEVEL = "proof"
DESIGN_REF = "DESIGN.md section 5, C60"
PROP_FILES = ["props/Properties_C60.v"]
RULE = ("cases: (subnet) CSubNet(base, prefix).Match(addr) for every IPv4 prefix 0..33 and IPv6 prefix 0..129 with addresses equal "
        "to the base, differing from it in exactly bit prefix-1 / prefix / prefix+1, random, of another network class and invalid "
        "(0.0.0.0, 255.255.255.255, ::, 2001:db8::/32, CJDNS without fc); CSubNet(base, netmask) with prefix masks, non-contiguous "
        "masks and masks of the other family; single-host subnets for IPv4/IPv6/Tor/I2P/CJDNS/internal; IsValid at the boundary "
        "addresses. (serial) ADDRv1/ADDRv2 serialisation of all six classes; ADDRv1 unserialisation of IPv4-mapped, TORv2, internal "
        "and plain payloads; ADDRv2 unserialisation for every network id 0..8 and 255 with lengths len-1/len/len+1/0/512/513, "
        "truncated data, 3-byte and non-canonical compact sizes, IPv6 payloads that are ADDRv1 embeddings. (strings) "
        "ToStringAddr/ToString then LookupHost/LookupSubNet for IPv4, IPv6 (zero runs for RFC 5952), Tor v3, I2P, CJDNS (fc..) and "
        "IP subnets of all prefix lengths. (banman) scripts of 1..40 BanMan operations under mock time on a temporary banlist file: "
        "Ban(subnet/address, relative/absolute/non-positive offset), Unban, IsBanned(address), IsBanned(subnet), GetBanned, "
        "ClearBanned, with the clock stepped to nBanUntil-1, nBanUntil, nBanUntil+1 of existing bans (monotone). The model is "
        "compared on every output; the predicates: Match == (valid, same class, first <prefix> bits equal); single-host == equality; "
        "serialisation == the specification value; string round trip == identity; every IsBanned answer == the reference ban list "
        "(no sweeping, banned while now < expiry). Non-trivial: every case; distinct = distinct case lines.")
ASSUMPTIONS = ["addresses are the pair (network class, bytes) with the class's byte length (the CNetAddr class invariant); scope ids ignored",
               "the ban map is an association list with unique keys; key equivalence = same network address and netmask (what "
               "operator< of CSubNet induces: the `valid` flag is not part of the key); int64 time arithmetic does not overflow",
               "the reference ban list of the predicate assumes a monotone clock (mock time never goes backwards in the cases)",
               "the string clause (print/parse round trip) and the discouragement clause are NOT modelled or proved: the string clause is "
               "checked on the implementation alone by the `strings` cases; discouragement (a probabilistic rolling bloom filter) is not checked",
               "the Gallina models are hand transcriptions of netaddress.{h,cpp} / banman.cpp, tied by the correspondence on the listed cases"]
TRUSTED = ["Coq 8.16.1 kernel (coqc; vm_compute for the 9*256*256 byte/mask table; no native_compute)",
           "extraction: ExtrOcamlBasic only; ocaml/conv.ml + netaddr_driver.ml glue",
           "tie/drivers/netaddr_drv.cpp: builds CNetAddr objects from (class, bytes) through in_addr / ADDRv2 / ADDRv1 unserialisation, "
           "reads CSubNet::network/netmask through a derived class, runs BanMan on a temporary file with SetMockTime, "
           "g_reachable_nets.Add(NET_CJDNS) so that fc00::/8 text parses as CJDNS"]


def hx(bs):
    return "".join("%02x" % b for b in bs) if bs else "-"


def flip(bs, bit):
    bs = list(bs)
    if 0 <= bit < 8 * len(bs):
        bs[bit // 8] ^= 0x80 >> (bit % 8)
    return bs


def rnd_v4(rng):
    return [rng.choice([1, 10, 127, 172, 192, 198, 203, 224, 254, rng.randrange(1, 255)])] + [rng.randrange(0, 256) for _ in range(3)]


def rnd_v6(rng):
    # never one of the ADDRv1 embeddings (::ffff:0:0/96, fd87:d87e:eb43::/48, fd6b:88c0:8724::/48): those are other classes
    first = rng.choice([0x20, 0x2a, 0x26, 0xfe, 0xff, 0xfc, 0x00, 0x64])
    b = [first] + [rng.randrange(0, 256) for _ in range(15)]
    if first == 0x00:
        b[1] = rng.randrange(1, 256)
    return b


def rnd_v6_text(rng):
    # for the string cases: not fc.. (would parse as CJDNS), with zero runs to exercise RFC 5952 compression
    b = [rng.choice([0x20, 0x2a, 0x26, 0xfe])] + [rng.randrange(0, 256) for _ in range(15)]
    for _ in range(rng.randrange(0, 4)):
        i = 2 * rng.randrange(1, 8)
        n = 2 * rng.randrange(1, 4)
        for j in range(i, min(16, i + n)):
            b[j] = 0
    if rng.random() < 0.3:
        for j in (2 * rng.randrange(1, 8),):
            b[j] = 0  # leading zero in a group
    return b


def rnd_addr(rng, c):
    if c == 1:
        return rnd_v4(rng)
    if c == 2:
        return rnd_v6(rng)
    if c in (3, 4):
        return [rng.randrange(0, 256) for _ in range(32)]
    if c == 5:
        return [rng.choice([0xfc, 0xfc, 0xfc, 0xfd, 0x00])] + [rng.randrange(0, 256) for _ in range(15)]
    return [rng.randrange(0, 256) for _ in range(10)]


# ---------------------------------------------------------------------------------------------------
def gen_subnet(rng, tier):
    cases = []
    reps = 1 if tier == "quick" else 12
    for _ in range(reps):
        for (c, nbits, mk) in ((1, 32, rnd_v4), (2, 128, rnd_v6)):
            for p in list(range(0, nbits + 2)):
                base = mk(rng)
                cands = [base, flip(base, p - 1), flip(base, p), flip(base, p + 1), flip(base, nbits - 1), mk(rng)]
                if tier == "quick" and c == 2:
                    cands = [base, flip(base, p - 1), flip(base, p), flip(base, p + 1)]
                for a in cands:
                    cases.append("mc %d %s %d %d %s" % (c, hx(base), p, c, hx(a)))
            # other class / invalid addresses / out-of-range prefixes
            base = mk(rng)
            cases.append("mc %d %s 0 %d %s" % (c, hx(base), 3 - c, hx(rnd_addr(rng, 3 - c))))
            cases.append("mc %d %s 200 %d %s" % (c, hx(base), c, hx(base)))
            cases.append("mc %d %s 255 %d %s" % (c, hx(base), c, hx(base)))
        for inval in ([0, 0, 0, 0], [255, 255, 255, 255]):
            cases.append("mc 1 %s 0 1 %s" % (hx(inval), hx(inval)))
            cases.append("iv 1 %s" % hx(inval))
        for a in ([0] * 16, [0x20, 0x01, 0x0d, 0xb8] + [1] * 12, [0x20, 0x01, 0x0d, 0xb9] + [0] * 12, [0] * 15 + [1]):
            cases.append("mc 2 %s 0 2 %s" % (hx(a), hx(a)))
            cases.append("iv 2 %s" % hx(a))
        for c in (3, 4, 5, 6):
            cases.append("mc %d %s 8 %d %s" % (c, hx(rnd_addr(rng, c)), c, hx(rnd_addr(rng, c))))
        # netmask constructor
        for (c, n, mk) in ((1, 4, rnd_v4), (2, 16, rnd_v6)):
            for _ in range(40 if tier == "quick" else 400):
                base = mk(rng)
                r = rng.random()
                if r < 0.5:
                    p = rng.randrange(0, 8 * n + 1)
                    m = [(0xff << (8 - min(8, max(0, p - 8 * i)))) & 0xff for i in range(n)]
                elif r < 0.8:
                    m = [rng.choice([0, 0x80, 0xc0, 0xe0, 0xf0, 0xf8, 0xfc, 0xfe, 0xff]) for _ in range(n)]
                else:
                    m = [rng.randrange(0, 256) for _ in range(n)]
                a = rng.choice([base, flip(base, rng.randrange(0, 8 * n)), mk(rng)])
                cases.append("mm %d %s %s %d %s" % (c, hx(base), hx(m), c, hx(a)))
        # single-host and non-IP subnets
        for c in (1, 2, 3, 4, 5, 6):
            for _ in range(6 if tier == "quick" else 60):
                s = rnd_addr(rng, c)
                a = rng.choice([s, flip(s, rng.randrange(0, 8 * len(s))), rnd_addr(rng, c)])
                cases.append("ms %d %s %d %s" % (c, hx(s), c, hx(a)))
                cases.append("iv %d %s" % (c, hx(a)))
            cases.append("ms %d %s %d %s" % (c, hx(rnd_addr(rng, c)), 1 + c % 6, hx(rnd_addr(rng, 1 + c % 6))))
    return cases


# ---------------------------------------------------------------------------------------------------
SIZES = {1: 4, 2: 16, 4: 32, 5: 32, 6: 16}


def compact(n):
    if n < 253:
        return [n]
    if n <= 0xffff:
        return [253, n & 255, n >> 8]
    return [254] + [(n >> (8 * i)) & 255 for i in range(4)]


def gen_serial(rng, tier):
    cases = []
    reps = 8 if tier == "quick" else 200
    for c in (1, 2, 3, 4, 5, 6):
        for _ in range(reps):
            a = rnd_addr(rng, c)
            cases.append("s1 %d %s" % (c, hx(a)))
            cases.append("s2 %d %s" % (c, hx(a)))
    # ADDRv1 payloads
    pre4 = [0] * 10 + [255, 255]
    tor2 = [0xfd, 0x87, 0xd8, 0x7e, 0xeb, 0x43]
    intern = [0xfd, 0x6b, 0x88, 0xc0, 0x87, 0x24]
    for _ in range(reps):
        tail = [rng.randrange(0, 256) for _ in range(rng.randrange(0, 4))]
        for p in (pre4, tor2, intern, [], pre4[:11] + [254], intern[:5] + [0x25]):
            body = p + [rng.randrange(0, 256) for _ in range(16 - len(p))]
            cases.append("u1 %s" % hx(body + tail))
            cases.append("u2 %s" % hx([2, 16] + body + tail))
    cases.append("u1 %s" % hx([1] * 15))
    cases.append("u1 -")
    # ADDRv2: every id, lengths around the rule
    for nid in list(range(0, 9)) + [255]:
        need = SIZES.get(nid)
        lens = {0, 1, 4, 10, 16, 32, 33, 512, 513}
        if need:
            lens |= {need - 1, need, need + 1}
        for ln in sorted(lens):
            for present in (ln, max(0, ln - 1), ln + 2):
                if present > 600:
                    continue
                data = [rng.randrange(0, 256) for _ in range(present)]
                if nid == 6 and rng.random() < 0.5 and data:
                    data[0] = 0xfc
                cases.append("u2 %s" % hx([nid] + compact(ln) + data))
        # non-canonical / oversized compact sizes
        cases.append("u2 %s" % hx([nid, 253, 4, 0] + [1, 2, 3, 4]))
        cases.append("u2 %s" % hx([nid, 254, 0, 0, 0, 2] + [1, 2, 3, 4]))
        cases.append("u2 %s" % hx([nid, 255] + [255] * 8))
        cases.append("u2 %s" % hx([nid]))
    cases.append("u2 -")
    return cases


# ---------------------------------------------------------------------------------------------------
def gen_strings(rng, tier):
    cases = []
    reps = 40 if tier == "quick" else 1500
    for _ in range(reps):
        cases.append("str 1 %s -1" % hx(rnd_v4(rng)))
        cases.append("str 2 %s -1" % hx(rnd_v6_text(rng)))
        cases.append("str 3 %s -1" % hx(rnd_addr(rng, 3)))
        cases.append("str 4 %s -1" % hx(rnd_addr(rng, 4)))
        cases.append("str 5 %s -1" % hx([0xfc] + [rng.randrange(0, 256) for _ in range(15)]))
    for p in range(0, 33):
        cases.append("str 1 %s %d" % (hx(rnd_v4(rng)), p))
    for p in range(0, 129):
        cases.append("str 2 %s %d" % (hx(rnd_v6_text(rng)), p))
    for a in ([0x20, 0x01] + [0] * 14, [0x2a] + [0] * 14 + [1], [0x20, 1, 0, 0, 0, 0, 0, 1, 0, 0, 0, 0, 0, 0, 0, 1],
              [0x20, 1, 0xd, 0xb8, 0, 0, 0, 0, 0, 1, 0, 0, 0, 0, 0, 1], [0xfe, 0x80] + [0] * 13 + [1]):
        cases.append("str 2 %s -1" % hx(a))
    return cases


# ---------------------------------------------------------------------------------------------------
def gen_ban_script(rng, length):
    now = 1000
    ops = []
    untils = []
    pool4 = [rnd_v4(rng) for _ in range(3)]
    pool6 = [rnd_v6(rng) for _ in range(2)]
    d = rng.choice([86400, 5, 1])
    subs = []   # (c, bytes, prefix)
    for _ in range(length):
        r = rng.random()
        if r < 0.22:
            # step the clock to a boundary of an existing ban, or a little forward
            cand = [u + k for u in untils for k in (-1, 0, 1) if u + k >= now]
            if cand and rng.random() < 0.7:
                now = rng.choice(cand)
            else:
                now += rng.choice([0, 1, 1, 2, 10])
            ops.append("t:%d" % now)
        elif r < 0.45:
            if rng.random() < 0.7:
                base = rng.choice(pool4); c = 1; p = rng.choice([-1, 0, 8, 16, 17, 24, 31, 32, rng.randrange(0, 33)])
            else:
                base = rng.choice(pool6); c = 2; p = rng.choice([-1, 0, 32, 64, 65, 127, 128])
            kind = rng.random()
            if kind < 0.5:
                off = rng.choice([1, 2, 10, 50]); ab = 0; u = now + off
            elif kind < 0.8:
                off = now + rng.choice([-1, 0, 1, 2, 30]); ab = 1; u = off
            else:
                off = rng.choice([0, -5]); ab = rng.choice([0, 1]); u = now + d
            untils.append(u)
            if p == -1 and rng.random() < 0.5:
                ops.append("ba:%d:%s:%d:%d" % (c, hx(base), off, ab))
            else:
                ops.append("b:%d:%s:%d:%d:%d" % (c, hx(base), p, off, ab))
            subs.append((c, base, p))
        elif r < 0.55 and subs:
            c, base, p = rng.choice(subs)
            ops.append("u:%d:%s:%d" % (c, hx(base), p))
        elif r < 0.85:
            if subs and rng.random() < 0.85:
                c, base, p = rng.choice(subs)
                n = 8 * len(base)
                q = p if p >= 0 else n
                a = rng.choice([base, flip(base, q - 1), flip(base, q), flip(base, n - 1)])
            else:
                c = rng.choice([1, 2]); a = rnd_addr(rng, c)
            ops.append("q:%d:%s" % (c, hx(a)))
        elif r < 0.92 and subs:
            c, base, p = rng.choice(subs)
            ops.append("qs:%d:%s:%d" % (c, hx(base), p))
        elif r < 0.98:
            ops.append("l")
        else:
            ops.append("c")
    return d, ops


def gen_ban(rng, tier):
    cases = ["ban 86400 1000 b:1:c0a88107:17:50:0 q:1:c0a8ff01 t:1049 q:1:c0a8ff01 t:1050 q:1:c0a8ff01 l t:1051 q:1:c0a8ff01 l",
             "ban 5 1000 ba:1:01020304:0:0 q:1:01020304 t:1004 q:1:01020304 t:1005 q:1:01020304 l t:1006 l",
             "ban 86400 1000 b:1:01020304:-1:2000:1 b:1:01020304:-1:10:0 l t:1999 qs:1:01020304:-1 t:2000 qs:1:01020304:-1 u:1:01020304:-1 l"]
    n = 250 if tier == "quick" else 6000
    for _ in range(n):
        d, ops = gen_ban_script(rng, rng.randrange(1, 41))
        cases.append("ban %d 1000 %s" % (d, " ".join(ops)))
    return cases


def shrink_ban(case):
    w = case.split(" ")
    head, ops = w[:3], w[3:]
    for i in range(len(ops) - 1, -1, -1):
        if len(ops) > 1:
            yield " ".join(head + ops[:i] + ops[i + 1:])


TIES = [Tie("subnet", "tie/drivers/netaddr_drv.cpp", "Extract_NetAddr.v", "netaddr_driver.ml", gen_subnet, predicate="driver"),
        Tie("serial", "tie/drivers/netaddr_drv.cpp", "Extract_NetAddr.v", "netaddr_driver.ml", gen_serial, predicate="driver"),
        Tie("strings", "tie/drivers/netaddr_drv.cpp", "Extract_NetAddr.v", "netaddr_driver.ml", gen_strings, predicate="driver"),
        Tie("banman", "tie/drivers/netaddr_drv.cpp", "Extract_NetAddr.v", "netaddr_driver.ml", gen_ban, predicate="driver",
            shrink=shrink_ban)]

LEVEL_TEXT = ("Coq theorems about models of CNetAddr/CSubNet/BanMan: CSubNet(base, n).Match(a) <=> a valid, same network class and the first "
              "n bits equal, for every address, every base and every prefix length (the per-byte mask comparison is discharged by an "
              "exhaustive 9*256*256 table checked with vm_compute); out-of-range prefixes give subnets that match nothing; single-host "
              "and Tor/I2P/CJDNS subnets are equality; the netmask constructor accepts exactly prefix masks; ADDRv1 round trip for IPv4, "
              "IPv6 and internal addresses, ADDRv2 (BIP155) round trip for all six classes, the length rule per network id, unknown ids "
              "skipped, > 512 bytes rejected, IPv6-embedded IPv4/TORv2 rejected; IsBanned(addr) <=> an entry covers it with now < "
              "nBanUntil; SweepBanned keeps exactly valid entries with now <= nBanUntil and never changes an answer at a later time; "
              "effects of Ban (expiry computation, never shortens) and Unban; and for ALL Ban/Unban/Clear/GetBanned scripts with a "
              "forward-moving clock the BanMan answers every IsBanned query like the reference ban list. Models tied to the code by differential execution.")
LEVEL_NOTE = ("Clauses of the statement that are NOT theorems: (1) printing followed by parsing is the identity for IP/Tor/I2P/CJDNS "
              "addresses and subnets -- the text formats are not modelled; the `strings` cases check it on the implementation only. "
              "(2) discouragement -- not modelled, not checked. The ban clause IS proved for all scripts (C60_banman_refines_reference_ban_list, by a coupling "
              "invariant between the sweeping BanMan map and the never-sweeping reference list) under the premises: forward-moving clock, "
              "only valid subnets banned, positive expiries. Trusted: Coq kernel; extraction and glue; hand transcription.")
TECHNIQUE = "Coq proof (bit-level reasoning via an exhaustive vm_compute byte table, list induction) + differential correspondence"
