"""Generic check runner: build -> regenerate constants -> prove -> extract -> correspond -> decide.

A property module (props/<ID>.py) provides:
  ID, LEVEL, DESIGN_REF, PROP_FILES (coq/props/*.v), TIES (list of Tie), ASSUMPTIONS, TRUSTED, RULE
A Tie describes one correspondence between an extracted model driver and a C++ driver.
"""
import importlib, json, os, random, sys, time, traceback
from . import core
from .core import InfraError


class Tie:
    def __init__(self, name, cpp_src, model_extract, model_driver, gen, mode=None,
                 predicate="functional", nontrivial=None, classify=None, shrink=None,
                 extra_ml=(), cpp_flags=(), env=None, timeout=3000, canon=None):
        self.name = name                  # name of the correspondence (reported when it breaks)
        self.cpp_src = cpp_src            # tie/drivers/<x>.cpp
        self.model_extract = model_extract  # coq/extract/<X>.v
        self.model_driver = model_driver  # ocaml/<x>_driver.ml
        self.gen = gen                    # gen(rng, tier) -> list of case lines
        self.mode = mode                  # argv[1] given to both drivers (e.g. the property id)
        self.predicate = predicate        # "functional": impl must equal the (proved unique) model value
                                          # "driver": model driver's `holds` mode judges impl output
        self.nontrivial = nontrivial or (lambda c: True)
        self.classify = classify or (lambda c: c.split(" ", 1)[0])
        self.shrink = shrink
        self.extra_ml = extra_ml
        self.cpp_flags = cpp_flags
        self.env = env
        self.timeout = timeout
        self.canon = canon or (lambda s: s)

    def family(self):
        return os.path.splitext(os.path.basename(self.model_driver))[0].replace("_driver", "")

    def build(self):
        cpp = core.build_cpp(os.path.splitext(os.path.basename(self.cpp_src))[0],
                             os.path.join(core.VERIF, self.cpp_src), self.cpp_flags)
        mdl = core.build_model(self.family(), self.model_extract, self.model_driver, self.extra_ml)
        return cpp, mdl

    def run_impl(self, cpp, cases):
        """One output line per case. If the implementation driver dies on a case (assert, abort,
        signal) that is an observation, not an infrastructure error: the case gets the output
        `CRASH rc=<code>` and the driver is restarted on the remaining cases."""
        outs = []
        rest = list(cases)
        restarts = 0
        while rest:
            rc, out, err = core.run_lines(cpp, [self.mode] if self.mode else [], rest, self.timeout, self.env)
            if len(out) >= len(rest):
                outs += out[:len(rest)]
                break
            if rc == 0:
                raise InfraError("C++ driver %s returned %d lines for %d cases (rc=0)\nstderr: %s\nlast: %s"
                                 % (self.cpp_src, len(out), len(rest), err[-2000:], out[-3:]))
            restarts += 1
            outs += out
            why = (err.strip().split("\n")[-1] if err.strip() else "")[:160]
            outs.append("CRASH rc=%s %s" % (rc, " ".join(why.split())))
            rest = rest[len(out) + 1:]
            if restarts > 40:
                outs += ["CRASH (not run: too many crashes)"] * len(rest)
                break
        return [self.canon(o) for o in outs]

    def run_model(self, mdl, cases):
        rc, out, err = core.run_lines(mdl, ["model"] + ([self.mode] if self.mode else []), cases, self.timeout)
        if len(out) != len(cases):
            raise InfraError("model driver %s returned %d lines for %d cases (rc=%s)\nstderr: %s\nlast: %s"
                             % (self.model_driver, len(out), len(cases), rc, err[-2000:], out[-3:]))
        return [self.canon(o) for o in out]

    def run_holds(self, mdl, cases, impl):
        """ok | fail <why> | na  per case, judged on what the implementation did."""
        if self.predicate == "functional":
            return None
        lines = [c + " => " + i for c, i in zip(cases, impl)]
        rc, out, err = core.run_lines(mdl, ["holds"] + ([self.mode] if self.mode else []), lines, self.timeout)
        if len(out) != len(cases):
            raise InfraError("model driver %s (holds) returned %d lines for %d cases\nstderr: %s"
                             % (self.model_driver, len(out), len(cases), err[-2000:]))
        return out


def load_corpus(pid, tie):
    d = os.path.join(core.VERIF, "corpus", pid)
    out = []
    if os.path.isdir(d):
        for f in sorted(os.listdir(d)):
            if f.endswith(".case") and (f.startswith(tie.name + ".") or f.count(".") == 1):
                for l in open(os.path.join(d, f)):
                    l = l.rstrip("\n")
                    if l and not l.startswith("#"):
                        out.append(l)
    return out


def finding_matches(fnd, pid, tie, case, impl, why=""):
    if fnd.get("status", "open") != "open" or fnd.get("property") != pid:
        return False
    if "tie" in fnd and fnd["tie"] != tie:
        return False
    key = fnd.get("case_prefix")
    if key is not None and not case.startswith(key):
        return False
    key = fnd.get("case_regex")
    if key is not None:
        import re
        if not re.search(key, case):
            return False
    key = fnd.get("why_prefix")     # the predicate's own classification of the failure
    if key is not None and not why.startswith(key):
        return False
    if not any(k in fnd for k in ("case_prefix", "case_regex", "why_prefix")):
        return False
    return True


def try_shrink(tie, cpp, mdl, case, still_bad):
    """Greedy shrinking with the tie's candidate generator while the badness persists."""
    if tie.shrink is None:
        return case
    cur = case
    for _ in range(200):
        progressed = False
        for cand in tie.shrink(cur):
            if cand == cur:
                continue
            try:
                if still_bad(cand):
                    cur = cand
                    progressed = True
                    break
            except Exception:
                continue
        if not progressed:
            break
    return cur


def run_check(P, tier, seed, replay=None, only_tie=None):
    """Holds a shared lock on the state of /repo for the whole run, so that a mutation test
    (tools/mutate, exclusive lock) never overlaps a check that expects the unchanged tree."""
    if os.environ.get("VERIF_HAVE_REPO_LOCK") == "1" or core.SANDBOX:
        return run_check_locked(P, tier, seed, replay, only_tie)
    import fcntl
    os.makedirs(core.BUILD, exist_ok=True)
    with open(os.path.join(core.BUILD, ".repo_state.lock"), "w") as lf:
        fcntl.flock(lf, fcntl.LOCK_SH)
        return run_check_locked(P, tier, seed, replay, only_tie)


def run_check_locked(P, tier, seed, replay=None, only_tie=None):
    t0 = time.time()
    pid = P.ID
    viol_lines = []
    known_lines = []
    notes = []
    coverage = {}
    obligations = 0
    discharged = 0
    evaluations = 0
    distinct = set()
    samples = []
    dist = {}
    trusted = list(getattr(P, "TRUSTED", []))
    nrep = [0]

    def violation(obj, found_input):
        nrep[0] += 1
        obj = dict(obj, property=pid, seed=seed, tier=tier)
        path = core.write_replay(pid, seed, nrep[0], obj)
        line = "VIOLATION property=%s replay=%s" % (pid, path)
        if not found_input:
            line += " no-failing-input-found"
        viol_lines.append(line)

    try:
        # 1. rebuild /repo libraries from the working tree (hooks on)
        bt = core.build_repo()
        # 2. regenerate constants
        params = core.gen_params()
        coverage["params_sha256"] = core.sha(params)[:16]
        # 3. prove
        scan_set = core.deps_closure(list(P.PROP_FILES) + ['extract/' + t.model_extract for t in P.TIES])
        bad = core.forbidden_scan(set(scan_set))
        coverage['coq_files_in_scope'] = scan_set
        targets = [f[:-2] + ".vo" for f in P.PROP_FILES]
        # everything the extraction files import must be compiled too (lib/ExtractBase.vo and any model
        # file that only the extraction mentions): it is not reachable from the properties files
        targets += [f[:-2] + ".vo" for f in scan_set
                    if not f.startswith(("extract/", "props/")) and f[:-2] + ".vo" not in targets]
        ok, log, mdt = core.coq_make(targets)
        pr = core.coq_props(pid, P.PROP_FILES) if True else None
        thms = pr["theorems"]
        all_thms = []
        for f in P.PROP_FILES:
            import re
            all_thms += re.findall(r"^\s*Theorem\s+(\w+)", core.strip_comments(open(os.path.join(core.COQ, f)).read()), re.M)
        obligations += len(all_thms)
        proofs_ok = ok and pr["ok"] and not bad
        if proofs_ok:
            discharged += len(all_thms)
        else:
            discharged += len(thms) if (ok and not bad and not pr["bad_axioms"]) else 0
        coverage["theorems"] = all_thms
        coverage["axioms_reported_by_Print_Assumptions"] = pr["axioms"]
        coverage["forbidden_keyword_hits"] = bad
        for f, ax in pr["axioms"].items():
            for a in ax:
                t = "library axiom (Print Assumptions): " + a
                if t not in trusted:
                    trusted.append(t)
        # thorough tier: independent re-check of the compiled property files with coqchk, which also
        # reports axioms, type-in-type, unsafe fixpoints and assumed positivity for everything they load
        if tier == "thorough" and proofs_ok:
            for f in P.PROP_FILES:
                mod = "BV." + f[:-2].replace("/", ".")
                rc, out, dt = core.run(["timeout", "3000", "coqchk", "-o", "-silent", "-Q", core.COQ, "BV", mod])
                rep = {}
                for key, pat in (("axioms", r"\* Axioms:(.*?)\n\s*\n"), ("type_in_type", r"relying on type-in-type:(.*?)\n\s*\n"),
                                 ("unsafe_fixpoints", r"unsafe \(co\)fixpoints:(.*?)\n\s*\n"), ("assumed_positivity", r"positivity is assumed:(.*?)\n\s*\n")):
                    import re as _re
                    m = _re.search(pat, out + "\n\n", _re.S)
                    rep[key] = " ".join(m.group(1).split()) if m else "?"
                rep["seconds"] = round(dt, 1)
                coverage.setdefault("coqchk", {})[f] = rep
                clean = rc == 0 and all(rep[k] == "<none>" for k in ("type_in_type", "unsafe_fixpoints", "assumed_positivity"))
                ax = [a for a in rep["axioms"].split() if a != "<none>"]
                if ax and any(a.split(".")[-1] not in core.ALLOWED_AXIOMS and a not in core.ALLOWED_AXIOMS for a in ax):
                    clean = False
                if not clean:
                    proofs_ok = False
                    pr["failed_files"].append(f)
                    pr["log"] += "\n[coqchk] " + out[-1500:]
        proof_failure = None
        if not proofs_ok:
            failing = pr["failed_files"] or P.PROP_FILES
            errtxt = ""
            import re
            m = re.findall(r'File "([^"]+)", line (\d+).*?\n(Error:.*?)(?=\n\S|\Z)', log + "\n" + pr["log"], re.S)
            if m:
                errtxt = "; ".join("%s:%s %s" % (os.path.basename(a), b, c.replace("\n", " ")[:300]) for a, b, c in m[:4])
            proof_failure = dict(trigger="theorem", name=",".join(failing), error=errtxt or (log[-1500:] + pr["log"][-1500:]),
                                 forbidden=bad, bad_axioms=pr["bad_axioms"])

        # 4/5. correspondences
        rng_master = random.Random(int(seed))
        failing_input_found = False
        tie_broken = []
        for tie in P.TIES:
            if only_tie and tie.name != only_tie:
                continue
            obligations += 1
            rng = random.Random(rng_master.getrandbits(64))
            cpp, mdl = tie.build()
            if replay is not None:
                cases = [replay["case"]] if replay.get("tie", tie.name) == tie.name and "case" in replay else []
            else:
                cases = load_corpus(pid, tie) + list(tie.gen(rng, tier))
            if not cases:
                discharged += 1
                continue
            impl = tie.run_impl(cpp, cases)
            model = tie.run_model(mdl, cases)
            holds = tie.run_holds(mdl, cases, impl)
            evaluations += len(cases)
            ndis = 0
            nfail = 0
            nknown = 0
            known = core.known_findings()
            # pass 1: classify every case; pass 2: report predicate failures first (they are the failing
            # inputs), then plain disagreements, so that a failing input late in the list is never hidden
            # behind earlier harmless differences
            todo_fail, todo_dis = [], []
            for i, c in enumerate(cases):
                k = tie.classify(c)
                dist[tie.name + ":" + k] = dist.get(tie.name + ":" + k, 0) + 1
                if tie.nontrivial(c):
                    distinct.add(tie.name + "|" + c)
                dis = impl[i] != model[i]
                if holds is None:
                    fail = dis
                    why = "implementation differs from the proved-unique specification value"
                else:
                    fail = holds[i].startswith("fail")
                    why = holds[i]
                if not dis and not fail:
                    continue
                if fail:
                    kf0 = [f for f in known if finding_matches(f, pid, tie.name, c, impl[i], why)]
                    if kf0:
                        nknown += 1
                        kl = "KNOWN-FINDING: property=%s %s" % (pid, kf0[0].get("what", c))
                        if kl not in known_lines:
                            known_lines.append(kl)
                        if not dis:
                            continue
                        fail = False   # the listed finding explains the failure; a remaining difference from the model is still reported
                ndis += dis
                nfail += fail
                (todo_fail if fail else todo_dis).append((i, c, fail, why))
            for (i, c, fail, why) in todo_fail[:5] + todo_dis[:3]:
                # shrink
                c2 = c
                if tie.shrink is not None:
                    def bad_case(x, _fail=fail):
                        io = tie.run_impl(cpp, [x])[0]
                        mo = tie.run_model(mdl, [x])[0]
                        if _fail:
                            if holds is None:
                                return io != mo
                            h = tie.run_holds(mdl, [x], [io])[0]
                            return h.startswith("fail") and not [f for f in known if finding_matches(f, pid, tie.name, x, io, h)]
                        return io != mo
                    c2 = try_shrink(tie, cpp, mdl, c, bad_case)
                io = tie.run_impl(cpp, [c2])[0] if c2 != c else impl[i]
                mo = tie.run_model(mdl, [c2])[0] if c2 != c else model[i]
                obj = dict(trigger="correspondence", tie=tie.name, name=tie.name, case=c2, original_case=c,
                           impl_output=io, model_output=mo,
                           predicate=("failed: " + why) if fail else "held",
                           driver_cmd="%s %s" % (cpp, tie.mode or ""), model_cmd="%s model %s" % (mdl, tie.mode or ""),
                           replay_cmd="./check %s --replay <this file>" % pid)
                if fail:
                    failing_input_found = True
                    violation(obj, True)
                else:
                    tie_broken.append(obj)
            if ndis == 0 and nfail == 0:
                discharged += 1
            # samples
            for j in sorted(set([0, len(cases) // 2, len(cases) - 1])):
                samples.append(dict(tie=tie.name, case=cases[j][:400], impl=impl[j][:400], model=model[j][:400]))
            coverage.setdefault("ties", {})[tie.name] = dict(cases=len(cases), disagreements=ndis, predicate_failures=nfail, known_finding_cases=nknown)

        # 6. decide
        if not failing_input_found:
            for obj in tie_broken[:3]:
                violation(obj, False)
            if proof_failure and not tie_broken:
                violation(proof_failure, False)
        elif proof_failure:
            notes.append("theorem(s) no longer check: " + proof_failure["name"])
        if proof_failure:
            coverage["proof_failure"] = proof_failure
    except InfraError as e:
        sys.stderr.write("INFRASTRUCTURE ERROR (no verdict): %s\n" % e)
        core.write_evidence(pid, tier, int(seed), "other",
                            dict(explanation="infrastructure error, no verdict: " + str(e)[:2000]),
                            ["no verdict"], time.time() - t0, 0)
        return 2

    coverage.update(dict(
        obligations=obligations, discharged=discharged,
        checker_cmd="make -k -j%d %s (coqc 8.16.1, full .vo) && coqc <props files> [Print Assumptions]; "
                    "then extracted model vs C++ driver on generated cases" % (core.NPROC, " ".join(f[:-2] + ".vo" for f in P.PROP_FILES)),
        trusted_base=trusted, evaluations=evaluations, distinct_nontrivial=len(distinct),
        rule=P.RULE, samples=samples[:12], input_distribution=dist,
        known_findings_reported=known_lines, notes=notes))
    level = P.LEVEL
    if level == "partial":
        # the schema has no "partial" category (DESIGN.md section 6): proved theorems with a named residue are
        # reported at level proof, the residue is spelled out in the manifest's level text/note and here
        level = "proof"
        coverage["partial"] = "some clauses of the statement are not theorems about the model; see MANIFEST level_note"
    core.write_evidence(pid, tier, int(seed), level, coverage, list(getattr(P, "ASSUMPTIONS", [])),
                        time.time() - t0, len(viol_lines))
    for l in known_lines:
        print(l)
    for l in viol_lines:
        print(l)
    if viol_lines:
        return 1
    print("OK property=%s tier=%s theorems=%d/%d cases=%d wall=%.1fs" % (pid, tier, len(coverage.get("theorems", [])), len(coverage.get("theorems", [])), evaluations, time.time() - t0))
    return 0


def main(argv):
    import argparse
    ap = argparse.ArgumentParser()
    ap.add_argument("id")
    ap.add_argument("--tier", default=os.environ.get("VERIF_TIER") or "quick")
    ap.add_argument("--replay")
    ap.add_argument("--tie")
    a = ap.parse_args(argv)
    seed = os.environ.get("VERIF_SEED") or "1"
    try:
        seed = int(seed)
    except ValueError:
        seed = int(core.sha(seed)[:8], 16)
    sys.path.insert(0, core.VERIF)
    P = importlib.import_module("props." + a.id)
    replay = json.load(open(a.replay)) if a.replay else None
    if replay:
        seed = replay.get("seed", seed)
    return run_check(P, a.tier if a.tier in ("quick", "thorough") else "quick", seed, replay, a.tie)
