"""Shared machinery for /verif checks: build of /repo (hooks on), generated constants,
Coq build, extraction, driver builds, correspondence runs, evidence and violation files.

Everything a check needs is rebuilt from /repo's current working tree on every run; ninja and
make decide what is stale.  All scratch output lives under /verif/_build (git-ignored).
"""
import fcntl, hashlib, json, os, re, subprocess, sys, time, shutil

VERIF = os.path.dirname(os.path.dirname(os.path.abspath(__file__)))
# Mutation-test sandboxes (tools/mutate, development only): a private copy of /repo (git worktree),
# its own build dir, its own copy of coq/ and its own evidence/replay dirs, so that a mutation test
# never touches /repo, the shared Coq tree or the real evidence files.  Registered checks never set it.
SANDBOX = os.environ.get("VERIF_SANDBOX")
if SANDBOX:
    REPO = os.path.join(SANDBOX, "repo")
    BUILD = os.path.join(SANDBOX, "out")
    RB = os.path.join(SANDBOX, "build")
    COQ = os.path.join(SANDBOX, "coq")
    OUT = SANDBOX
    os.environ["CCACHE_BASEDIR"] = SANDBOX
    os.environ["CCACHE_NOHASHDIR"] = "1"
else:
    REPO = "/repo"
    BUILD = os.path.join(VERIF, "_build")
    RB = os.path.join(BUILD, "repo")          # cmake build dir of /repo with -DBITCOIN_VERIF
    COQ = os.path.join(VERIF, "coq")
    OUT = VERIF
GUARD = "BITCOIN_VERIF"
NPROC = os.cpu_count() or 4

LIB_TARGETS = ["test_util", "bitcoin_node", "bitcoin_wallet", "bitcoin_common", "bitcoin_util",
               "bitcoin_crypto", "bitcoin_consensus", "bitcoin_clientversion", "bitcoin_cli",
               "minisketch", "secp256k1", "leveldb", "crc32c", "univalue"]

CXX = "g++"
CXXFLAGS = ["-std=c++20", "-O1", "-g0", "-w", "-DBOOST_MULTI_INDEX_DISABLE_SERIALIZATION",
            "-DBOOST_NO_CXX98_FUNCTION_BASE", "-D" + GUARD, "-DHAVE_CONFIG_H"]


class InfraError(Exception):
    pass


def incs():
    return ["-I" + os.path.join(RB, "src"), "-I" + os.path.join(REPO, "src"),
            "-I" + os.path.join(REPO, "src/univalue/include"),
            "-I" + os.path.join(REPO, "src/minisketch/include"),
            "-I" + os.path.join(REPO, "src/secp256k1/include"),
            "-I" + os.path.join(REPO, "src/leveldb/include"),
            "-I" + os.path.join(VERIF, "tie")]


def link_libs():
    L = os.path.join(RB, "lib")
    def f(n):
        for d in (L, os.path.join(RB, "src"), os.path.join(RB, "src/test/util"), os.path.join(RB, "src/wallet"),
                  os.path.join(RB, "src/util"), os.path.join(RB, "src/crypto"), os.path.join(RB, "src/univalue"),
                  os.path.join(RB, "src/secp256k1/lib"), os.path.join(RB, "src/secp256k1/src"),
                  os.path.join(RB, "src/minisketch"), os.path.join(RB, "src/leveldb"), os.path.join(RB, "src/crc32c")):
            p = os.path.join(d, n)
            if os.path.exists(p):
                return p
        # search
        for root, _, files in os.walk(RB):
            if n in files:
                return os.path.join(root, n)
        raise InfraError("library not found: " + n)
    order = ["libtest_util.a", "libbitcoin_node.a", "libbitcoin_consensus.a", "libminisketch.a",
             "libsecp256k1.a", "libbitcoin_wallet.a", "libleveldb.a", "libcrc32c.a", "-lsqlite3",
             "libbitcoin_common.a", "libbitcoin_consensus.a", "libsecp256k1.a", "libbitcoin_util.a",
             "libbitcoin_crypto.a", "libbitcoin_clientversion.a", "libunivalue.a", "-levent", "-levent_pthreads", "-lpthread"]
    out = ["-Wl,--start-group"]
    seen = set()
    for n in order:
        if n.startswith("-l"):
            continue
        if n not in seen:
            seen.add(n)
            out.append(f(n))
    out.append("-Wl,--end-group")
    out += [n for n in order if n.startswith("-l")]
    return out


class Lock:
    def __init__(self, name):
        os.makedirs(BUILD, exist_ok=True)
        self.path = os.path.join(BUILD, "." + name + ".lock")
    def __enter__(self):
        self.f = open(self.path, "w")
        fcntl.flock(self.f, fcntl.LOCK_EX)
        return self
    def __exit__(self, *a):
        fcntl.flock(self.f, fcntl.LOCK_UN)
        self.f.close()


def run(cmd, cwd=None, timeout=None, inp=None, env=None):
    t0 = time.time()
    p = subprocess.run(cmd, cwd=cwd, timeout=timeout, input=inp, env=env,
                       stdout=subprocess.PIPE, stderr=subprocess.STDOUT, text=True, errors="replace")
    return p.returncode, p.stdout, time.time() - t0


def sha(s):
    return hashlib.sha256(s.encode() if isinstance(s, str) else s).hexdigest()


# ------------------------------------------------------------------------------------------------
# 1. /repo build with hooks on

def configure_repo():
    if os.path.exists(os.path.join(RB, "build.ninja")):
        return
    os.makedirs(RB, exist_ok=True)
    rc, out, _ = run(["cmake", "-S", REPO, "-B", RB, "-G", "Ninja", "-DBUILD_TESTS=ON", "-DENABLE_IPC=OFF",
                      "-DBUILD_GUI=OFF", "-DBUILD_BENCH=OFF", "-DAPPEND_CPPFLAGS=-D" + GUARD])
    if rc != 0:
        raise InfraError("cmake configure failed:\n" + out[-4000:])


def build_repo(targets=None):
    """ninja is the authority on staleness; one build shared by concurrently started checks."""
    with Lock("repo"):
        configure_repo()
        rc, out, dt = run(["ninja", "-C", RB] + (targets or LIB_TARGETS))
        if rc != 0:
            raise InfraError("ninja build of /repo failed:\n" + out[-6000:])
        return dt


# ------------------------------------------------------------------------------------------------
# 2. generated constants

def build_cpp(name, src, extra_flags=(), light=False, extra_deps=()):
    """Compile+link a C++ tie program against the libraries built from the current tree.
    Rebuilt when the source, or any library it links, is newer than the binary."""
    out = os.path.join(BUILD, "drv", name)
    os.makedirs(os.path.dirname(out), exist_ok=True)
    with Lock("drv_" + name):
        libs = link_libs()
        deps = [src] + [l for l in libs if not l.startswith("-")] + [os.path.join(VERIF, "tie", "drv_common.h")] + list(extra_deps)
        if os.path.exists(out):
            mt = os.path.getmtime(out)
            if all(os.path.getmtime(d) <= mt for d in deps if os.path.exists(d)):
                # headers may have changed without any library changing: ask ninja's log via a stamp
                if os.path.getmtime(stamp_headers()) <= mt:
                    return out
        obj = out + ".o"
        rc, o, _ = run([CXX] + CXXFLAGS + list(extra_flags) + incs() + ["-c", src, "-o", obj])
        if rc != 0:
            raise InfraError("compiling %s failed:\n%s" % (src, o[-6000:]))
        rc, o, _ = run([CXX, "-o", out, obj] + libs)
        if rc != 0:
            raise InfraError("linking %s failed:\n%s" % (name, o[-6000:]))
        return out


def stamp_headers():
    """A stamp file whose mtime is the newest mtime among /repo/src headers (cheap: ~2k files)."""
    st = os.path.join(BUILD, ".headers.stamp")
    newest = 0
    for root, dirs, files in os.walk(os.path.join(REPO, "src")):
        dirs[:] = [d for d in dirs if d not in ("qt", "test", "bench", "ipc")]
        for f in files:
            if f.endswith(".h"):
                m = os.path.getmtime(os.path.join(root, f))
                if m > newest:
                    newest = m
    if not os.path.exists(st) or os.path.getmtime(st) < newest:
        open(st, "w").write(str(newest))
        os.utime(st, (newest, newest))
    return st


def gen_params():
    """Compile and run tie/dump_params.cpp against the current tree; rewrite coq/gen/Params_gen.v
    only when its text changes (so make re-proves exactly when a constant moved)."""
    with Lock("params"):
        pdir = os.path.join(VERIF, "tie", "params")
        inc = "".join('#include "%s"\n' % os.path.join(pdir, f) for f in sorted(os.listdir(pdir)) if f.endswith(".h"))
        incp = os.path.join(BUILD, "gen_inc", "params_all.h")
        os.makedirs(os.path.dirname(incp), exist_ok=True)
        if not os.path.exists(incp) or open(incp).read() != inc:
            open(incp, "w").write(inc)
        exe = build_cpp("dump_params", os.path.join(VERIF, "tie", "dump_params.cpp"),
                        extra_flags=["-I" + os.path.dirname(incp)],
                        extra_deps=[incp] + [os.path.join(pdir, f) for f in os.listdir(pdir)])
        rc, out, _ = run([exe])
        if rc != 0:
            raise InfraError("dump_params failed:\n" + out[-3000:])
        dst = os.path.join(COQ, "gen", "Params_gen.v")
        os.makedirs(os.path.dirname(dst), exist_ok=True)
        old = open(dst).read() if os.path.exists(dst) else None
        if old != out:
            open(dst, "w").write(out)
        return out


# ------------------------------------------------------------------------------------------------
# 3. Coq

FORBIDDEN = re.compile(r"\b(Admitted|admit|Axiom|Axioms|Parameter|Parameters|Conjecture|Conjectures|Unset\s+Guard|bypass_check|type-in-type|impredicative-set|Admit\s+Obligations|native_compute)\b")

# library axioms a theorem may depend on (DESIGN.md section 8); anything else fails the check
ALLOWED_AXIOMS = {
    "functional_extensionality_dep", "FunctionalExtensionality.functional_extensionality_dep",
    "proof_irrelevance", "ProofIrrelevance.proof_irrelevance",
    "Eqdep.Eq_rect_eq.eq_rect_eq", "eq_rect_eq",
    "JMeq_eq", "JMeq.JMeq_eq",
    "propositional_extensionality", "PropExtensionality.propositional_extensionality",
    "Classical_Prop.classic", "classic",
}
PRIMITIVES_OK = re.compile(r"^(Uint63|PrimInt63|PrimFloat|PArray|Int63)\.")


def strip_comments(t):
    out, depth, i = [], 0, 0
    while i < len(t):
        if t.startswith("(*", i):
            depth += 1; i += 2
        elif t.startswith("*)", i) and depth:
            depth -= 1; i += 2
        else:
            if depth == 0:
                out.append(t[i])
            i += 1
    return "".join(out)


def deps_closure(files):
    """Transitive closure of `From BV Require Import/Export a.B c.D` starting from the given coq/-relative files."""
    seen, todo = set(), list(files)
    while todo:
        f = todo.pop()
        if f in seen or not os.path.exists(os.path.join(COQ, f)):
            continue
        seen.add(f)
        txt = strip_comments(open(os.path.join(COQ, f)).read())
        for m in re.finditer(r"From\s+BV\s+Require\s+(?:Import\s+|Export\s+)?(.*?)\.(?=\s)", txt + " ", re.S):
            for mod in m.group(1).split():
                todo.append(mod.replace(".", "/") + ".v")
        for m in re.finditer(r"Require\s+(?:Import\s+|Export\s+)?(.*?)\.(?=\s)", txt + " ", re.S):
            for mod in m.group(1).split():
                if mod.startswith("BV."):
                    todo.append(mod[3:].replace(".", "/") + ".v")
    return sorted(seen)


def forbidden_scan(only=None):
    """Scans the whole development (only=None: used by ./setup and the final audit) or the dependency
    closure of a property's files (used by each check, so that another family's work in progress
    cannot fail it)."""
    bad = []
    for root, _, files in os.walk(COQ):
        for f in files:
            if f.endswith(".v"):
                p = os.path.join(root, f)
                if only is not None and os.path.relpath(p, COQ) not in only:
                    continue
                txt = strip_comments(open(p).read())
                # string literals may legitimately contain words; drop them
                txt = re.sub(r'"[^"]*"', '""', txt)
                for m in FORBIDDEN.finditer(txt):
                    bad.append("%s: %s" % (os.path.relpath(p, VERIF), m.group(0)))
                # Variable/Hypothesis outside a section
                depth = 0
                for line in txt.split("\n"):
                    s = line.strip()
                    if re.match(r"(Section|Module\s+Type)\b", s): depth += 1 if s.startswith("Section") else 0
                    if re.match(r"End\b", s) and depth: depth -= 1
                    if depth == 0 and re.match(r"(Variable|Variables|Hypothesis|Hypotheses|Context)\b", s):
                        bad.append("%s: top-level %s" % (os.path.relpath(p, VERIF), s[:40]))
    return bad


def coq_makefile():
    mk = os.path.join(COQ, "Makefile")
    proj = os.path.join(COQ, "_CoqProject")
    files = []
    for sub in ("lib", "gen", "model", "proofs", "props"):
        d = os.path.join(COQ, sub)
        if os.path.isdir(d):
            for f in sorted(os.listdir(d)):
                if f.endswith(".v"):
                    files.append(sub + "/" + f)
    txt = "-Q . BV\n-arg -w -arg -notation-overridden,-deprecated-hint-without-locality,-deprecated-instance-without-locality,-ambiguous-paths,-deprecated-syntactic-definition\n" + "\n".join(files) + "\n"
    if not os.path.exists(proj) or open(proj).read() != txt or not os.path.exists(mk):
        open(proj, "w").write(txt)
        rc, out, _ = run(["coq_makefile", "-f", "_CoqProject", "-o", "Makefile"], cwd=COQ)
        if rc != 0:
            raise InfraError("coq_makefile failed: " + out)


def coq_make(targets, timeout=3000):
    """Full .vo build (never -vos) of the given targets and what they depend on. -k so that one
    broken proof does not hide the others. Returns (ok, log)."""
    with Lock("coq"):
        coq_makefile()
        # every coqc under its own time limit, so that one runaway file cannot stall a check or the setup
        rc, out, dt = run(["timeout", str(timeout), "make", "-k", "-j%d" % NPROC, "COQC=timeout 1500 coqc"] + targets, cwd=COQ)
        return rc == 0, out, dt


def coq_props(pid, files):
    """Compile each properties file directly (output captured) and parse Print Assumptions.
    Returns dict(theorems=[...], axioms={thm: [..]}, ok=bool, log=str, bad_axioms=[...])."""
    res = dict(theorems=[], axioms={}, ok=True, log="", bad_axioms=[], failed_files=[])
    odir = os.path.join(BUILD, "coq_props", pid)
    os.makedirs(odir, exist_ok=True)
    for f in files:
        src = os.path.join(COQ, f)
        txt = strip_comments(open(src).read())
        thms = re.findall(r"^\s*Theorem\s+(\w+)", txt, re.M)
        rc, out, _ = run(["timeout", "900", "coqc", "-Q", COQ, "BV", "-w", "none",
                          "-o", os.path.join(odir, os.path.basename(f) + "o"), src])
        res["log"] += out
        if rc != 0:
            res["ok"] = False
            res["failed_files"].append(f)
            continue
        res["theorems"] += thms
        # Print Assumptions output blocks
        blocks = re.split(r"(?=^Closed under the global context|^Axioms:|^Section Variables:)", out, flags=re.M)
        k = 0
        for b in blocks:
            if b.startswith("Closed under the global context"):
                k += 1
            elif b.startswith("Axioms:"):
                k += 1
                names = re.findall(r"^([A-Za-z_][\w.']*)\s*:", b[len("Axioms:"):], re.M)
                for n in names:
                    res["axioms"].setdefault(f, [])
                    if n not in res["axioms"][f]:
                        res["axioms"][f].append(n)
                    if n not in ALLOWED_AXIOMS and n.split(".")[-1] not in ALLOWED_AXIOMS and not PRIMITIVES_OK.match(n):
                        res["bad_axioms"].append(n)
        if k < len(thms):
            res["ok"] = False
            res["log"] += "\n[check] %s: %d theorems but only %d Print Assumptions outputs\n" % (f, len(thms), k)
    if res["bad_axioms"]:
        res["ok"] = False
    return res


# ------------------------------------------------------------------------------------------------
# 4. extraction + OCaml model driver

def build_model(family, extract_v, driver_ml, extra_ml=()):
    """coqc extract/<Extract>.v in a scratch dir (Extraction writes to cwd), then ocamlfind ocamlopt."""
    d = os.path.join(BUILD, "ocaml", family)
    os.makedirs(d, exist_ok=True)
    exe = os.path.join(d, "model")
    with Lock("ocaml_" + family):
        src_v = os.path.join(COQ, "extract", extract_v)
        drv = os.path.join(VERIF, "ocaml", driver_ml)
        deps = [src_v, drv, os.path.join(VERIF, "ocaml", "conv.ml")] + [os.path.join(VERIF, "ocaml", e) for e in extra_ml]
        # all model .vo files are deps: use newest .vo under coq/
        newest = max([os.path.getmtime(x) for x in deps] +
                     [os.path.getmtime(os.path.join(r, f)) for r, _, fs in os.walk(COQ) for f in fs if f.endswith(".vo")])
        if os.path.exists(exe) and os.path.getmtime(exe) >= newest:
            return exe
        rc, out, _ = run(["timeout", "900", "coqc", "-Q", COQ, "BV", "-w", "none", "-o", os.path.join(d, os.path.basename(src_v) + "o"), src_v], cwd=d)
        if rc != 0:
            raise InfraError("extraction %s failed:\n%s" % (extract_v, out[-4000:]))
        mls = ["model.ml"]
        extra_ml = ["conv.ml"] + list(extra_ml)
        for e in list(extra_ml) + [driver_ml]:
            shutil.copy(os.path.join(VERIF, "ocaml", e), os.path.join(d, e))
        order = []
        for m in mls:
            mli = m + "i"
            if os.path.exists(os.path.join(d, mli)):
                order.append(mli)
            order.append(m)
        rc, out, _ = run(["ocamlfind", "ocamlopt", "-w", "-a", "-package", "str,zarith", "-linkpkg"] + order + list(extra_ml) + [driver_ml, "-o", "model"], cwd=d)
        if rc != 0:
            raise InfraError("ocamlopt for %s failed:\n%s" % (family, out[-4000:]))
        return exe


def run_lines(exe, args, lines, timeout=3600, env=None):
    """Feed one case per line, get one result line per case back (same order)."""
    inp = "".join(l + "\n" for l in lines)
    e = dict(os.environ)
    if env:
        e.update(env)
    p = subprocess.run([exe] + list(args), input=inp, stdout=subprocess.PIPE, stderr=subprocess.PIPE,
                       text=True, timeout=timeout, env=e, errors="replace")
    outs = p.stdout.split("\n")
    if outs and outs[-1] == "":
        outs.pop()
    return p.returncode, outs, p.stderr


# ------------------------------------------------------------------------------------------------
# 5. evidence, violations, known findings

def known_findings():
    p = os.path.join(VERIF, "known_findings.json")
    if not os.path.exists(p):
        return []
    return json.load(open(p)).get("findings", [])


def write_evidence(pid, tier, seed, level, coverage, assumptions, wall, violations):
    os.makedirs(os.path.join(OUT, "evidence"), exist_ok=True)
    ev = dict(property_id=pid, tier=tier, seed=seed, level=level, coverage=coverage,
              assumptions=assumptions, wall_s=round(wall, 2), violations=violations)
    tmp = os.path.join(OUT, "evidence", pid + ".json.tmp")
    json.dump(ev, open(tmp, "w"), indent=1, sort_keys=True)
    os.replace(tmp, os.path.join(OUT, "evidence", pid + ".json"))


def write_replay(pid, seed, n, obj):
    os.makedirs(os.path.join(OUT, "replay"), exist_ok=True)
    p = os.path.join(OUT, "replay", "%s-%s-%d.json" % (pid, seed, n))
    json.dump(obj, open(p, "w"), indent=1, sort_keys=True)
    return p


def parse_params():
    """Parse coq/gen/Params_gen.v (our own generated text) back into python for the generators."""
    txt = open(os.path.join(COQ, "gen", "Params_gen.v")).read()
    out = {"chains": []}
    for m in re.finditer(r"^Definition (\w+) : Z := \((-?\w+)\)%Z\.", txt, re.M):
        out[m.group(1)] = int(m.group(2), 0)
    for m in re.finditer(r"Definition chain_(\w+) : chain_params := \{\|(.*?)\|\}\.", txt, re.S):
        d = {"name": m.group(1)}
        for f in re.finditer(r"(\w+) := ([^;]+);", m.group(2)):
            v = f.group(2).strip()
            mm = re.match(r"\((-?\w+)\)%Z", v)
            if mm:
                d[f.group(1)] = int(mm.group(1), 0)
            elif v in ("true", "false"):
                d[f.group(1)] = (v == "true")
            else:
                d[f.group(1)] = v.strip('"')
        out["chains"].append(d)
    return out
