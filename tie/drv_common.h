// Common glue for the C++ side of the correspondence checks: the symbols the test library
// expects from its host binary, line reading and hex helpers.
#ifndef VERIF_DRV_COMMON_H
#define VERIF_DRV_COMMON_H
#include <functional>
#include <iostream>
#include <sstream>
#include <string>
#include <vector>
#include <cstdint>
#include <cstdio>

#ifndef VERIF_NO_TEST_GLOBALS
extern const std::function<void(const std::string&)> G_TEST_LOG_FUN;
extern const std::function<std::vector<const char*>()> G_TEST_COMMAND_LINE_ARGUMENTS;
extern const std::function<std::string()> G_TEST_GET_FULL_NAME;
const std::function<void(const std::string&)> G_TEST_LOG_FUN{};
const std::function<std::vector<const char*>()> G_TEST_COMMAND_LINE_ARGUMENTS{[]() { return std::vector<const char*>{}; }};
const std::function<std::string()> G_TEST_GET_FULL_NAME{[]() { return std::string{"verif"}; }};
#endif

namespace vd {
inline std::vector<std::string> words(const std::string& s)
{
    std::vector<std::string> out;
    std::istringstream is(s);
    std::string w;
    while (is >> w) out.push_back(w);
    return out;
}
inline std::vector<unsigned char> unhex(const std::string& h)
{
    std::vector<unsigned char> out;
    if (h == "-") return out;
    for (size_t i = 0; i + 1 < h.size(); i += 2) out.push_back((unsigned char)std::stoul(h.substr(i, 2), nullptr, 16));
    return out;
}
template <typename It>
inline std::string hex(It b, It e)
{
    static const char* d = "0123456789abcdef";
    std::string s;
    for (; b != e; ++b) { unsigned char c = (unsigned char)*b; s.push_back(d[c >> 4]); s.push_back(d[c & 15]); }
    if (s.empty()) s = "-";
    return s;
}
template <typename C>
inline std::string hex(const C& c) { return hex(c.begin(), c.end()); }
inline long long ll(const std::string& s) { return std::stoll(s, nullptr, 0); }
inline unsigned long long ull(const std::string& s) { return std::stoull(s, nullptr, 0); }

// Reads cases from stdin, calls f(words, whole line) -> result line. Exceptions become "EXC <what>".
template <typename F>
inline int main_loop(F f)
{
    std::ios::sync_with_stdio(false);
    std::string line;
    while (std::getline(std::cin, line)) {
        std::string out;
        try {
            out = f(words(line), line);
        } catch (const std::exception& e) {
            out = std::string("EXC ") + e.what();
        }
        std::cout << out << "\n";
    }
    std::cout.flush();
    return 0;
}
} // namespace vd
#endif
