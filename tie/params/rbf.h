// Constants the Rbf family (C26) theorems mention, printed from the compiled tree.
#include <policy/policy.h>
#include <policy/rbf.h>
#include <policy/truc_policy.h>
VERIF_PARAMS(rbf)
{
    defzu("RBF_INCREMENTAL_RELAY_FEE", (unsigned long long)DEFAULT_INCREMENTAL_RELAY_FEE);
    defzu("RBF_MAX_REPLACEMENT_CANDIDATES", (unsigned long long)MAX_REPLACEMENT_CANDIDATES);
    defz("RBF_TRUC_VERSION", (long long)TRUC_VERSION);
}
