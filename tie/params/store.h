// constants used by the Store family (C19 pruning)
#include <node/blockstorage.h>
#include <validation.h>
VERIF_PARAMS(store)
{
    DZU(MIN_BLOCKS_TO_KEEP);
    DZU(MIN_DISK_SPACE_FOR_BLOCK_FILES);
    defzu("BLOCKFILE_CHUNK_SIZE", node::BLOCKFILE_CHUNK_SIZE);
    defzu("UNDOFILE_CHUNK_SIZE", node::UNDOFILE_CHUNK_SIZE);
    // PRUNE_LOCK_BUFFER is a static constexpr inside validation.cpp; it is not visible to other
    // translation units, so it is tied behaviourally by the correspondence (lock boundary cases).
}
#include <kernel/chainparams.h>
VERIF_PARAMS(store2)
{
    defzu("REGTEST_PRUNE_AFTER_HEIGHT", CChainParams::RegTest()->PruneAfterHeight());
}
