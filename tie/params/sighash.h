// Constants the C10 / C13 theorems (family sighash) mention, printed from the compiled tree.
#include <pubkey.h>
#include <script/interpreter.h>
#include <script/script.h>
VERIF_PARAMS(sighash)
{
    DZ(SIGHASH_ALL); DZ(SIGHASH_NONE); DZ(SIGHASH_SINGLE); DZ(SIGHASH_ANYONECANPAY);
    DZ(SIGHASH_DEFAULT); DZ(SIGHASH_OUTPUT_MASK); DZ(SIGHASH_INPUT_MASK);
    const int SH_OP_PUSHDATA1 = OP_PUSHDATA1, SH_OP_PUSHDATA2 = OP_PUSHDATA2, SH_OP_PUSHDATA4 = OP_PUSHDATA4,
              SH_OP_CODESEPARATOR = OP_CODESEPARATOR;
    DZ(SH_OP_PUSHDATA1); DZ(SH_OP_PUSHDATA2); DZ(SH_OP_PUSHDATA4); DZ(SH_OP_CODESEPARATOR);
    const unsigned SH_PUBKEY_SIZE = CPubKey::SIZE, SH_PUBKEY_COMPRESSED_SIZE = CPubKey::COMPRESSED_SIZE;
    DZU(SH_PUBKEY_SIZE); DZU(SH_PUBKEY_COMPRESSED_SIZE);
    const unsigned SH_TAPROOT_LEAF_MASK = TAPROOT_LEAF_MASK, SH_TAPROOT_LEAF_TAPSCRIPT = TAPROOT_LEAF_TAPSCRIPT;
    DZU(SH_TAPROOT_LEAF_MASK); DZU(SH_TAPROOT_LEAF_TAPSCRIPT);
    // script verification flag masks used by CheckSignatureEncoding / CheckPubKeyEncoding
    defzu("SH_FLAG_DERSIG", script_verify_flags{SCRIPT_VERIFY_DERSIG}.as_int());
    defzu("SH_FLAG_LOW_S", script_verify_flags{SCRIPT_VERIFY_LOW_S}.as_int());
    defzu("SH_FLAG_STRICTENC", script_verify_flags{SCRIPT_VERIFY_STRICTENC}.as_int());
    defzu("SH_FLAG_WITNESS_PUBKEYTYPE", script_verify_flags{SCRIPT_VERIFY_WITNESS_PUBKEYTYPE}.as_int());
}
