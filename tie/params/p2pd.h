// Constants the p2pd models mention (C37 addrman, C39 tx relay / private broadcast, C36 punishment table),
// printed from the compiled tree.
#include <addrman.h>
#include <addrman_impl.h>
#include <private_broadcast.h>
#include <consensus/validation.h>
#include <chrono>
VERIF_PARAMS(p2pd) {
    defz("ADDRMAN_NEW_BUCKET_COUNT_P", (long long)ADDRMAN_NEW_BUCKET_COUNT);
    defz("ADDRMAN_TRIED_BUCKET_COUNT_P", (long long)ADDRMAN_TRIED_BUCKET_COUNT);
    defz("ADDRMAN_BUCKET_SIZE_P", (long long)ADDRMAN_BUCKET_SIZE);
    defz("ADDRMAN_NEW_BUCKETS_PER_ADDRESS_P", (long long)ADDRMAN_NEW_BUCKETS_PER_ADDRESS);
    defz("ADDRMAN_SET_TRIED_COLLISION_SIZE_P", (long long)ADDRMAN_SET_TRIED_COLLISION_SIZE);
    defz("ADDRMAN_HORIZON_S", (long long)std::chrono::duration_cast<std::chrono::seconds>(ADDRMAN_HORIZON).count());
    defz("ADDRMAN_RETRIES_P", (long long)ADDRMAN_RETRIES);
    defz("ADDRMAN_MAX_FAILURES_P", (long long)ADDRMAN_MAX_FAILURES);
    defz("ADDRMAN_MIN_FAIL_S", (long long)std::chrono::duration_cast<std::chrono::seconds>(ADDRMAN_MIN_FAIL).count());
    defz("ADDRMAN_REPLACEMENT_S", (long long)std::chrono::duration_cast<std::chrono::seconds>(ADDRMAN_REPLACEMENT).count());
    defz("ADDRMAN_TEST_WINDOW_S", (long long)std::chrono::duration_cast<std::chrono::seconds>(ADDRMAN_TEST_WINDOW).count());
    defz("PRIVBCAST_MAX_TRANSACTIONS", (long long)PrivateBroadcast::MAX_TRANSACTIONS);
    defz("PRIVBCAST_MAX_SEND_ATTEMPTS", (long long)PrivateBroadcast::MAX_SEND_ATTEMPTS);
    defz("BVR_UNSET", (long long)BlockValidationResult::BLOCK_RESULT_UNSET);
    defz("BVR_CONSENSUS", (long long)BlockValidationResult::BLOCK_CONSENSUS);
    defz("BVR_CACHED_INVALID", (long long)BlockValidationResult::BLOCK_CACHED_INVALID);
    defz("BVR_INVALID_HEADER", (long long)BlockValidationResult::BLOCK_INVALID_HEADER);
    defz("BVR_MUTATED", (long long)BlockValidationResult::BLOCK_MUTATED);
    defz("BVR_MISSING_PREV", (long long)BlockValidationResult::BLOCK_MISSING_PREV);
    defz("BVR_INVALID_PREV", (long long)BlockValidationResult::BLOCK_INVALID_PREV);
    defz("BVR_TIME_FUTURE", (long long)BlockValidationResult::BLOCK_TIME_FUTURE);
    defz("BVR_HEADER_LOW_WORK", (long long)BlockValidationResult::BLOCK_HEADER_LOW_WORK);
    defz("TVR_UNSET", (long long)TxValidationResult::TX_RESULT_UNSET);
    defz("TVR_UNKNOWN_LAST", (long long)TxValidationResult::TX_UNKNOWN);
}
