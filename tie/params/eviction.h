// Enum values the eviction model (C59, family eviction) mentions, printed from the compiled tree.
#include <node/connection_types.h>
#include <node/eviction.h>
#include <netaddress.h>
VERIF_PARAMS(eviction) {
    defz("EVICT_CONN_INBOUND", (long long)ConnectionType::INBOUND);
    defz("EVICT_NET_ONION", (long long)NET_ONION);
    defz("EVICT_NET_I2P", (long long)NET_I2P);
    defz("EVICT_NET_CJDNS", (long long)NET_CJDNS);
    defz("EVICT_NET_MAX", (long long)NET_MAX);
}
