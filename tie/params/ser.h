// Constants the `ser` family theorems (C18, C48, C17) mention, printed from the compiled tree.
#include <compressor.h>
#include <serialize.h>
#include <script/script.h>
#include <crypto/hex_base.h>
VERIF_PARAMS(ser)
{
    DZU(MAX_SIZE);
    const unsigned int N_SPECIAL_SCRIPTS = ScriptCompression::nSpecialScripts;
    DZU(N_SPECIAL_SCRIPTS);
    // opcodes the special script templates are made of (prefixed: other families may print their own)
    const int SER_OP_DUP = OP_DUP, SER_OP_HASH160 = OP_HASH160, SER_OP_EQUALVERIFY = OP_EQUALVERIFY,
              SER_OP_CHECKSIG = OP_CHECKSIG, SER_OP_EQUAL = OP_EQUAL, SER_OP_RETURN = OP_RETURN;
    DZ(SER_OP_DUP); DZ(SER_OP_HASH160); DZ(SER_OP_EQUALVERIFY); DZ(SER_OP_CHECKSIG); DZ(SER_OP_EQUAL); DZ(SER_OP_RETURN);
    // GetSpecialScriptSize(0..5), as a list
    std::cout << "Definition SPECIAL_SCRIPT_SIZES : list Z := [";
    for (unsigned int i = 0; i < N_SPECIAL_SCRIPTS; ++i) std::cout << (i ? "; " : "") << "(" << GetSpecialScriptSize(i) << ")%Z";
    std::cout << "].\n";
    // HexDigit(c) for c = 0..255 (the p_util_hexdigit table)
    std::cout << "Definition HEXDIGIT_TABLE : list Z := [";
    for (int c = 0; c < 256; ++c) std::cout << (c ? "; " : "") << "(" << (int)HexDigit((char)c) << ")%Z";
    std::cout << "].\n";
}
