// Constants the C05 (family locks) theorems mention, printed from the compiled tree.
#include <chain.h>
#include <consensus/consensus.h>
#include <primitives/transaction.h>
VERIF_PARAMS(locks)
{
    defzu("LOCKS_SEQUENCE_FINAL", CTxIn::SEQUENCE_FINAL);
    defzu("LOCKS_SEQUENCE_LOCKTIME_DISABLE_FLAG", CTxIn::SEQUENCE_LOCKTIME_DISABLE_FLAG);
    defzu("LOCKS_SEQUENCE_LOCKTIME_TYPE_FLAG", CTxIn::SEQUENCE_LOCKTIME_TYPE_FLAG);
    defzu("LOCKS_SEQUENCE_LOCKTIME_MASK", CTxIn::SEQUENCE_LOCKTIME_MASK);
    defz("LOCKS_SEQUENCE_LOCKTIME_GRANULARITY", CTxIn::SEQUENCE_LOCKTIME_GRANULARITY);
    defzu("LOCKS_LOCKTIME_VERIFY_SEQUENCE", LOCKTIME_VERIFY_SEQUENCE);
    defz("LOCKS_MEDIAN_TIME_SPAN", CBlockIndex::nMedianTimeSpan);
}
