// Limits of the HTTP request parser the C52 theorems mention (family http), printed from the compiled tree.
#include <httpserver.h>
VERIF_PARAMS(http) {
    defzu("HTTP_MAX_HEADERS_SIZE", (unsigned long long)http_bitcoin::MAX_HEADERS_SIZE);
    defzu("HTTP_MAX_BODY_SIZE", (unsigned long long)http_bitcoin::MAX_BODY_SIZE);
    defzu("HTTP_MIN_REQUEST_LINE_LENGTH", (unsigned long long)http_bitcoin::MIN_REQUEST_LINE_LENGTH);
}
