// Constants the mempool family (C22 mempool invariant, C23 block templates, C28 test-accept) theorems mention,
// printed from the compiled tree.
#include <consensus/consensus.h>
#include <kernel/mempool_options.h>
#include <policy/policy.h>
#include <txmempool.h>
VERIF_PARAMS(mempool)
{
    defzu("MP_MEMPOOL_HEIGHT", (unsigned long long)MEMPOOL_HEIGHT);
    defzu("MP_DEFAULT_MEMPOOL_EXPIRY_HOURS", (unsigned long long)DEFAULT_MEMPOOL_EXPIRY_HOURS);
    defzu("MP_STANDARD_LOCKTIME_VERIFY_FLAGS", (unsigned long long)STANDARD_LOCKTIME_VERIFY_FLAGS);
    defzu("MINER_DEFAULT_BLOCK_MAX_WEIGHT", (unsigned long long)DEFAULT_BLOCK_MAX_WEIGHT);
    defzu("MINER_DEFAULT_BLOCK_RESERVED_WEIGHT", (unsigned long long)DEFAULT_BLOCK_RESERVED_WEIGHT);
    defzu("MINER_MINIMUM_BLOCK_RESERVED_WEIGHT", (unsigned long long)MINIMUM_BLOCK_RESERVED_WEIGHT);
    defzu("MINER_DEFAULT_COINBASE_OUTPUT_MAX_ADDITIONAL_SIGOPS", (unsigned long long)DEFAULT_COINBASE_OUTPUT_MAX_ADDITIONAL_SIGOPS);
    defzu("MINER_DEFAULT_BLOCK_MIN_TX_FEE", (unsigned long long)DEFAULT_BLOCK_MIN_TX_FEE);
    defzu("MINER_MAX_STANDARD_TX_SIGOPS_COST", (unsigned long long)MAX_STANDARD_TX_SIGOPS_COST);
}
