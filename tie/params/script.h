// Constants the C12 / C11 theorems mention (family script), printed from the compiled tree:
// flag bit positions, the policy flag sets, opcode values, interpreter limits, and every value
// GetBlockScriptFlags can return on every built-in chain (all deployment-height boundaries x
// every script_flag_exceptions entry and one ordinary block hash).
#include <chain.h>
#include <consensus/params.h>
#include <kernel/chainparams.h>
#include <policy/policy.h>
#include <primitives/transaction.h>
#include <script/interpreter.h>
#include <script/script.h>
#include <test/util/setup_common.h>
#include <util/chaintype.h>
#include <validation.h>
#include <limits>
#include <set>
#include <vector>

namespace verif_script_params {
inline std::set<unsigned long long>& all_block_flags() { static std::set<unsigned long long> s; return s; }
inline void block_flags_of_chain(const char* name, ChainType ct)
{
    ChainTestingSetup setup{ct};
    const ChainstateManager& cm = *setup.m_node.chainman;
    const Consensus::Params& c = cm.GetConsensus();
    std::set<long long> hs{0, 1, std::numeric_limits<int>::max()};
    for (auto d : {Consensus::DEPLOYMENT_HEIGHTINCB, Consensus::DEPLOYMENT_CLTV, Consensus::DEPLOYMENT_DERSIG, Consensus::DEPLOYMENT_CSV, Consensus::DEPLOYMENT_SEGWIT}) {
        long long h = c.DeploymentHeight(d);
        for (long long k : {h - 1, h, h + 1}) if (k >= 0 && k <= std::numeric_limits<int>::max()) hs.insert(k);
    }
    std::vector<uint256> hashes;
    hashes.push_back(uint256::ONE);
    for (const auto& [h, f] : c.script_flag_exceptions) hashes.push_back(h);
    std::set<unsigned long long> mine;
    unsigned long long tip = 0;
    for (const uint256& hash : hashes) {
        for (long long h : hs) {
            CBlockIndex idx;
            idx.nHeight = (int)h;
            idx.phashBlock = &hash;
            unsigned long long f = GetBlockScriptFlags(idx, cm).as_int();
            mine.insert(f);
            all_block_flags().insert(f);
            if (hash == uint256::ONE && h == std::numeric_limits<int>::max()) tip = f;
        }
    }
    std::cout << "Definition SCR_BLOCK_FLAGS_" << name << " : list Z := [";
    bool first = true;
    for (auto f : mine) { std::cout << (first ? "" : "; ") << "(" << f << ")%Z"; first = false; }
    std::cout << "].\n";
    std::cout << "Definition SCR_TIP_BLOCK_FLAGS_" << name << " : Z := (" << tip << ")%Z.\n";
}
} // namespace verif_script_params

VERIF_PARAMS(script)
{
#define SCR_FLAG(x) defz("SCR_FLAG_" #x, (long long)static_cast<uint8_t>(SCRIPT_VERIFY_##x))
    SCR_FLAG(P2SH); SCR_FLAG(STRICTENC); SCR_FLAG(DERSIG); SCR_FLAG(LOW_S); SCR_FLAG(NULLDUMMY);
    SCR_FLAG(SIGPUSHONLY); SCR_FLAG(MINIMALDATA); SCR_FLAG(DISCOURAGE_UPGRADABLE_NOPS); SCR_FLAG(CLEANSTACK);
    SCR_FLAG(CHECKLOCKTIMEVERIFY); SCR_FLAG(CHECKSEQUENCEVERIFY); SCR_FLAG(WITNESS);
    SCR_FLAG(DISCOURAGE_UPGRADABLE_WITNESS_PROGRAM); SCR_FLAG(MINIMALIF); SCR_FLAG(NULLFAIL);
    SCR_FLAG(WITNESS_PUBKEYTYPE); SCR_FLAG(CONST_SCRIPTCODE); SCR_FLAG(TAPROOT);
    SCR_FLAG(DISCOURAGE_UPGRADABLE_TAPROOT_VERSION); SCR_FLAG(DISCOURAGE_OP_SUCCESS);
    SCR_FLAG(DISCOURAGE_UPGRADABLE_PUBKEYTYPE); SCR_FLAG(END_MARKER);
#undef SCR_FLAG
    defzu("SCR_MAX_SCRIPT_VERIFY_FLAGS", MAX_SCRIPT_VERIFY_FLAGS);
    defzu("SCR_STANDARD_SCRIPT_VERIFY_FLAGS", STANDARD_SCRIPT_VERIFY_FLAGS.as_int());
    defzu("SCR_MANDATORY_SCRIPT_VERIFY_FLAGS", MANDATORY_SCRIPT_VERIFY_FLAGS.as_int());
    defzu("SCR_STANDARD_NOT_MANDATORY_VERIFY_FLAGS", STANDARD_NOT_MANDATORY_VERIFY_FLAGS.as_int());
    // interpreter constants not already printed by dump_params.cpp
    defz("SCR_VALIDATION_WEIGHT_PER_SIGOP_PASSED", VALIDATION_WEIGHT_PER_SIGOP_PASSED);
    defz("SCR_VALIDATION_WEIGHT_OFFSET", VALIDATION_WEIGHT_OFFSET);
    defzu("SCR_SEQUENCE_LOCKTIME_DISABLE_FLAG", CTxIn::SEQUENCE_LOCKTIME_DISABLE_FLAG);
    defzu("SCR_DEFAULT_MAX_NUM_SIZE", CScriptNum::nDefaultMaxNumSize);
    defzu("SCR_WITNESS_V0_SCRIPTHASH_SIZE", WITNESS_V0_SCRIPTHASH_SIZE);
    defzu("SCR_WITNESS_V0_KEYHASH_SIZE", WITNESS_V0_KEYHASH_SIZE);
    defzu("SCR_WITNESS_V1_TAPROOT_SIZE", WITNESS_V1_TAPROOT_SIZE);
    defzu("SCR_ANNEX_TAG", ANNEX_TAG);
    defzu("SCR_MAX_OPCODE", MAX_OPCODE);
    // opcode values (the model's decoder is proved to agree with these)
#define SCR_OP(x) defz("SCR_" #x, (long long)(x))
    SCR_OP(OP_0); SCR_OP(OP_PUSHDATA1); SCR_OP(OP_PUSHDATA2); SCR_OP(OP_PUSHDATA4); SCR_OP(OP_1NEGATE); SCR_OP(OP_RESERVED);
    SCR_OP(OP_1); SCR_OP(OP_16); SCR_OP(OP_NOP); SCR_OP(OP_VER); SCR_OP(OP_IF); SCR_OP(OP_NOTIF); SCR_OP(OP_VERIF);
    SCR_OP(OP_VERNOTIF); SCR_OP(OP_ELSE); SCR_OP(OP_ENDIF); SCR_OP(OP_VERIFY); SCR_OP(OP_RETURN); SCR_OP(OP_TOALTSTACK);
    SCR_OP(OP_FROMALTSTACK); SCR_OP(OP_2DROP); SCR_OP(OP_2DUP); SCR_OP(OP_3DUP); SCR_OP(OP_2OVER); SCR_OP(OP_2ROT);
    SCR_OP(OP_2SWAP); SCR_OP(OP_IFDUP); SCR_OP(OP_DEPTH); SCR_OP(OP_DROP); SCR_OP(OP_DUP); SCR_OP(OP_NIP); SCR_OP(OP_OVER);
    SCR_OP(OP_PICK); SCR_OP(OP_ROLL); SCR_OP(OP_ROT); SCR_OP(OP_SWAP); SCR_OP(OP_TUCK); SCR_OP(OP_CAT); SCR_OP(OP_SUBSTR);
    SCR_OP(OP_LEFT); SCR_OP(OP_RIGHT); SCR_OP(OP_SIZE); SCR_OP(OP_INVERT); SCR_OP(OP_AND); SCR_OP(OP_OR); SCR_OP(OP_XOR);
    SCR_OP(OP_EQUAL); SCR_OP(OP_EQUALVERIFY); SCR_OP(OP_RESERVED1); SCR_OP(OP_RESERVED2); SCR_OP(OP_1ADD); SCR_OP(OP_1SUB);
    SCR_OP(OP_2MUL); SCR_OP(OP_2DIV); SCR_OP(OP_NEGATE); SCR_OP(OP_ABS); SCR_OP(OP_NOT); SCR_OP(OP_0NOTEQUAL); SCR_OP(OP_ADD);
    SCR_OP(OP_SUB); SCR_OP(OP_MUL); SCR_OP(OP_DIV); SCR_OP(OP_MOD); SCR_OP(OP_LSHIFT); SCR_OP(OP_RSHIFT); SCR_OP(OP_BOOLAND);
    SCR_OP(OP_BOOLOR); SCR_OP(OP_NUMEQUAL); SCR_OP(OP_NUMEQUALVERIFY); SCR_OP(OP_NUMNOTEQUAL); SCR_OP(OP_LESSTHAN);
    SCR_OP(OP_GREATERTHAN); SCR_OP(OP_LESSTHANOREQUAL); SCR_OP(OP_GREATERTHANOREQUAL); SCR_OP(OP_MIN); SCR_OP(OP_MAX);
    SCR_OP(OP_WITHIN); SCR_OP(OP_RIPEMD160); SCR_OP(OP_SHA1); SCR_OP(OP_SHA256); SCR_OP(OP_HASH160); SCR_OP(OP_HASH256);
    SCR_OP(OP_CODESEPARATOR); SCR_OP(OP_CHECKSIG); SCR_OP(OP_CHECKSIGVERIFY); SCR_OP(OP_CHECKMULTISIG);
    SCR_OP(OP_CHECKMULTISIGVERIFY); SCR_OP(OP_NOP1); SCR_OP(OP_CHECKLOCKTIMEVERIFY); SCR_OP(OP_CHECKSEQUENCEVERIFY);
    SCR_OP(OP_NOP4); SCR_OP(OP_NOP5); SCR_OP(OP_NOP6); SCR_OP(OP_NOP7); SCR_OP(OP_NOP8); SCR_OP(OP_NOP9); SCR_OP(OP_NOP10);
    SCR_OP(OP_CHECKSIGADD); SCR_OP(OP_INVALIDOPCODE);
#undef SCR_OP
    verif_script_params::block_flags_of_chain("main", ChainType::MAIN);
    verif_script_params::block_flags_of_chain("test", ChainType::TESTNET);
    verif_script_params::block_flags_of_chain("testnet4", ChainType::TESTNET4);
    verif_script_params::block_flags_of_chain("signet", ChainType::SIGNET);
    verif_script_params::block_flags_of_chain("regtest", ChainType::REGTEST);
    std::cout << "Definition SCR_BLOCK_FLAGS_ALL : list Z := [";
    bool first = true;
    for (auto f : verif_script_params::all_block_flags()) { std::cout << (first ? "" : "; ") << "(" << f << ")%Z"; first = false; }
    std::cout << "].\n";
}
