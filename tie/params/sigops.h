// Opcode values and sizes the C06 (family sigops / blockcheck) theorems mention, printed from the compiled tree.
#include <script/interpreter.h>
#include <script/script.h>
VERIF_PARAMS(sigops)
{
    defz("SIGOPS_OP_0", OP_0);
    defz("SIGOPS_OP_PUSHDATA1", OP_PUSHDATA1);
    defz("SIGOPS_OP_PUSHDATA2", OP_PUSHDATA2);
    defz("SIGOPS_OP_PUSHDATA4", OP_PUSHDATA4);
    defz("SIGOPS_OP_1NEGATE", OP_1NEGATE);
    defz("SIGOPS_OP_1", OP_1);
    defz("SIGOPS_OP_16", OP_16);
    defz("SIGOPS_OP_EQUAL", OP_EQUAL);
    defz("SIGOPS_OP_HASH160", OP_HASH160);
    defz("SIGOPS_OP_CHECKSIG", OP_CHECKSIG);
    defz("SIGOPS_OP_CHECKSIGVERIFY", OP_CHECKSIGVERIFY);
    defz("SIGOPS_OP_CHECKMULTISIG", OP_CHECKMULTISIG);
    defz("SIGOPS_OP_CHECKMULTISIGVERIFY", OP_CHECKMULTISIGVERIFY);
    defz("SIGOPS_OP_INVALIDOPCODE", OP_INVALIDOPCODE);
    defzu("SIGOPS_WITNESS_V0_KEYHASH_SIZE", WITNESS_V0_KEYHASH_SIZE);
    defzu("SIGOPS_WITNESS_V0_SCRIPTHASH_SIZE", WITNESS_V0_SCRIPTHASH_SIZE);
}
