// Constants the C45 / C50 theorems mention (family keys), printed from the compiled tree.
//  - per chain: base58 prefixes and the bech32 HRP, as lists of byte / character codes
//  - bech32 limits
//  - secp256k1: group order n, field prime p, the largest s that secp256k1_ecdsa_signature_normalize
//    leaves alone (the "half order" as secp256k1_scalar_is_high has it), generator coordinates.
//    The library keeps these as file-local limb constants, so they are recovered from the behaviour
//    of the public API of the *compiled* library:  n-1 = seckey_negate(1);  p = y(G) + y(-G);
//    n/2 by bisection on signature_normalize's return value.
#include <bech32.h>
#include <key_io.h>
#include <pubkey.h>
#include <secp256k1.h>
#include <arith_uint256.h>
#include <uint256.h>
#include <cstring>

namespace verif_keys {
static std::string zlist(const std::vector<unsigned char>& v)
{
    std::string s = "(";
    for (unsigned char c : v) s += "(" + std::to_string((int)c) + ")%Z :: ";
    return s + "nil)";
}
static arith_uint256 be32(const unsigned char* b)
{
    arith_uint256 r = 0;
    for (int i = 0; i < 32; ++i) { r <<= 8; r += arith_uint256((uint64_t)b[i]); }
    return r;
}
static void to_be32(arith_uint256 v, unsigned char* out)
{
    for (int i = 31; i >= 0; --i) { out[i] = (unsigned char)(v.GetLow64() & 0xff); v >>= 8; }
}
static void defz256(const char* n, const arith_uint256& v) { std::cout << "Definition " << n << " : Z := (0x" << v.GetHex() << ")%Z.\n"; }
static void chain_row(const CChainParams& p)
{
    const std::string& h = p.Bech32HRP();
    std::cout << "  (" << zlist(p.Base58Prefix(CChainParams::PUBKEY_ADDRESS)) << ", " << zlist(p.Base58Prefix(CChainParams::SCRIPT_ADDRESS))
              << ", " << zlist(p.Base58Prefix(CChainParams::SECRET_KEY)) << ", " << zlist(p.Base58Prefix(CChainParams::EXT_PUBLIC_KEY))
              << ", " << zlist(p.Base58Prefix(CChainParams::EXT_SECRET_KEY)) << ", " << zlist(std::vector<unsigned char>(h.begin(), h.end())) << ")";
}
} // namespace verif_keys

VERIF_PARAMS(keys) {
    using namespace verif_keys;
    defzu("BECH32_CHAR_LIMIT", (unsigned long long)bech32::CharLimit::BECH32);
    defzu("BECH32_CHECKSUM_SIZE", (unsigned long long)bech32::CHECKSUM_SIZE);
    defz("BECH32_SEPARATOR", (long long)bech32::SEPARATOR);
    defzu("BIP32_EXTKEY_SIZE", (unsigned long long)BIP32_EXTKEY_SIZE);
    // (pubkey prefix, script prefix, secret prefix, xpub prefix, xprv prefix, hrp) in the order of all_chains
    std::cout << "Definition KEYIO_CHAINS : list (list Z * list Z * list Z * list Z * list Z * list Z) := (\n";
    chain_row(*CChainParams::Main()); std::cout << " ::\n";
    chain_row(*CChainParams::TestNet()); std::cout << " ::\n";
    chain_row(*CChainParams::TestNet4()); std::cout << " ::\n";
    chain_row(*CChainParams::SigNet()); std::cout << " ::\n";
    chain_row(*CChainParams::RegTest()); std::cout << " :: nil).\n";

    const secp256k1_context* ctx = secp256k1_context_static;
    // n - 1 = -1 mod n
    unsigned char one[32] = {0}; one[31] = 1;
    unsigned char k[32]; memcpy(k, one, 32);
    secp256k1_ec_seckey_negate(ctx, k);
    arith_uint256 n = be32(k) + arith_uint256(1);
    defz256("SECP256K1_N", n);
    // G and -G
    secp256k1_context* sctx = secp256k1_context_create(SECP256K1_CONTEXT_NONE);
    secp256k1_pubkey G;
    secp256k1_ec_pubkey_create(sctx, &G, one);
    unsigned char ser[65]; size_t len = 65;
    secp256k1_ec_pubkey_serialize(ctx, ser, &len, &G, SECP256K1_EC_UNCOMPRESSED);
    arith_uint256 gx = be32(ser + 1), gy = be32(ser + 33);
    secp256k1_pubkey NG = G;
    secp256k1_ec_pubkey_negate(ctx, &NG);
    len = 65;
    secp256k1_ec_pubkey_serialize(ctx, ser, &len, &NG, SECP256K1_EC_UNCOMPRESSED);
    arith_uint256 ngy = be32(ser + 33);
    defz256("SECP256K1_P", gy + ngy);
    defz256("SECP256K1_GX", gx);
    defz256("SECP256K1_GY", gy);
    // largest s in [1, n-1] for which normalize reports "was not high"
    auto is_high = [&](const arith_uint256& s) {
        unsigned char c64[64] = {0}; c64[31] = 1; to_be32(s, c64 + 32);
        secp256k1_ecdsa_signature sig;
        if (!secp256k1_ecdsa_signature_parse_compact(ctx, &sig, c64)) return true;
        return secp256k1_ecdsa_signature_normalize(ctx, nullptr, &sig) != 0;
    };
    arith_uint256 lo = 1, hi = n - arith_uint256(1);   // invariant: lo not high, hi high
    while (hi - lo > arith_uint256(1)) {
        arith_uint256 mid = lo + ((hi - lo) >> 1);
        if (is_high(mid)) hi = mid; else lo = mid;
    }
    defz256("SECP256K1_LOW_S_MAX", lo);
    secp256k1_context_destroy(sctx);
}
