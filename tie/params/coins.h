// Constants of the coins cache memory accounting (C15), printed from the compiled tree.
#include <coins.h>
#include <memusage.h>
#include <script/script.h>
#include <vector>

namespace verif_coins_params {
// largest script length that is stored inline in a CScript (prevector<N>): no dynamic memory
inline unsigned long long direct_capacity() { return CScript().capacity(); }
// DynamicMemoryUsage of a Coin whose scriptPubKey was built from exactly n bytes
inline unsigned long long usage_at(size_t n)
{
    std::vector<unsigned char> v(n, 0x51);
    Coin c(CTxOut(1, CScript(v.begin(), v.end())), 1, false);
    return c.DynamicMemoryUsage();
}
} // namespace verif_coins_params

VERIF_PARAMS(coins)
{
    const unsigned long long COINS_SCRIPT_DIRECT_CAPACITY = verif_coins_params::direct_capacity();
    const unsigned long long COINS_USAGE_AT_DIRECT = verif_coins_params::usage_at(COINS_SCRIPT_DIRECT_CAPACITY);
    const unsigned long long COINS_USAGE_AT_DIRECT_PLUS_1 = verif_coins_params::usage_at(COINS_SCRIPT_DIRECT_CAPACITY + 1);
    const unsigned long long COINS_USAGE_AT_49 = verif_coins_params::usage_at(49);
    const unsigned long long COINS_USAGE_AT_50 = verif_coins_params::usage_at(50);
    const unsigned long long COINS_USAGE_AT_100 = verif_coins_params::usage_at(100);
    const unsigned long long COINS_MALLOC_USAGE_1 = memusage::MallocUsage(1);
    const unsigned long long COINS_MALLOC_USAGE_17 = memusage::MallocUsage(17);
    const unsigned long long COINS_MALLOC_USAGE_1000 = memusage::MallocUsage(1000);
    DZU(COINS_SCRIPT_DIRECT_CAPACITY);
    DZU(COINS_USAGE_AT_DIRECT);
    DZU(COINS_USAGE_AT_DIRECT_PLUS_1);
    DZU(COINS_USAGE_AT_49);
    DZU(COINS_USAGE_AT_50);
    DZU(COINS_USAGE_AT_100);
    DZU(COINS_MALLOC_USAGE_1);
    DZU(COINS_MALLOC_USAGE_17);
    DZU(COINS_MALLOC_USAGE_1000);
}
