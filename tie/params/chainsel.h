// Constants the ChainSel family (C08, C58) theorems mention, printed from the compiled tree.
// (MIN_BLOCKS_TO_KEEP is also printed by another family under its own name; the names here are
// prefixed so that the generated file has no duplicate definitions.)
#include <chain.h>
#include <validation.h>
VERIF_PARAMS(chainsel)
{
    defzu("CHAINSEL_MIN_BLOCKS_TO_KEEP", (unsigned long long)MIN_BLOCKS_TO_KEEP);
    defz("CHAINSEL_SEQ_ID_INIT_FROM_DISK", (long long)SEQ_ID_INIT_FROM_DISK);
}
