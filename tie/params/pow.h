// Constants the C07 / C54 / C53 theorems mention (family pow), printed from the compiled tree.
#include <chain.h>
#include <versionbits.h>
#include <consensus/params.h>
VERIF_PARAMS(pow) {
    DZ(MAX_FUTURE_BLOCK_TIME);
    defz("MEDIAN_TIME_SPAN", (long long)CBlockIndex::nMedianTimeSpan);
    defzu("VERSIONBITS_TOP_BITS", (uint32_t)VERSIONBITS_TOP_BITS);
    defzu("VERSIONBITS_TOP_MASK", (uint32_t)VERSIONBITS_TOP_MASK);
    DZ(VERSIONBITS_NUM_BITS);
    defz("BIP9_ALWAYS_ACTIVE", (long long)Consensus::BIP9Deployment::ALWAYS_ACTIVE);
    defz("BIP9_NEVER_ACTIVE", (long long)Consensus::BIP9Deployment::NEVER_ACTIVE);
}
