// Constants the C35 theorems mention (family p2p / orphanage), printed from the compiled tree.
#include <node/txorphanage.h>
#include <policy/policy.h>
VERIF_PARAMS(orphan) {
    defz("ORPHAN_MAX_TX_WEIGHT", (long long)MAX_STANDARD_TX_WEIGHT);
    defz("ORPHAN_DEFAULT_RESERVED_WEIGHT_PER_PEER", (long long)node::DEFAULT_RESERVED_ORPHAN_WEIGHT_PER_PEER);
    defzu("ORPHAN_DEFAULT_MAX_LATENCY_SCORE", (unsigned long long)node::DEFAULT_MAX_ORPHANAGE_LATENCY_SCORE);
}
