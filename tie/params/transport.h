// Constants and tables the C32 theorems mention (family transport), printed from the compiled tree.
//  - sizes of the v1 header fields, the two receive-size bounds, BIP324 packet framing constants
//  - every built-in chain's message start bytes
//  - the short message id table AS THE RECEIVER SEES IT: V2Transport::GetMessageType (a private static
//    member; reached with the explicit-instantiation idiom, no source edit) applied to every first byte 1..255.
#include <net.h>
#include <bip324.h>
#include <protocol.h>
#include <serialize.h>
#include <kernel/chainparams.h>
#include <optional>
#include <span>
#include <string>

namespace verif_transport {
using GMT = std::optional<std::string> (*)(std::span<const uint8_t>&) noexcept;
GMT get_gmt();
template <GMT P> struct Rob { friend GMT get_gmt() { return P; } };
template struct Rob<&V2Transport::GetMessageType>;

inline void bytes_n(const unsigned char* p, size_t n)
{
    std::cout << "[";
    for (size_t i = 0; i < n; ++i) std::cout << (i ? "; " : "") << "(" << (unsigned)p[i] << ")%N";
    std::cout << "]";
}
inline void magic(const char* name, const CChainParams& p)
{
    const auto& m = p.MessageStart();
    std::cout << "Definition TR_MAGIC_" << name << " : list N := ";
    bytes_n(m.data(), m.size());
    std::cout << ".\n";
}
} // namespace verif_transport

VERIF_PARAMS(transport) {
    using namespace verif_transport;
    defzu("TR_HEADER_SIZE", CMessageHeader::HEADER_SIZE);
    defzu("TR_MESSAGE_TYPE_SIZE", CMessageHeader::MESSAGE_TYPE_SIZE);
    defzu("TR_MESSAGE_SIZE_SIZE", CMessageHeader::MESSAGE_SIZE_SIZE);
    defzu("TR_CHECKSUM_SIZE", CMessageHeader::CHECKSUM_SIZE);
    defzu("TR_MESSAGE_START_SIZE", std::tuple_size_v<MessageStartChars>);
    defzu("TR_MAX_SIZE", MAX_SIZE);
    defzu("TR_MAX_PROTOCOL_MESSAGE_LENGTH", MAX_PROTOCOL_MESSAGE_LENGTH);
    defzu("TR_MAX_GARBAGE_LEN", V2Transport::MAX_GARBAGE_LEN);
    defzu("TR_GARBAGE_TERMINATOR_LEN", BIP324Cipher::GARBAGE_TERMINATOR_LEN);
    defzu("TR_LENGTH_LEN", BIP324Cipher::LENGTH_LEN);
    defzu("TR_HEADER_LEN", BIP324Cipher::HEADER_LEN);
    defzu("TR_EXPANSION", BIP324Cipher::EXPANSION);
    defzu("TR_REKEY_INTERVAL", BIP324Cipher::REKEY_INTERVAL);
    defzu("TR_IGNORE_BIT", (unsigned)BIP324Cipher::IGNORE_BIT);
    defzu("TR_ELLSWIFT_SIZE", EllSwiftPubKey::size());
    defzu("TR_SHORTIDS_IMPLEMENTED", BIP324_SHORTIDS_IMPLEMENTED);
    magic("main", *CChainParams::Main());
    magic("test", *CChainParams::TestNet());
    magic("testnet4", *CChainParams::TestNet4());
    magic("signet", *CChainParams::SigNet());
    magic("regtest", *CChainParams::RegTest());
    std::cout << "Definition TR_MAGICS : list (list N) := [TR_MAGIC_main; TR_MAGIC_test; TR_MAGIC_testnet4; TR_MAGIC_signet; TR_MAGIC_regtest].\n";
    // entry i (0-based) is what a packet whose contents is the single byte i+1 decodes to
    std::cout << "Definition TR_V2_SHORTID_DECODE : list (option (list N)) := [\n";
    for (unsigned b = 1; b < 256; ++b) {
        uint8_t c[1] = {(uint8_t)b};
        std::span<const uint8_t> sp{c, 1};
        auto r = get_gmt()(sp);
        std::cout << "  ";
        if (r) { std::cout << "Some "; bytes_n((const unsigned char*)r->data(), r->size()); }
        else std::cout << "None";
        std::cout << (b < 255 ? ";" : "") << "\n";
    }
    std::cout << "].\n";
}
