// Constants the C40 (family wallet, coin selection) model mentions, printed from the compiled tree.
#include <wallet/coinselection.h>
#include <policy/policy.h>
VERIF_PARAMS(coinsel)
{
    defz("CS_CHANGE_LOWER", (long long)wallet::CHANGE_LOWER);
    defz("CS_CHANGE_UPPER", (long long)wallet::CHANGE_UPPER);
    defz("CS_MAX_STANDARD_TX_WEIGHT", (long long)MAX_STANDARD_TX_WEIGHT);
}
