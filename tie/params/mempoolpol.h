// Constants the mempoolpol family (C29 package well-formedness, C27 TRUC topology / cluster limits)
// theorems mention, printed from the compiled tree.
#include <kernel/mempool_limits.h>
#include <net.h>
#include <policy/packages.h>
#include <policy/policy.h>
#include <policy/truc_policy.h>
VERIF_PARAMS(mempoolpol)
{
    defzu("MPP_MAX_PACKAGE_COUNT", (unsigned long long)MAX_PACKAGE_COUNT);
    defzu("MPP_MAX_PACKAGE_WEIGHT", (unsigned long long)MAX_PACKAGE_WEIGHT);
    defzu("MPP_MAX_PROTOCOL_MESSAGE_LENGTH", (unsigned long long)MAX_PROTOCOL_MESSAGE_LENGTH);
    defz("MPP_MAX_STANDARD_TX_WEIGHT", (long long)MAX_STANDARD_TX_WEIGHT);
    defz("MPP_TRUC_VERSION", (long long)TRUC_VERSION);
    defzu("MPP_TRUC_DESCENDANT_LIMIT", (unsigned long long)TRUC_DESCENDANT_LIMIT);
    defzu("MPP_TRUC_ANCESTOR_LIMIT", (unsigned long long)TRUC_ANCESTOR_LIMIT);
    defz("MPP_TRUC_MAX_VSIZE", (long long)TRUC_MAX_VSIZE);
    defz("MPP_TRUC_MAX_WEIGHT", (long long)TRUC_MAX_WEIGHT);
    defz("MPP_TRUC_CHILD_MAX_VSIZE", (long long)TRUC_CHILD_MAX_VSIZE);
    defz("MPP_TRUC_CHILD_MAX_WEIGHT", (long long)TRUC_CHILD_MAX_WEIGHT);
    defzu("MPP_DEFAULT_CLUSTER_LIMIT", (unsigned long long)DEFAULT_CLUSTER_LIMIT);
    defzu("MPP_DEFAULT_CLUSTER_SIZE_LIMIT_KVB", (unsigned long long)DEFAULT_CLUSTER_SIZE_LIMIT_KVB);
    defzu("MPP_DEFAULT_MIN_RELAY_TX_FEE", (unsigned long long)DEFAULT_MIN_RELAY_TX_FEE);
    defzu("MPP_DEFAULT_INCREMENTAL_RELAY_FEE", (unsigned long long)DEFAULT_INCREMENTAL_RELAY_FEE);
    defzu("MPP_DEFAULT_ANCESTOR_LIMIT", (unsigned long long)DEFAULT_ANCESTOR_LIMIT);
    defzu("MPP_DEFAULT_DESCENDANT_LIMIT", (unsigned long long)DEFAULT_DESCENDANT_LIMIT);
    {
        kernel::MemPoolLimits lim{};
        defzu("MPP_LIMITS_CLUSTER_COUNT", (unsigned long long)lim.cluster_count);
        defz("MPP_LIMITS_CLUSTER_SIZE_VBYTES", (long long)lim.cluster_size_vbytes);
    }
}
