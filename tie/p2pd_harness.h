// Shared harness of the p2pd drivers (C39 relay, C36 punishment): a regtest TestChain100Setup with its real PeerManager and
// ConnmanTestMsg, mock peers that complete the version handshake, delivery of P2P messages to ProcessMessages, and capture of every
// message the node pushes to a peer (CConnman::SetCaptureMessages + the global CaptureMessage hook the unit tests also use).
#ifndef VERIF_P2PD_HARNESS_H
#define VERIF_P2PD_HARNESS_H
#include <drv_common.h>
#include <test/util/setup_common.h>
#include <test/util/net.h>
#include <test/util/time.h>
#include <net.h>
#include <net_processing.h>
#include <netmessagemaker.h>
#include <node/transaction.h>
#include <node/types.h>
#include <txmempool.h>
#include <validation.h>
#include <validationinterface.h>
#include <banman.h>
#include <protocol.h>
#include <util/time.h>
#include <map>
#include <memory>

namespace p2pd {
struct Sent { int peer; std::string type; std::vector<unsigned char> data; };

struct Harness {
    std::unique_ptr<TestChain100Setup> setup;
    ConnmanTestMsg* connman{nullptr};
    PeerManager* peerman{nullptr};
    std::vector<CNode*> nodes;   // owned by connman (AddTestNode / ClearTestNodes), as in denialofservice_tests
    std::map<std::string, int> by_addr;
    std::vector<Sent> sent;
    int64_t now{0};
    NodeId next_id{0};

    explicit Harness(const std::vector<const char*>& extra_args = {})
    {
        TestOpts opts;
        opts.extra_args = extra_args;
        setup = std::make_unique<TestChain100Setup>(ChainType::REGTEST, opts);
        connman = static_cast<ConnmanTestMsg*>(setup->m_node.connman.get());
        peerman = setup->m_node.peerman.get();
        connman->SetPeerConnectTimeout(std::chrono::seconds{999999});
        setup->m_node.validation_signals->RegisterValidationInterface(peerman);   // as init.cpp does
        connman->SetCaptureMessages(true);
        CaptureMessage = [this](const CAddress& addr, const std::string& type, std::span<const unsigned char> data, bool incoming) {
            if (incoming) return;
            auto it = by_addr.find(addr.ToStringAddrPort());
            sent.push_back(Sent{it == by_addr.end() ? -1 : it->second, type, std::vector<unsigned char>(data.begin(), data.end())});
        };
        now = GetTime();
    }
    ~Harness()
    {
        drop_peers();
        setup->m_node.validation_signals->UnregisterValidationInterface(peerman);
        CaptureMessage = [](const CAddress&, const std::string&, std::span<const unsigned char>, bool) {};
    }
    void drop_peers()
    {
        for (auto* n : nodes) { if (n) peerman->FinalizeNode(*n); }
        connman->ClearTestNodes();
        nodes.clear();
        by_addr.clear();
    }
    void advance(int64_t s) { now += s; SetMockTime(now); }

    // returns the peer index; the peer completes the handshake when [connected]
    int add_peer(ConnectionType ct, NetPermissionFlags perm, const CService& svc, bool relay_txs = true, bool connected = true, bool wtxid = false)
    {
        LOCK(NetEventsInterface::g_msgproc_mutex);
        CAddress addr(svc, ServiceFlags(NODE_NETWORK | NODE_WITNESS));
        int idx = nodes.size();
        by_addr[addr.ToStringAddrPort()] = idx;
        nodes.push_back(new CNode(next_id++, /*sock=*/nullptr, addr, /*nKeyedNetGroupIn=*/idx + 1, /*nLocalHostNonceIn=*/idx + 1,
                                  CAddress(), /*addrNameIn=*/"", ct, /*inbound_onion=*/false, /*network_key=*/0,
                                  CNodeOptions{.permission_flags = perm}));
        CNode& node = *nodes.back();
        connman->AddTestNode(node);
        connman->Handshake(node, connected, ServiceFlags(NODE_NETWORK | NODE_WITNESS), ServiceFlags(NODE_NETWORK | NODE_WITNESS), PROTOCOL_VERSION, relay_txs);
        (void)wtxid;
        return idx;
    }
    // a ConnectionType::PRIVATE_BROADCAST connection (outbound): InitializeNode, our VERSION, the peer's VERSION and VERACK
    int add_private_conn(const CService& svc)
    {
        CAddress addr(svc, ServiceFlags(NODE_NETWORK | NODE_WITNESS));
        int idx = nodes.size();
        by_addr[addr.ToStringAddrPort()] = idx;
        nodes.push_back(new CNode(next_id++, /*sock=*/nullptr, addr, /*nKeyedNetGroupIn=*/idx + 1, /*nLocalHostNonceIn=*/idx + 1,
                                  CAddress(), /*addrNameIn=*/"", ConnectionType::PRIVATE_BROADCAST, /*inbound_onion=*/false, /*network_key=*/0));
        CNode& node = *nodes.back();
        connman->AddTestNode(node);
        {
            LOCK(NetEventsInterface::g_msgproc_mutex);
            peerman->InitializeNode(node, ServiceFlags(NODE_NONE));
            peerman->SendMessages(node);
            connman->FlushSendBuffer(node);
        }
        deliver(idx, NetMsg::Make(NetMsgType::VERSION, PROTOCOL_VERSION, Using<CustomUintFormatter<8>>(ServiceFlags(NODE_NETWORK | NODE_WITNESS)), int64_t{}, int64_t{},
                                  CNetAddr::V1(CService{}), int64_t{}, CNetAddr::V1(CService{}), uint64_t{1}, std::string{}, int32_t{}, true));
        if (!node.fDisconnect) deliver(idx, NetMsg::Make(NetMsgType::VERACK));
        return idx;
    }
    // deliver one message from the peer and let the node process it
    void deliver(int peer, CSerializedNetMsg&& msg)
    {
        LOCK(NetEventsInterface::g_msgproc_mutex);
        CNode& node = *nodes.at(peer);
        connman->FlushSendBuffer(node);
        (void)connman->ReceiveMsgFrom(node, std::move(msg));
        node.fPauseSend = false;
        for (int i = 0; i < 4; ++i) { bool more = connman->ProcessMessagesOnce(node); connman->FlushSendBuffer(node); if (!more) break; }
    }
    void send_messages(int peer)
    {
        LOCK(NetEventsInterface::g_msgproc_mutex);
        CNode& node = *nodes.at(peer);
        node.fPauseSend = false;
        peerman->SendMessages(node);
        connman->FlushSendBuffer(node);
    }
    void sync() { setup->m_node.validation_signals->SyncWithValidationInterfaceQueue(); }
};
} // namespace p2pd
#endif
