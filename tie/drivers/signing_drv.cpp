// C++ side of the signing check (C46, family signing): the REAL ProduceSignature (src/script/sign.cpp) on an output script
// derived from a descriptor by the REAL descriptor parser, with a signing provider restricted as the case says, then an
// INDEPENDENT VerifyScript with the standard flags on the spend that was produced.
//
//   case :  sign <descriptor with K0..K7 / H0..H3 placeholders> avail=<mask> pubs=<mask> scripts=<0|1> pre=<mask>
//                lt=<nLockTime> seq=<nSequence> ver=<tx version> amt=<sats>
//           avail: keys whose PRIVATE key the provider has; pubs: keys whose public key it can look up by key id;
//           scripts: whether redeem / witness scripts (and taproot trees) are known; pre: available hash preimages;
//           bogus=<mask>: keys for which the SignatureData already holds an (invalid) partial signature; pol=<policy> is
//           read by the model side only
//   output: complete=<0|1> verify=<ok|error> ss=<shape> wit=<shape>
//           shape: one token per stack element: 0 empty, S<i> a valid ECDSA signature by key i, P<i> public key i,
//           R a script known to the (unrestricted) provider, I<j> preimage j, X a 64/65-byte element (Schnorr), C a control
//           block, ?<len> anything else;  '-' for an empty stack
#include <drv_common.h>
#include <addresstype.h>
#include <crypto/sha256.h>
#include <key.h>
#include <key_io.h>
#include <policy/policy.h>
#include <primitives/transaction.h>
#include <pubkey.h>
#include <script/descriptor.h>
#include <script/interpreter.h>
#include <script/script.h>
#include <script/script_error.h>
#include <script/sign.h>
#include <script/signingprovider.h>
#include <test/util/setup_common.h>
#include <util/strencodings.h>

#include <map>

namespace {
constexpr int NK = 8, NH = 4;

struct Ctx : public BasicTestingSetup {
    std::vector<CKey> keys;
    std::vector<std::vector<unsigned char>> preimages, hashes;
    Ctx()
    {
        for (int i = 0; i < NK; ++i) {
            unsigned char kb[32] = {0};
            kb[0] = 0x46; kb[31] = (unsigned char)(i + 1); kb[7] = 0x5a;
            CKey k;
            k.Set(kb, kb + 32, true);
            keys.push_back(k);
        }
        for (int j = 0; j < NH; ++j) {
            std::vector<unsigned char> p(32, (unsigned char)(0x70 + j));
            std::vector<unsigned char> h(32);
            CSHA256().Write(p.data(), p.size()).Finalize(h.data());
            preimages.push_back(p);
            hashes.push_back(h);
        }
    }
};

std::string replace_all(std::string s, const std::string& a, const std::string& b)
{
    size_t pos = 0;
    while ((pos = s.find(a, pos)) != std::string::npos) { s.replace(pos, a.size(), b); pos += b.size(); }
    return s;
}

std::string shape(const Ctx& c, const std::vector<std::vector<unsigned char>>& stack, const CMutableTransaction& tx, CAmount amount,
                  const PrecomputedTransactionData& txdata, const CScript& spk, const FlatSigningProvider& full, bool taproot)
{
    if (stack.empty()) return "-";
    // script codes a signature may commit to
    std::vector<std::pair<CScript, SigVersion>> codes;
    codes.emplace_back(spk, SigVersion::BASE);
    for (const auto& [id, s] : full.scripts) { codes.emplace_back(s, SigVersion::BASE); codes.emplace_back(s, SigVersion::WITNESS_V0); }
    for (int i = 0; i < NK; ++i) codes.emplace_back(GetScriptForDestination(PKHash(c.keys[i].GetPubKey())), SigVersion::WITNESS_V0);
    std::string out;
    for (const auto& e : stack) {
        std::string tok;
        if (e.empty()) tok = "0";
        else {
            for (int i = 0; i < NK && tok.empty(); ++i) {
                const CPubKey pk = c.keys[i].GetPubKey();
                if (e.size() == 33 && std::equal(e.begin(), e.end(), pk.begin())) tok = "P" + std::to_string(i);
            }
            for (int j = 0; j < NH && tok.empty(); ++j) if (e == c.preimages[j]) tok = "I" + std::to_string(j);
            if (tok.empty()) {
                for (const auto& [id, s] : full.scripts) if (e.size() == s.size() && std::equal(e.begin(), e.end(), s.begin())) tok = "R";
            }
            if (tok.empty() && taproot && (e.size() == 64 || e.size() == 65)) tok = "X";
            if (tok.empty() && taproot && e.size() >= 33 && (e.size() - 33) % 32 == 0 && (e[0] & 0xfe) == 0xc0) tok = "C";
            if (tok.empty() && e.size() >= 9 && e.size() <= 73 && e[0] == 0x30) {
                const int hashtype = e.back();
                std::vector<unsigned char> sig(e.begin(), e.end() - 1);
                for (int i = 0; i < NK && tok.empty(); ++i) {
                    for (const auto& [code, sv] : codes) {
                        const uint256 h = SignatureHash(code, tx, 0, hashtype, amount, sv, &txdata);
                        if (c.keys[i].GetPubKey().Verify(h, sig)) { tok = "S" + std::to_string(i); break; }
                    }
                }
                if (tok.empty()) tok = "s?";
            }
            if (tok.empty()) {
                // a script that only the taproot tree knows (leaf script)
                tok = taproot && e.size() > 33 ? "R" : "?" + std::to_string(e.size());
            }
        }
        out += (out.empty() ? "" : ",") + tok;
    }
    return out;
}
} // namespace

int main(int argc, char** argv)
{
    Ctx ctx;
    return vd::main_loop([&](const std::vector<std::string>& w, const std::string&) -> std::string {
        if (w.size() < 2 || w[0] != "sign") return "BADCASE";
        std::string desc = w[1];
        unsigned avail = 0, pubs = 0xff, pre = 0, bogus = 0;
        bool scripts = true;
        uint32_t lt = 0, seq = 0xfffffffe;
        int ver = 2;
        CAmount amt = 100000;
        for (size_t i = 2; i < w.size(); ++i) {
            const auto eq = w[i].find('=');
            if (eq == std::string::npos) return "BADCASE";
            const std::string k = w[i].substr(0, eq), v = w[i].substr(eq + 1);
            if (k == "avail") avail = (unsigned)std::stoul(v);
            else if (k == "pubs") pubs = (unsigned)std::stoul(v);
            else if (k == "scripts") scripts = v != "0";
            else if (k == "pre") pre = (unsigned)std::stoul(v);
            else if (k == "lt") lt = (uint32_t)std::stoul(v);
            else if (k == "seq") seq = (uint32_t)std::stoul(v);
            else if (k == "ver") ver = std::stoi(v);
            else if (k == "amt") amt = std::stoll(v);
            else if (k == "bogus") bogus = (unsigned)std::stoul(v);
            else if (k == "pol") {}   // the policy, for the model side only
            else return "BADCASE";
        }
        const bool taproot = desc.rfind("tr(", 0) == 0;
        for (int i = NK - 1; i >= 0; --i) {
            const CPubKey pk = ctx.keys[i].GetPubKey();
            // inside tr() keys are x-only
            desc = replace_all(desc, "K" + std::to_string(i), taproot ? HexStr(XOnlyPubKey(pk)) : HexStr(pk));
        }
        for (int j = NH - 1; j >= 0; --j) desc = replace_all(desc, "H" + std::to_string(j), HexStr(ctx.hashes[j]));
        FlatSigningProvider parse_out, full;
        std::string error;
        auto descs = Parse(desc, parse_out, error, /*require_checksum=*/false);
        if (descs.empty()) return "BADDESC " + error;
        std::vector<CScript> spks;
        if (!descs[0]->Expand(0, parse_out, spks, full) || spks.empty()) return "BADDESC expand";
        const CScript spk = spks[0];
        // the restricted provider
        FlatSigningProvider sp;
        if (scripts) { sp.scripts = full.scripts; sp.tr_trees = full.tr_trees; }
        for (int i = 0; i < NK; ++i) {
            const CPubKey pk = ctx.keys[i].GetPubKey();
            if ((pubs >> i) & 1) {
                sp.pubkeys[pk.GetID()] = pk;
                if (taproot) {
                    // x-only keys are looked up under both parities
                    for (unsigned char par : {0x02, 0x03}) {
                        unsigned char b[33];
                        b[0] = par;
                        std::copy(pk.begin() + 1, pk.end(), b + 1);
                        CPubKey alt(b, b + 33);
                        sp.pubkeys[alt.GetID()] = alt;
                    }
                }
            }
            if ((avail >> i) & 1) {
                sp.keys[pk.GetID()] = ctx.keys[i];
                if (taproot) {
                    for (unsigned char par : {0x02, 0x03}) {
                        unsigned char b[33];
                        b[0] = par;
                        std::copy(pk.begin() + 1, pk.end(), b + 1);
                        CPubKey alt(b, b + 33);
                        sp.keys[alt.GetID()] = ctx.keys[i];
                    }
                }
            }
        }
        CMutableTransaction tx;
        tx.version = ver;
        tx.nLockTime = lt;
        tx.vin.emplace_back(COutPoint(Txid::FromUint256(uint256::ONE), 0), CScript(), seq);
        tx.vout.emplace_back(amt - 1000, CScript() << OP_TRUE);
        PrecomputedTransactionData txdata;
        txdata.Init(tx, {CTxOut(amt, spk)}, /*force=*/true);
        SignatureData sigdata;
        for (int j = 0; j < NH; ++j) if ((pre >> j) & 1) sigdata.sha256_preimages[ctx.hashes[j]] = ctx.preimages[j];
        // partial signatures that came from elsewhere (as after combining PSBTs) and are NOT valid: CreateSig takes them as they are
        for (int i = 0; i < NK; ++i) {
            if (!((bogus >> i) & 1)) continue;
            const CPubKey pk = ctx.keys[i].GetPubKey();
            std::vector<unsigned char> sig;
            ctx.keys[(i + 1) % NK].Sign(uint256::ONE, sig);   // a well-formed DER signature of something else by another key
            sig.push_back((unsigned char)SIGHASH_ALL);
            sigdata.signatures[pk.GetID()] = SigPair(pk, sig);
        }
        MutableTransactionSignatureCreator creator(tx, 0, amt, &txdata, SignOptions{.sighash_type = taproot ? SIGHASH_DEFAULT : SIGHASH_ALL});
        const bool ret = ProduceSignature(sp, creator, spk, sigdata);
        UpdateInput(tx.vin[0], sigdata);
        // independent verification of what was produced
        ScriptError serr = SCRIPT_ERR_OK;
        const CTransaction ctxn(tx);
        PrecomputedTransactionData txdata2;
        txdata2.Init(ctxn, {CTxOut(amt, spk)}, /*force=*/true);
        const bool vok = VerifyScript(tx.vin[0].scriptSig, spk, &tx.vin[0].scriptWitness, STANDARD_SCRIPT_VERIFY_FLAGS,
                                      TransactionSignatureChecker(&ctxn, 0, amt, txdata2, MissingDataBehavior::FAIL), &serr);
        // scriptSig pushes
        std::vector<std::vector<unsigned char>> ss;
        {
            CScript::const_iterator it = tx.vin[0].scriptSig.begin();
            opcodetype op;
            std::vector<unsigned char> data;
            while (it < tx.vin[0].scriptSig.end() && tx.vin[0].scriptSig.GetOp(it, op, data)) {
                if (op >= OP_1 && op <= OP_16) data = {(unsigned char)(op - OP_1 + 1)};
                ss.push_back(data);
            }
        }
        return std::string("complete=") + (sigdata.complete ? "1" : "0") + " ret=" + (ret ? "1" : "0") + " verify=" + (vok ? "ok" : ScriptErrorString(serr)) +
               " ss=" + shape(ctx, ss, tx, amt, txdata, spk, full, taproot) + " wit=" + shape(ctx, tx.vin[0].scriptWitness.stack, tx, amt, txdata, spk, full, taproot);
    });
}
