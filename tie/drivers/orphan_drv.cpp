// C++ side of the Orphanage family (C35): runs operation scripts against the real TxOrphanage
// (node::MakeTxOrphanage(max_global_latency_score, reserved_peer_usage)) and prints what its query interface shows
// after every operation.
//
// case:  <G> <R> | <txdef> ; <txdef> ; ... | <op> ; <op> ; ...
//   txdef: t <w> <base> <weight> <nout> <pad> <wit> <txid:n,txid:n,...>
//          w = wtxid label, base = txid label (= w, or the label of an earlier tx of which this one is a
//          witness-malleated twin), weight = the weight the generator computed (checked here), pad = scriptSig bytes
//          of input 0, wit = size of the single witness item of input 0 (0 = no witness), inputs refer to txid labels
//          (negative = external outpoint).
//   op:    add <w> <peer> | ann <w> <peer> | erase <w> | peer <p> | block <txid:n,...> | work <w> <salt>
//          | recon <peer> | kids <w> <peer>
// output: "W<w>=<actual weight> ..." then per op " | " + [result] + state digest.
// AddChildrenToWorkSet draws random announcers; the driver replays the prefix of the script with rng seeds 0,1,2,..
// until the draws equal the rule the model uses (the ((salt + w) mod n)-th announcer in NodeId order), so that the
// run is reproducible by the model while every call executes the real code with a real FastRandomContext.
#include <drv_common.h>
#include <node/txorphanage.h>
#include <primitives/block.h>
#include <primitives/transaction.h>
#include <consensus/validation.h>
#include <policy/policy.h>
#include <random.h>
#include <script/script.h>
#include <uint256.h>
#include <algorithm>
#include <csetjmp>
#include <csignal>
#include <map>
#include <set>

using node::TxOrphanage;

struct Script {
    unsigned G{0}; long long R{0};
    std::map<long long, CTransactionRef> tx;           // wtxid label -> tx
    std::map<long long, long long> base;               // wtxid label -> txid label
    std::map<long long, long long> claimed;
    std::vector<std::vector<std::string>> ops;
    std::map<Wtxid, long long> label;                  // real wtxid -> label
    std::set<long long> peers;
};

static Txid txid_of(const Script& s, long long lab)
{
    if (lab < 0) {
        uint256 u; unsigned long long k = (unsigned long long)(-lab);
        for (int i = 0; i < 8; ++i) u.data()[i] = (unsigned char)(k >> (8 * i));
        u.data()[31] = 0xee;
        return Txid::FromUint256(u);
    }
    auto it = s.tx.find(lab);
    if (it == s.tx.end()) throw std::runtime_error("unknown txid label");
    return it->second->GetHash();
}
static std::vector<COutPoint> parse_outpoints(const Script& s, const std::string& f)
{
    std::vector<COutPoint> out;
    if (f == "-") return out;
    std::stringstream ss(f); std::string item;
    while (std::getline(ss, item, ',')) {
        auto c = item.find(':');
        out.emplace_back(txid_of(s, vd::ll(item.substr(0, c))), (uint32_t)vd::ll(item.substr(c + 1)));
    }
    return out;
}
static std::vector<std::vector<std::string>> split(const std::vector<std::string>& w, size_t from, size_t to)
{
    std::vector<std::vector<std::string>> r; r.emplace_back();
    for (size_t i = from; i < to; ++i) { if (w[i] == ";") r.emplace_back(); else r.back().push_back(w[i]); }
    std::vector<std::vector<std::string>> o;
    for (auto& x : r) if (!x.empty()) o.push_back(x);
    return o;
}

static Script parse(const std::vector<std::string>& w)
{
    Script s;
    s.G = (unsigned)vd::ull(w.at(0)); s.R = vd::ll(w.at(1));
    size_t b1 = 2; if (w.at(b1) != "|") throw std::runtime_error("format");
    size_t b2 = b1 + 1; while (b2 < w.size() && w[b2] != "|") ++b2;
    if (b2 >= w.size()) throw std::runtime_error("format");
    for (auto& d : split(w, b1 + 1, b2)) {
        if (d.at(0) != "t" || d.size() != 8) throw std::runtime_error("txdef");
        long long lab = vd::ll(d[1]), base = vd::ll(d[2]);
        CMutableTransaction m; m.version = 2;
        auto ins = parse_outpoints(s, d[7]);
        long long pad = vd::ll(d[5]), wit = vd::ll(d[6]);
        for (size_t i = 0; i < ins.size(); ++i) {
            CScript ss; if (i == 0) { std::vector<unsigned char> p((size_t)pad, 0x51); ss = CScript(p.begin(), p.end()); }
            m.vin.emplace_back(ins[i], ss, 0xfffffffd);
        }
        if (wit > 0 && !m.vin.empty()) m.vin[0].scriptWitness.stack.push_back(std::vector<unsigned char>((size_t)wit, 0x77));
        for (long long i = 0; i < vd::ll(d[4]); ++i) m.vout.emplace_back(CAmount{0}, CScript() << OP_TRUE);
        auto tx = MakeTransactionRef(m);
        s.tx[lab] = tx; s.base[lab] = base; s.claimed[lab] = vd::ll(d[3]);
        if (base != lab && s.tx.at(base)->GetHash() != tx->GetHash()) throw std::runtime_error("twin has a different txid");
        if (s.label.count(tx->GetWitnessHash())) throw std::runtime_error("duplicate wtxid");
        s.label[tx->GetWitnessHash()] = lab;
    }
    s.ops = split(w, b2 + 1, w.size());
    for (auto& o : s.ops) {
        if (o[0] == "add" || o[0] == "ann" || o[0] == "kids") s.peers.insert(vd::ll(o.at(2)));
        if (o[0] == "peer" || o[0] == "recon") s.peers.insert(vd::ll(o.at(1)));
    }
    return s;
}

static std::string digest(const Script& s, TxOrphanage& orph)
{
    std::string out = " A=" + std::to_string(orph.CountAnnouncements()) + " U=" + std::to_string(orph.CountUniqueOrphans()) +
                      " W=" + std::to_string(orph.TotalOrphanUsage()) + " L=" + std::to_string(orph.TotalLatencyScore()) +
                      " MU=" + std::to_string(orph.MaxGlobalUsage()) + " ML=" + std::to_string(orph.MaxPeerLatencyScore());
    for (long long p : s.peers)
        out += " P" + std::to_string(p) + "=" + std::to_string(orph.UsageByPeer(p)) + "," + std::to_string(orph.AnnouncementsFromPeer(p)) + "," +
               std::to_string(orph.LatencyScoreFromPeer(p)) + "," + (orph.HaveTxToReconsider(p) ? "1" : "0");
    std::map<long long, std::set<NodeId>> os;
    for (auto& info : orph.GetOrphanTransactions()) os[s.label.at(info.tx->GetWitnessHash())] = info.announcers;
    for (auto& [lab, an] : os) {
        out += " O" + std::to_string(lab) + "=";
        bool first = true;
        for (auto p : an) { out += (first ? "" : ",") + std::to_string(p); first = false; }
    }
    return out;
}

// executes ops[0..upto) on a fresh orphanage with the recorded rng seeds; returns it
static std::unique_ptr<TxOrphanage> replay(const Script& s, const std::vector<uint64_t>& seeds, size_t upto)
{
    auto orph = node::MakeTxOrphanage(s.G, s.R);
    for (size_t i = 0; i < upto; ++i) {
        auto& o = s.ops[i];
        if (o[0] == "add") orph->AddTx(s.tx.at(vd::ll(o.at(1))), vd::ll(o.at(2)));
        else if (o[0] == "ann") orph->AddAnnouncer(s.tx.at(vd::ll(o.at(1)))->GetWitnessHash(), vd::ll(o.at(2)));
        else if (o[0] == "erase") orph->EraseTx(s.tx.at(vd::ll(o.at(1)))->GetWitnessHash());
        else if (o[0] == "peer") orph->EraseForPeer(vd::ll(o.at(1)));
        else if (o[0] == "block") {
            CBlock b; CMutableTransaction m; m.version = 2;
            for (auto& op : parse_outpoints(s, o.at(1))) m.vin.emplace_back(op, CScript(), 0);
            m.vout.emplace_back(CAmount{0}, CScript() << OP_TRUE);
            b.vtx.push_back(MakeTransactionRef(m));
            orph->EraseForBlock(b);
        } else if (o[0] == "work") {
            uint256 sd; for (int k = 0; k < 8; ++k) sd.data()[k] = (unsigned char)(seeds[i] >> (8 * k));
            FastRandomContext rng(sd);
            orph->AddChildrenToWorkSet(*s.tx.at(vd::ll(o.at(1))), rng);
        } else if (o[0] == "recon") orph->GetTxToReconsider(vd::ll(o.at(1)));
        else if (o[0] == "kids") {}
        else throw std::runtime_error("bad op");
    }
    return orph;
}

static std::string run_case(const std::vector<std::string>& w)
{
    Script s = parse(w);
    std::string out;
    for (auto& [lab, tx] : s.tx) out += (out.empty() ? "" : " ") + std::string("W") + std::to_string(lab) + "=" + std::to_string(GetTransactionWeight(*tx));
    std::vector<uint64_t> seeds(s.ops.size(), 0);
    auto orph = node::MakeTxOrphanage(s.G, s.R);
    for (size_t i = 0; i < s.ops.size(); ++i) {
        auto& o = s.ops[i];
        out += " |";
        if (o[0] == "add") out += std::string(" r=") + (orph->AddTx(s.tx.at(vd::ll(o.at(1))), vd::ll(o.at(2))) ? "1" : "0");
        else if (o[0] == "ann") out += std::string(" r=") + (orph->AddAnnouncer(s.tx.at(vd::ll(o.at(1)))->GetWitnessHash(), vd::ll(o.at(2))) ? "1" : "0");
        else if (o[0] == "erase") out += std::string(" r=") + (orph->EraseTx(s.tx.at(vd::ll(o.at(1)))->GetWitnessHash()) ? "1" : "0");
        else if (o[0] == "work") {
            // announcers before the call, to evaluate the selection rule
            std::map<long long, std::vector<NodeId>> an;
            for (auto& info : orph->GetOrphanTransactions()) an[s.label.at(info.tx->GetWitnessHash())] = std::vector<NodeId>(info.announcers.begin(), info.announcers.end());
            long long salt = vd::ll(o.at(2));
            bool found = false;
            std::vector<std::pair<Wtxid, NodeId>> res;
            for (uint64_t seed = 0; seed < 4000 && !found; ++seed) {
                seeds[i] = seed;
                auto pre = replay(s, seeds, i);  // a fresh orphanage in the state before this operation
                uint256 sd; for (int k = 0; k < 8; ++k) sd.data()[k] = (unsigned char)(seed >> (8 * k));
                FastRandomContext rng(sd);
                res = pre->AddChildrenToWorkSet(*s.tx.at(vd::ll(o.at(1))), rng);
                bool ok = true;
                for (auto& [wt, peer] : res) {
                    long long lab = s.label.at(wt);
                    auto& v = an.at(lab);
                    if (v[(size_t)((salt + lab) % (long long)v.size())] != peer) { ok = false; break; }
                }
                if (ok) { found = true; orph = std::move(pre); }
            }
            if (!found) return out + " NOMATCH";
            std::vector<std::string> items;
            for (auto& [wt, peer] : res) items.push_back(std::to_string(s.label.at(wt)) + ":" + std::to_string(peer));
            std::sort(items.begin(), items.end());
            out += " r=";
            for (size_t k = 0; k < items.size(); ++k) out += (k ? "," : "") + items[k];
        } else if (o[0] == "recon") {
            auto tx = orph->GetTxToReconsider(vd::ll(o.at(1)));
            out += " r=" + (tx ? std::to_string(s.label.at(tx->GetWitnessHash())) : std::string("-"));
        } else if (o[0] == "kids") {
            auto v = orph->GetChildrenFromSamePeer(s.tx.at(vd::ll(o.at(1))), vd::ll(o.at(2)));
            out += " r=";
            for (size_t k = 0; k < v.size(); ++k) out += (k ? "," : "") + std::to_string(s.label.at(v[k]->GetWitnessHash()));
        } else {
            // peer / block: same code path as in replay
            if (o[0] == "peer") orph->EraseForPeer(vd::ll(o.at(1)));
            else if (o[0] == "block") {
                CBlock b; CMutableTransaction m; m.version = 2;
                for (auto& op : parse_outpoints(s, o.at(1))) m.vin.emplace_back(op, CScript(), 0);
                m.vout.emplace_back(CAmount{0}, CScript() << OP_TRUE);
                b.vtx.push_back(MakeTransactionRef(m));
                orph->EraseForBlock(b);
            } else throw std::runtime_error("bad op");
        }
        orph->SanityCheck();
        out += digest(s, *orph);
    }
    return out;
}

static sigjmp_buf g_jmp;
static volatile sig_atomic_t g_sig = 0;
static void on_fatal(int sig) { g_sig = sig; siglongjmp(g_jmp, 1); }

int main(int argc, char** argv)
{
    struct sigaction sa{};
    sa.sa_handler = on_fatal;
    sa.sa_flags = SA_NODEFER;
    sigaction(SIGABRT, &sa, nullptr);
    sigaction(SIGSEGV, &sa, nullptr);
    sigaction(SIGFPE, &sa, nullptr);
    return vd::main_loop([&](const std::vector<std::string>& w, const std::string&) -> std::string {
        if (sigsetjmp(g_jmp, 1) != 0) return "CRASH signal=" + std::to_string((int)g_sig);
        return run_case(w);
    });
}
