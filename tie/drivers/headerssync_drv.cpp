// C++ side of the headerssync family (C33): drives the real HeadersSyncState.
//   hs <period> <offset> <buffer> <secs> <minwork> <start_height> <start_bits> <start_work> | <call> ; <call> ...
//   <call> = F|P <hdr>,<hdr>,...      F = full headers message      <hdr> = id:prev:bits:cbit
//   -> per call "success request_more STATE ids-of-pow_validated_headers" joined by " ; "
// Abstract header ids are turned into real CBlockHeaders (prevhash = hash of the real header of
// `prev`, merkle root = id); the nonce is ground until the object's own salted hash bit equals cbit.
// m_max_commitments is fixed through the mock clock, m_commit_offset by re-constructing the object.
#include <algorithm>
#include <deque>
#include <functional>
#include <map>
#include <memory>
#include <optional>
#include <span>
#include <string>
#include <vector>
#include <drv_common.h>
#include <arith_uint256.h>
#include <chain.h>
#include <kernel/chainparams.h>
#include <net.h>
#include <pow.h>
#include <primitives/block.h>
#include <uint256.h>
#include <util/bitdeque.h>
#include <util/hasher.h>
#include <util/time.h>
#define private public
#define protected public
#include <headerssync.h>
#undef private
#undef protected

namespace {
constexpr int64_t T0{1600000000};

uint256 id_to_u256(int64_t id, unsigned char tag)
{
    uint256 u;
    unsigned char* p = u.begin();
    for (int i = 0; i < 8; ++i) p[i] = (unsigned char)((uint64_t)id >> (8 * i));
    p[31] = tag;
    return u;
}

struct Hdr { int64_t id; int64_t prev; uint32_t bits; bool cbit; };

std::vector<std::string> split(const std::string& s, char sep)
{
    std::vector<std::string> out;
    size_t start = 0;
    while (true) {
        size_t p = s.find(sep, start);
        if (p == std::string::npos) { out.push_back(s.substr(start)); break; }
        out.push_back(s.substr(start, p - start));
        start = p + 1;
    }
    return out;
}
} // namespace

int main(int argc, char** argv)
{
    const auto chain_main{CChainParams::Main()};
    const Consensus::Params& consensus{chain_main->GetConsensus()};
    return vd::main_loop([&](const std::vector<std::string>& w, const std::string&) -> std::string {
        if (w.size() < 10 || w[0] != "hs" || w[9] != "|") return "BADCASE";
        HeadersSyncParams params;
        params.commitment_period = (size_t)vd::ull(w[1]);
        const size_t offset = (size_t)vd::ull(w[2]);
        params.redownload_buffer_size = (size_t)vd::ull(w[3]);
        const int64_t secs = vd::ll(w[4]);
        const arith_uint256 min_work{(uint64_t)vd::ull(w[5])};

        CBlockIndex start;
        start.nVersion = 1;
        start.hashMerkleRoot = id_to_u256(0, 0x53);
        start.nHeight = (int)vd::ll(w[6]);
        start.nBits = (uint32_t)vd::ull(w[7]);
        start.nTime = (uint32_t)T0;
        start.nChainWork = arith_uint256{(uint64_t)vd::ull(w[8])};
        // the object compares with m_chain_start.GetBlockHeader().GetHash() and with GetBlockHash(): make them agree
        const uint256 start_hash{start.GetBlockHeader().GetHash()};
        start.phashBlock = &start_hash;

        // max_seconds_since_start = (now - MTP(start)) + MAX_FUTURE_BLOCK_TIME = secs
        SetMockTime(std::chrono::seconds{T0 + secs - MAX_FUTURE_BLOCK_TIME});

        std::unique_ptr<HeadersSyncState> hss;
        for (int tries = 0; tries < 100000; ++tries) {
            hss = std::make_unique<HeadersSyncState>(/*id=*/0, consensus, params, start, min_work);
            if (hss->m_commit_offset == offset) break;
            hss.reset();
        }
        if (!hss) return "NO-OFFSET";

        std::map<int64_t, uint256> hash_of{{0, start_hash}};
        std::map<uint256, int64_t> id_of{{start_hash, 0}};
        auto real = [&](const Hdr& h) {
            CBlockHeader b;
            b.nVersion = 1;
            auto it = hash_of.find(h.prev);
            b.hashPrevBlock = it != hash_of.end() ? it->second : id_to_u256(h.prev, 0xEE);
            b.hashMerkleRoot = id_to_u256(h.id, 0x4D);
            b.nTime = (uint32_t)T0 + 1;
            b.nBits = h.bits;
            b.nNonce = 0;
            while (bool(hss->m_hasher(b.GetHash()) & 1) != h.cbit) ++b.nNonce;
            hash_of[h.id] = b.GetHash();
            id_of[b.GetHash()] = h.id;
            return b;
        };

        std::string out;
        // the calls: tokens after "|" up to ";"
        size_t i = 10;
        while (i < w.size()) {
            const bool full = w[i] == "F";
            ++i;
            std::vector<CBlockHeader> batch;
            if (i < w.size() && w[i] != ";") {
                for (const std::string& hs : split(w[i], ',')) {
                    const auto f = split(hs, ':');
                    if (f.size() != 4) return "BADHDR";
                    batch.push_back(real(Hdr{vd::ll(f[0]), vd::ll(f[1]), (uint32_t)vd::ull(f[2]), f[3] == "1"}));
                }
                ++i;
            }
            if (i < w.size() && w[i] == ";") ++i;
            if (batch.empty()) { out += (out.empty() ? "" : " ; ") + std::string("EMPTY"); continue; }
            if (hss->GetState() == HeadersSyncState::State::FINAL) { out += (out.empty() ? "" : " ; ") + std::string("FINAL"); continue; }
            const auto r = hss->ProcessNextHeaders(batch, full);
            std::string o = std::string(r.success ? "1" : "0") + " " + (r.request_more ? "1" : "0") + " ";
            switch (hss->GetState()) {
            case HeadersSyncState::State::PRESYNC: o += "PRESYNC"; break;
            case HeadersSyncState::State::REDOWNLOAD: o += "REDOWNLOAD"; break;
            case HeadersSyncState::State::FINAL: o += "FINAL"; break;
            }
            for (const CBlockHeader& h : r.pow_validated_headers) {
                auto it = id_of.find(h.GetHash());
                o += " " + (it != id_of.end() ? std::to_string(it->second) : std::string("?"));
                // the released header must also carry the prevhash of the received one
                auto ip = id_of.find(h.hashPrevBlock);
                o += "<" + (ip != id_of.end() ? std::to_string(ip->second) : std::string("?"));
            }
            out += (out.empty() ? "" : " ; ") + o;
        }
        return out.empty() ? "-" : out;
    });
}
