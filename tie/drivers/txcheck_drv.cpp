// C++ side of C03: builds a real CTransaction from the shape line and calls CheckTransaction.
#include <drv_common.h>
#include <arith_uint256.h>
#include <consensus/tx_check.h>
#include <consensus/validation.h>
#include <primitives/transaction.h>
#include <serialize.h>
#include <uint256.h>

int main()
{
    return vd::main_loop([&](const std::vector<std::string>& w, const std::string&) -> std::string {
        if (w.empty() || w[0] != "checktx") return "BADCASE";
        size_t p = 1;
        CMutableTransaction mtx;
        size_t nin = vd::ull(w.at(p++));
        for (size_t i = 0; i < nin; ++i) {
            uint64_t h = vd::ull(w.at(p++));
            uint32_t n = (uint32_t)vd::ull(w.at(p++));
            size_t sl = vd::ull(w.at(p++));
            CTxIn in;
            in.prevout = COutPoint(Txid::FromUint256(ArithToUint256(arith_uint256(h))), n);
            { std::vector<unsigned char> b(sl, 0x51); in.scriptSig = CScript(b.begin(), b.end()); }
            in.nSequence = 0xfffffffe;
            mtx.vin.push_back(in);
        }
        size_t nout = vd::ull(w.at(p++));
        for (size_t i = 0; i < nout; ++i) {
            CAmount v = vd::ll(w.at(p++));
            size_t sl = vd::ull(w.at(p++));
            CTxOut out;
            out.nValue = v;
            { std::vector<unsigned char> b(sl, 0x6a); out.scriptPubKey = CScript(b.begin(), b.end()); }
            mtx.vout.push_back(out);
        }
        size_t wit = p < w.size() ? vd::ull(w.at(p++)) : 0;
        if (wit && !mtx.vin.empty()) {
            for (size_t k = 0; k < wit; ++k) mtx.vin[0].scriptWitness.stack.push_back(std::vector<unsigned char>(33 + k, 7));
        }
        CTransaction tx(mtx);
        TxValidationState st;
        bool ok = CheckTransaction(tx, st);
        std::string r = ok ? "ok" : st.GetRejectReason();
        return r + " " + std::to_string(::GetSerializeSize(TX_NO_WITNESS(tx)));
    });
}
