// C++ side of C63 (validation notifications).  Runs an op script against the REAL node (fresh TestChain100Setup:
// regtest, 100 blocks, ValidationSignals on a SerialTaskRunner serviced by the real scheduler thread) with a
// recording CValidationInterface subscriber, and prints the notifications in the order the subscriber received
// them, interleaved with markers that carry what the node's state REALLY was when the marker was enqueued
// (active chain and mempool read synchronously under the locks by the validation thread).
//
// case line:  [flag ...;] op ; op ; ...
//   flags: ibd     the chainstate manager is put back into initial block download (and the clock moved two days
//                  ahead so that it stays there)
//          nosync  the queue is only drained at the end (otherwise after every op)
//   tx <name> <in> <fee> <nout>     define a transaction spending <in> = f<k> (fixture coinbase k) or <tx>:<n>,
//                                   with nout equal P2WSH(OP_TRUE) outputs
//   atmp <name>                     ChainstateManager::ProcessTransaction
//   mine <name> <parent> <ok|bad> <tx>*    build a block on <parent> (F = fixture tip or a block name) holding the
//                                   named transactions; bad = the coinbase claims too much (fails in ConnectBlock);
//                                   then ProcessNewBlock(force_processing)
//   inv <blk> / recon <blk>         the bodies of the invalidateblock / reconsiderblock RPCs
//   time <seconds>                  move the mock clock forward
//   expire                          CTxMemPool::Expire(now - expiry)
//   trim                            CTxMemPool::TrimToSize(DynamicMemoryUsage() - 1)  (evicts the worst chunk)
//   limit <cur|max>                 max_size_bytes := the pool's current usage (so that the next accepted transaction
//                                   makes LimitMempoolSize evict) / back to the default
// output:  <event> <event> ... | <op results>
//   D:<blk>:<prev>:<height>:<txs>   BlockDisconnected (block hash, hashPrevBlock == pindex->pprev else "!", height
//                                   relative to F, non-coinbase transactions)
//   C:<blk>:<prev>:<height>:<txs>   BlockConnected
//   U:<new>:<fork>                  UpdatedBlockTip
//   A:<tx>  R:<tx>:<reason>  B:<blk>:<height>:<txs>    TransactionAddedToMempool / RemovedFromMempool /
//                                   MempoolTransactionsRemovedForBlock
//   M:<chain tip first, down to F>:<pool, sorted>      marker (state when enqueued)
#define VERIF_NO_TEST_GLOBALS
#include <drv_common.h>
#include <unistd.h>
extern const std::function<void(const std::string&)> G_TEST_LOG_FUN;
extern const std::function<std::vector<const char*>()> G_TEST_COMMAND_LINE_ARGUMENTS;
extern const std::function<std::string()> G_TEST_GET_FULL_NAME;
const std::function<void(const std::string&)> G_TEST_LOG_FUN{};
const std::function<std::vector<const char*>()> G_TEST_COMMAND_LINE_ARGUMENTS{[]() { return std::vector<const char*>{}; }};
const std::function<std::string()> G_TEST_GET_FULL_NAME{[]() { return std::string{"verif_notify_"} + std::to_string(getpid()); }};

#include <chain.h>
#include <chainparams.h>
#include <consensus/amount.h>
#include <consensus/merkle.h>
#include <consensus/validation.h>
#include <kernel/mempool_entry.h>
#include <kernel/mempool_removal_reason.h>
#include <key.h>
#include <node/blockstorage.h>
#include <pow.h>
#include <primitives/block.h>
#include <primitives/transaction.h>
#include <script/interpreter.h>
#include <script/script.h>
#include <test/util/script.h>
#include <test/util/setup_common.h>
#include <test/util/validation.h>
#include <txmempool.h>
#include <uint256.h>
#include <univalue.h>
#include <validation.h>
#include <validationinterface.h>

#include <algorithm>
#include <filesystem>
#include <fstream>
#include <map>
#include <memory>
#include <mutex>
#include <sys/wait.h>

void InvalidateBlock(ChainstateManager& chainman, const uint256 block_hash);
void ReconsiderBlock(ChainstateManager& chainman, uint256 block_hash);

namespace {
std::vector<std::string> split(const std::string& s, char sep)
{
    std::vector<std::string> out;
    std::string cur;
    for (char c : s) {
        if (c == sep) { out.push_back(cur); cur.clear(); } else cur.push_back(c);
    }
    out.push_back(cur);
    return out;
}

// A recorded notification: everything is kept as hashes and named on the main thread afterwards (the name tables
// are written by the main thread while the scheduler thread delivers).
struct Ev {
    char kind;                  // D C U A R B M
    uint256 a, b, c;            // block, hashPrevBlock, pindex->pprev hash | new, fork | tx
    int height{0};
    std::string reason;
    std::vector<uint256> txs;   // block txs / removed-for-block / marker: chain
    std::vector<uint256> pool;  // marker: pool
};

struct Recorder final : public CValidationInterface {
    std::mutex m;
    std::vector<Ev> ev;
    void push(Ev e) { std::lock_guard<std::mutex> l(m); ev.push_back(std::move(e)); }

    static std::vector<uint256> noncb(const CBlock& b)
    {
        std::vector<uint256> v;
        for (size_t i = 1; i < b.vtx.size(); ++i) v.push_back(b.vtx[i]->GetHash().ToUint256());
        return v;
    }
    void UpdatedBlockTip(const CBlockIndex* pindexNew, const CBlockIndex* pindexFork, bool) override
    {
        Ev e; e.kind = 'U'; e.a = pindexNew->GetBlockHash(); e.b = pindexFork ? pindexFork->GetBlockHash() : uint256{};
        push(std::move(e));
    }
    void BlockConnected(const kernel::ChainstateRole&, const std::shared_ptr<const CBlock>& block, const CBlockIndex* pindex) override
    {
        Ev e; e.kind = 'C'; e.a = block->GetHash(); e.b = block->hashPrevBlock; e.c = pindex->pprev ? pindex->pprev->GetBlockHash() : uint256{};
        if (pindex->GetBlockHash() != e.a) e.c = uint256{};   // the index entry must be the block's
        e.height = pindex->nHeight; e.txs = noncb(*block);
        push(std::move(e));
    }
    void BlockDisconnected(const std::shared_ptr<const CBlock>& block, const CBlockIndex* pindex) override
    {
        Ev e; e.kind = 'D'; e.a = block->GetHash(); e.b = block->hashPrevBlock; e.c = pindex->pprev ? pindex->pprev->GetBlockHash() : uint256{};
        if (pindex->GetBlockHash() != e.a) e.c = uint256{};
        e.height = pindex->nHeight; e.txs = noncb(*block);
        push(std::move(e));
    }
    void TransactionAddedToMempool(const NewMempoolTransactionInfo& tx, uint64_t) override
    {
        Ev e; e.kind = 'A'; e.a = tx.info.m_tx->GetHash().ToUint256();
        push(std::move(e));
    }
    void TransactionRemovedFromMempool(const CTransactionRef& tx, MemPoolRemovalReason reason, uint64_t) override
    {
        Ev e; e.kind = 'R'; e.a = tx->GetHash().ToUint256(); e.reason = RemovalReasonToString(reason);
        push(std::move(e));
    }
    void MempoolTransactionsRemovedForBlock(const std::shared_ptr<const CBlock>& block, const std::vector<RemovedMempoolTransactionInfo>& txs, unsigned int height) override
    {
        Ev e; e.kind = 'B'; e.a = block->GetHash(); e.height = (int)height;
        for (const auto& t : txs) e.txs.push_back(t.info.m_tx->GetHash().ToUint256());
        push(std::move(e));
    }
};

struct TxDef { CTransactionRef tx; CAmount out_value{0}; };
struct Blk { std::shared_ptr<CBlock> block; uint256 hash; int height{0}; uint32_t time{0}; };

struct Run {
    std::unique_ptr<TestChain100Setup> setup;
    std::shared_ptr<Recorder> rec;
    std::map<std::string, TxDef> txs;
    std::map<uint256, std::string> tx_names;
    std::map<std::string, Blk> blocks;
    std::map<uint256, std::string> block_names;
    const CBlockIndex* fixture_tip{nullptr};
    int counter{0};
    bool sync_each{true};
    CScript p2pk;
    std::vector<std::string> results;

    ChainstateManager& cm() { return *setup->m_node.chainman; }
    CTxMemPool& pool() { return *setup->m_node.mempool; }
    ValidationSignals& sig() { return *setup->m_node.validation_signals; }

    Run(bool ibd, bool sync) : sync_each(sync)
    {
        TestOpts opts;
        opts.extra_args = {"-nodebuglogfile", "-nodebug"};
        setup = std::make_unique<TestChain100Setup>(ChainType::REGTEST, opts);
        p2pk = CScript() << ToByteVector(setup->coinbaseKey.GetPubKey()) << OP_CHECKSIG;
        {
            LOCK(cs_main);
            fixture_tip = cm().ActiveChain().Tip();
        }
        Blk f; f.hash = fixture_tip->GetBlockHash(); f.height = fixture_tip->nHeight; f.time = fixture_tip->nTime;
        blocks["F"] = f;
        block_names[f.hash] = "F";
        for (int h = 1; h <= f.height; ++h) {
            TxDef d; d.tx = setup->m_coinbase_txns.at(h - 1); d.out_value = d.tx->vout[0].nValue;
            std::string n = "f" + std::to_string(h);
            txs[n] = d; tx_names[d.tx->GetHash().ToUint256()] = n;
        }
        sig().SyncWithValidationInterfaceQueue();
        if (ibd) {
            setup->m_clock += std::chrono::hours{48};
            static_cast<TestChainstateManager&>(cm()).ResetIbd();
        }
        rec = std::make_shared<Recorder>();
        sig().RegisterSharedValidationInterface(rec);
    }

    std::string bname(const uint256& h) const { auto it = block_names.find(h); return it == block_names.end() ? "?" : it->second; }
    std::string tname(const uint256& h) const { auto it = tx_names.find(h); return it == tx_names.end() ? "?" : it->second; }

    void def_tx(const std::vector<std::string>& w)
    {
        const std::string& name = w.at(1);
        if (txs.count(name) || blocks.count(name)) throw std::runtime_error("BADSCRIPT");
        const std::string& in = w.at(2);
        CAmount fee = vd::ll(w.at(3));
        int nout = (int)vd::ll(w.at(4));
        if (nout < 1 || nout > 50) throw std::runtime_error("BADSCRIPT");
        CMutableTransaction mtx;
        mtx.version = 2;
        mtx.nLockTime = (uint32_t)(++counter);   // ignored (final sequence); makes every definition a distinct txid
        CTxIn txin;
        txin.nSequence = CTxIn::SEQUENCE_FINAL;
        CAmount in_value;
        bool fixture = false;
        size_t c = in.rfind(':');
        if (c == std::string::npos) {
            auto it = txs.find(in);
            if (it == txs.end() || in[0] != 'f') throw std::runtime_error("BADSCRIPT");
            txin.prevout = COutPoint(it->second.tx->GetHash(), 0);
            in_value = it->second.out_value;
            fixture = true;
        } else {
            auto it = txs.find(in.substr(0, c));
            if (it == txs.end()) throw std::runtime_error("BADSCRIPT");
            uint32_t n = (uint32_t)vd::ull(in.substr(c + 1));
            if (n >= it->second.tx->vout.size()) throw std::runtime_error("BADSCRIPT");
            txin.prevout = COutPoint(it->second.tx->GetHash(), n);
            in_value = it->second.tx->vout[n].nValue;
            txin.scriptWitness.stack.push_back(WITNESS_STACK_ELEM_OP_TRUE);
        }
        mtx.vin.push_back(txin);
        CAmount each = (in_value - fee) / nout;
        if (each < 1000) throw std::runtime_error("BADSCRIPT");
        for (int i = 0; i < nout; ++i) mtx.vout.emplace_back(each, P2WSH_OP_TRUE);
        // the remainder of the division goes to the first output so that the fee is exactly `fee`
        mtx.vout[0].nValue += (in_value - fee) - each * nout;
        if (fixture) {
            uint256 hash = SignatureHash(p2pk, mtx, 0, SIGHASH_ALL, 0, SigVersion::BASE);
            std::vector<unsigned char> sg;
            if (!setup->coinbaseKey.Sign(hash, sg)) throw std::runtime_error("sign failed");
            sg.push_back((unsigned char)SIGHASH_ALL);
            mtx.vin[0].scriptSig = CScript() << sg;
        }
        TxDef d; d.tx = MakeTransactionRef(mtx); d.out_value = each;
        if (tx_names.count(d.tx->GetHash().ToUint256())) throw std::runtime_error("BADSCRIPT");
        txs[name] = d;
        tx_names[d.tx->GetHash().ToUint256()] = name;
    }

    std::string mine(const std::vector<std::string>& w)
    {
        const std::string& name = w.at(1);
        if (txs.count(name) || blocks.count(name) || !blocks.count(w.at(2))) throw std::runtime_error("BADSCRIPT");
        const Blk& p = blocks.at(w.at(2));
        bool bad = w.at(3) == "bad";
        const Consensus::Params& cons = cm().GetConsensus();
        Blk b;
        b.height = p.height + 1;
        b.time = p.time + 1;
        auto blk = std::make_shared<CBlock>();
        blk->nVersion = 0x20000000;
        blk->hashPrevBlock = p.hash;
        blk->nTime = b.time;
        blk->nBits = fixture_tip->nBits;
        blk->nNonce = 0;
        CMutableTransaction cb;
        cb.version = 2;
        cb.vin.resize(1);
        cb.vin[0].prevout.SetNull();
        cb.vin[0].scriptSig = CScript() << b.height << CScriptNum(++counter) << OP_0;
        cb.vin[0].nSequence = CTxIn::SEQUENCE_FINAL;
        cb.vout.emplace_back(GetBlockSubsidy(b.height, cons) + (bad ? 10 * COIN : 0), P2WSH_OP_TRUE);
        blk->vtx.push_back(MakeTransactionRef(std::move(cb)));
        for (size_t i = 4; i < w.size(); ++i) {
            auto it = txs.find(w[i]);
            if (it == txs.end()) throw std::runtime_error("BADSCRIPT");
            blk->vtx.push_back(it->second.tx);
        }
        cm().GenerateCoinbaseCommitment(*blk, fixture_tip);
        blk->hashMerkleRoot = BlockMerkleRoot(*blk);
        while (!CheckProofOfWork(blk->GetHash(), blk->nBits, cons)) ++blk->nNonce;
        b.block = blk;
        b.hash = blk->GetHash();
        blocks[name] = b;
        block_names[b.hash] = name;
        bool nb = false;
        bool ok = cm().ProcessNewBlock(std::make_shared<const CBlock>(*blk), /*force_processing=*/true, /*min_pow_checked=*/true, &nb);
        return std::string("m") + (ok ? "1" : "0");
    }

    void marker()
    {
        Ev e; e.kind = 'M';
        {
            LOCK(cs_main);
            for (const CBlockIndex* p = cm().ActiveChain().Tip(); p; p = p->pprev) {
                e.txs.push_back(p->GetBlockHash());
                if (p == fixture_tip || p->nHeight < fixture_tip->nHeight) break;
            }
        }
        for (const auto& info : pool().infoAll()) e.pool.push_back(info.tx->GetHash().ToUint256());
        auto r = rec;
        sig().CallFunctionInValidationInterfaceQueue([r, e]() { r->push(e); });
        if (sync_each) sig().SyncWithValidationInterfaceQueue();
    }

    void op(const std::vector<std::string>& w)
    {
        const std::string& o = w[0];
        if (o == "tx" && w.size() == 5) { def_tx(w); return; }
        std::string r;
        if (o == "mine" && w.size() >= 4) r = mine(w);
        else if (o == "atmp" && w.size() == 2) {
            auto it = txs.find(w[1]);
            if (it == txs.end()) throw std::runtime_error("BADSCRIPT");
            LOCK(cs_main);
            const MempoolAcceptResult res = cm().ProcessTransaction(it->second.tx);
            r = "a:" + w[1] + ":" + (res.m_result_type == MempoolAcceptResult::ResultType::VALID ? std::string("ok") : res.m_state.GetRejectReason());
            for (char& ch : r) if (ch == ' ') ch = '_';
        } else if ((o == "inv" || o == "recon") && w.size() == 2) {
            auto it = blocks.find(w[1]);
            if (it == blocks.end() || w[1] == "F") throw std::runtime_error("BADSCRIPT");
            r = o == "inv" ? "i" : "r";
            try {
                if (o == "inv") InvalidateBlock(cm(), it->second.hash); else ReconsiderBlock(cm(), it->second.hash);
                r += "ok";
            } catch (const UniValue&) { r += "err"; }
        } else if (o == "time" && w.size() == 2) {
            setup->m_clock += std::chrono::seconds{vd::ll(w[1])};
            r = "t";
        } else if (o == "expire" && w.size() == 1) {
            LOCK2(cs_main, pool().cs);
            int n = pool().Expire(GetTime<std::chrono::seconds>() - pool().m_opts.expiry);
            r = "e" + std::to_string(n);
        } else if (o == "trim" && w.size() == 1) {
            LOCK2(cs_main, pool().cs);
            size_t u = pool().DynamicMemoryUsage();
            if (u > 0) pool().TrimToSize(u - 1);
            r = "x";
        } else if (o == "limit" && w.size() == 2) {
            LOCK2(cs_main, pool().cs);
            int64_t& lim = const_cast<int64_t&>(pool().m_opts.max_size_bytes);
            lim = w[1] == "cur" ? (int64_t)pool().DynamicMemoryUsage() : 300000000;
            r = "l";
        } else throw std::runtime_error("BADSCRIPT");
        results.push_back(r);
        marker();
    }

    std::string names(const std::vector<uint256>& v, bool blocks_) const
    {
        std::string s;
        for (const auto& h : v) { if (!s.empty()) s += ","; s += blocks_ ? bname(h) : tname(h); }
        return s.empty() ? "-" : s;
    }

    std::string finish()
    {
        sig().SyncWithValidationInterfaceQueue();
        sig().UnregisterSharedValidationInterface(rec);
        sig().SyncWithValidationInterfaceQueue();
        std::string out;
        std::lock_guard<std::mutex> l(rec->m);
        const int base = fixture_tip->nHeight;
        for (const Ev& e : rec->ev) {
            std::string t;
            switch (e.kind) {
            case 'D': case 'C':
                t = std::string(1, e.kind) + ":" + bname(e.a) + ":" + (e.b == e.c ? bname(e.b) : std::string("!")) + ":" + std::to_string(e.height - base) + ":" + names(e.txs, false);
                break;
            case 'U': t = "U:" + bname(e.a) + ":" + bname(e.b); break;
            case 'A': t = "A:" + tname(e.a); break;
            case 'R': t = "R:" + tname(e.a) + ":" + e.reason; break;
            case 'B': t = "B:" + bname(e.a) + ":" + std::to_string(e.height - base) + ":" + names(e.txs, false); break;
            case 'M': {
                std::vector<std::string> p;
                for (const auto& h : e.pool) p.push_back(tname(h));
                std::sort(p.begin(), p.end());
                std::string ps;
                for (const auto& x : p) { if (!ps.empty()) ps += ","; ps += x; }
                t = "M:" + names(e.txs, true) + ":" + (ps.empty() ? "-" : ps);
                break;
            }
            }
            if (!out.empty()) out += " ";
            out += t;
        }
        out += " |";
        for (const auto& r : results) out += " " + r;
        return out;
    }
};

std::string run_case(const std::string& line)
{
    std::vector<std::string> ops = split(line, ';');
    bool ibd = false, sync = true;
    size_t start = 0;
    if (!ops.empty()) {
        auto w0 = vd::words(ops[0]);
        bool flags = !w0.empty();
        for (const auto& x : w0) if (x != "ibd" && x != "nosync" && x != "plain") flags = false;
        if (flags) {
            for (const auto& x : w0) { if (x == "ibd") ibd = true; if (x == "nosync") sync = false; }
            start = 1;
        }
    }
    Run run(ibd, sync);
    run.marker();
    for (size_t i = start; i < ops.size(); ++i) {
        auto w = vd::words(ops[i]);
        if (w.empty()) continue;
        run.op(w);
    }
    return run.finish();
}

std::string guarded(const std::string& line)
{
    try {
        return run_case(line);
    } catch (const std::exception& e) {
        if (std::string(e.what()) == "BADSCRIPT") return "BADSCRIPT";
        return std::string("EXC ") + e.what();
    }
}

void cleanup_dir()
{
    std::error_code ec;
    std::filesystem::remove_all(std::filesystem::temp_directory_path() / "test_common bitcoin" / G_TEST_GET_FULL_NAME(), ec);
}
} // namespace

int main(int argc, char** argv)
{
    std::vector<std::string> lines;
    std::string line;
    while (std::getline(std::cin, line)) lines.push_back(line);
    const size_t n = lines.size();
    if (n == 0) return 0;
    size_t workers = std::min<size_t>(10, std::max<size_t>(1, n / 3));
    if (const char* e = getenv("VERIF_NOTIFY_WORKERS")) workers = std::max(1, atoi(e));
    // fork before any thread or fixture exists; a worker that dies (an assertion of the node) reports CRASH for the
    // case it was on and a new worker takes over the rest
    std::string base = "/tmp/verif_notify_" + std::to_string(getpid()) + "_";
    std::vector<std::string> result(n);
    std::vector<std::vector<size_t>> batches(workers);
    for (size_t i = 0; i < n; ++i) batches[i % workers].push_back(i);
    int round = 0;
    while (!batches.empty()) {
        std::vector<pid_t> pids;
        for (size_t k = 0; k < batches.size(); ++k) {
            pid_t p = fork();
            if (p < 0) { perror("fork"); return 2; }
            if (p == 0) {
                std::ofstream f(base + std::to_string(k));
                for (size_t i : batches[k]) { f << guarded(lines[i]) << "\n"; f.flush(); }
                f.close();
                cleanup_dir();
                _exit(0);
            }
            pids.push_back(p);
        }
        for (pid_t p : pids) { int st = 0; waitpid(p, &st, 0); }
        std::vector<std::vector<size_t>> next;
        for (size_t k = 0; k < batches.size(); ++k) {
            std::ifstream f(base + std::to_string(k));
            std::string l;
            size_t j = 0;
            while (j < batches[k].size() && std::getline(f, l)) result[batches[k][j++]] = l;
            f.close();
            std::remove((base + std::to_string(k)).c_str());
            if (j < batches[k].size()) {
                result[batches[k][j]] = "CRASH the node aborted (assertion or uncaught exception) while running this case";
                std::vector<size_t> rest(batches[k].begin() + j + 1, batches[k].end());
                if (!rest.empty()) next.push_back(rest);
            }
        }
        batches = next;
        if (++round > 100000) break;
    }
    for (size_t i = 0; i < n; ++i) std::cout << result[i] << "\n";
    std::cout.flush();
    return 0;
}
