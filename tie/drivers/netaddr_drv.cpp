// C++ side of the netaddr family (C60): the REAL CNetAddr / CSubNet / BanMan / LookupSubNet of the current tree.
// Network classes are the enum Network values: 1 IPv4, 2 IPv6, 3 onion, 4 I2P, 5 CJDNS, 6 internal.
//   mc <cb> <hexbase> <prefix> <ca> <hexaddr>     CSubNet(base, prefix)      -> valid nethex maskhex match
//   mm <cb> <hexbase> <hexmask> <ca> <hexaddr>    CSubNet(base, maskaddr)    -> same
//   ms <cb> <hexbase> <ca> <hexaddr>              CSubNet(base)              -> same
//   iv <c> <hex>                                  IsValid
//   s1|s2 <c> <hex>                               ADDRv1 / ADDRv2 serialisation (hex)
//   u1|u2 <hexstream>                             unserialise: <c> <hex> <valid> <resthex> | FAIL
//   str <c> <hex> <prefix|-1>                     ToString then LookupHost/LookupSubNet gives the same value: 0/1
//   ban <default_ban_time> <t0> <op>...           BanMan script under mock time (see props/C60.py)
#include <drv_common.h>

#include <addrdb.h>
#include <banman.h>
#include <netaddress.h>
#include <netbase.h>
#include <net_types.h>
#include <streams.h>
#include <util/fs.h>
#include <util/time.h>

#include <algorithm>
#include <arpa/inet.h>
#include <memory>
#include <optional>
#include <unistd.h>

namespace {
std::vector<std::string> split(const std::string& s, char c)
{
    std::vector<std::string> out;
    std::string cur;
    for (char ch : s) {
        if (ch == c) { out.push_back(cur); cur.clear(); } else cur.push_back(ch);
    }
    out.push_back(cur);
    return out;
}

// Build a CNetAddr of a given class from raw bytes, using only public interfaces.
std::optional<CNetAddr> mk(int net, const std::vector<unsigned char>& b)
{
    CNetAddr a;
    try {
        switch (net) {
        case 1: {
            if (b.size() != 4) return std::nullopt;
            in_addr v4; memcpy(&v4, b.data(), 4);
            return CNetAddr{v4};
        }
        case 2: case 3: case 4: case 5: {
            static const unsigned char ids[] = {0, 0, 2, 4, 5, 6};
            DataStream s;
            s << (uint8_t)ids[net];
            WriteCompactSize(s, b.size());
            s.write(MakeByteSpan(b));
            s >> CNetAddr::V2(a);
            if ((int)a.GetNetClass() != net && !(net == 2)) { /* class check below */ }
            return a;
        }
        case 6: {
            if (b.size() != 10) return std::nullopt;
            std::vector<unsigned char> v(INTERNAL_IN_IPV6_PREFIX.begin(), INTERNAL_IN_IPV6_PREFIX.end());
            v.insert(v.end(), b.begin(), b.end());
            DataStream s;
            s.write(MakeByteSpan(v));
            s >> CNetAddr::V1(a);
            return a;
        }
        }
    } catch (const std::exception&) {
    }
    return std::nullopt;
}
int net_code(const CNetAddr& a)
{
    if (a.IsInternal()) return 6;
    if (a.IsIPv4()) return 1;
    if (a.IsIPv6()) return 2;
    if (a.IsTor()) return 3;
    if (a.IsI2P()) return 4;
    if (a.IsCJDNS()) return 5;
    return 0;
}
// raw m_addr bytes: GetAddrBytes() returns the ADDRv1 form for v1-compatible addresses, so strip the prefix again
std::vector<unsigned char> raw_bytes(const CNetAddr& a)
{
    std::vector<unsigned char> v = a.GetAddrBytes();
    if (a.IsIPv4()) return {v.begin() + 12, v.end()};
    if (a.IsInternal()) return {v.begin() + 6, v.end()};
    return v;
}

struct SubNetView : CSubNet {
    explicit SubNetView(const CSubNet& s) : CSubNet(s) {}
    std::string mask() const { return vd::hex(netmask, netmask + 16); }
    const CNetAddr& net() const { return network; }
};
std::string show_subnet(const CSubNet& s, const CNetAddr& a)
{
    SubNetView v(s);
    return std::string(s.IsValid() ? "1" : "0") + " " + vd::hex(raw_bytes(v.net())) + " " + v.mask() + " " + (s.Match(a) ? "1" : "0");
}
std::string show_addr(const CNetAddr& a)
{
    return std::to_string(net_code(a)) + " " + vd::hex(raw_bytes(a)) + " " + (a.IsValid() ? "1" : "0");
}

std::optional<CSubNet> subnet_of(int c, const std::vector<unsigned char>& b, int prefix)
{
    auto a = mk(c, b);
    if (!a) return std::nullopt;
    if (prefix < 0) return CSubNet{*a};
    return CSubNet{*a, (uint8_t)prefix};
}

std::string run_ban(const std::vector<std::string>& w)
{
    const int64_t def = vd::ll(w.at(1));
    const int64_t t0 = vd::ll(w.at(2));
    static int counter = 0;
    const fs::path dir = fs::PathFromString("/verif/_build/tmp/c60_" + std::to_string(getpid()) + "_" + std::to_string(counter++));
    fs::create_directories(dir);
    SetMockTime(t0);
    std::string out;
    {
        BanMan bm(dir / "banlist", nullptr, def);
        for (size_t k = 3; k < w.size(); ++k) {
            auto f = split(w[k], ':');
            std::string r = "-";
            if (f[0] == "t") SetMockTime(vd::ll(f.at(1)));
            else if (f[0] == "b") {
                auto s = subnet_of(std::stoi(f.at(1)), vd::unhex(f.at(2)), std::stoi(f.at(3)));
                if (!s) r = "BAD"; else bm.Ban(*s, vd::ll(f.at(4)), f.at(5) != "0");
            } else if (f[0] == "ba") {
                auto a = mk(std::stoi(f.at(1)), vd::unhex(f.at(2)));
                if (!a) r = "BAD"; else bm.Ban(*a, vd::ll(f.at(3)), f.at(4) != "0");
            } else if (f[0] == "u") {
                auto s = subnet_of(std::stoi(f.at(1)), vd::unhex(f.at(2)), std::stoi(f.at(3)));
                if (!s) r = "BAD"; else r = bm.Unban(*s) ? "1" : "0";
            } else if (f[0] == "q") {
                auto a = mk(std::stoi(f.at(1)), vd::unhex(f.at(2)));
                if (!a) r = "BAD"; else r = bm.IsBanned(*a) ? "1" : "0";
            } else if (f[0] == "qs") {
                auto s = subnet_of(std::stoi(f.at(1)), vd::unhex(f.at(2)), std::stoi(f.at(3)));
                if (!s) r = "BAD"; else r = bm.IsBanned(*s) ? "1" : "0";
            } else if (f[0] == "l") {
                banmap_t m;
                bm.GetBanned(m);
                std::vector<std::string> es;
                for (const auto& [s, e] : m) {
                    SubNetView v(s);
                    es.push_back(std::to_string(net_code(v.net())) + "." + vd::hex(raw_bytes(v.net())) + "." + v.mask() + "." + std::to_string(e.nBanUntil));
                }
                std::sort(es.begin(), es.end());
                r = "L" + std::to_string(es.size());
                for (const auto& e : es) r += ";" + e;
            } else if (f[0] == "c") bm.ClearBanned();
            else r = "BAD";
            if (!out.empty()) out += " ";
            out += r;
        }
    }
    SetMockTime(0);
    std::error_code ec;
    std::filesystem::remove_all(dir, ec);
    return out;
}
} // namespace

int main(int argc, char** argv)
{
    g_reachable_nets.Add(NET_CJDNS); // so that fc00::/8 text parses back as CJDNS (what -cjdnsreachable does)
    return vd::main_loop([&](const std::vector<std::string>& w, const std::string&) -> std::string {
        if (w.empty()) return "BADCASE";
        const std::string& op = w[0];
        if (op == "mc" && w.size() == 6) {
            auto b = mk(std::stoi(w[1]), vd::unhex(w[2])); auto a = mk(std::stoi(w[4]), vd::unhex(w[5]));
            if (!b || !a) return "BAD";
            int prefix = std::stoi(w[3]);
            if (prefix < 0 || prefix > 255) return "BAD";
            return show_subnet(CSubNet{*b, (uint8_t)prefix}, *a);
        }
        if (op == "mm" && w.size() == 6) {
            auto b = mk(std::stoi(w[1]), vd::unhex(w[2])); auto m = mk(std::stoi(w[1]), vd::unhex(w[3])); auto a = mk(std::stoi(w[4]), vd::unhex(w[5]));
            if (!b || !m || !a) return "BAD";
            return show_subnet(CSubNet{*b, *m}, *a);
        }
        if (op == "ms" && w.size() == 5) {
            auto b = mk(std::stoi(w[1]), vd::unhex(w[2])); auto a = mk(std::stoi(w[3]), vd::unhex(w[4]));
            if (!b || !a) return "BAD";
            return show_subnet(CSubNet{*b}, *a);
        }
        if (op == "iv" && w.size() == 3) {
            auto a = mk(std::stoi(w[1]), vd::unhex(w[2]));
            if (!a) return "BAD";
            return a->IsValid() ? "1" : "0";
        }
        if ((op == "s1" || op == "s2") && w.size() == 3) {
            auto a = mk(std::stoi(w[1]), vd::unhex(w[2]));
            if (!a) return "BAD";
            DataStream s;
            if (op == "s1") s << CNetAddr::V1(*a); else s << CNetAddr::V2(*a);
            return vd::hex(MakeUCharSpan(s));
        }
        if ((op == "u1" || op == "u2") && w.size() == 2) {
            auto bytes = vd::unhex(w[1]);
            DataStream s;
            s.write(MakeByteSpan(bytes));
            CNetAddr a;
            try {
                if (op == "u1") s >> CNetAddr::V1(a); else s >> CNetAddr::V2(a);
            } catch (const std::exception&) {
                return "FAIL";
            }
            return show_addr(a) + " " + vd::hex(MakeUCharSpan(s));
        }
        if (op == "str" && w.size() == 4) {
            auto a = mk(std::stoi(w[1]), vd::unhex(w[2]));
            if (!a) return "BAD";
            int prefix = std::stoi(w[3]);
            if (prefix < 0) {
                const std::string txt = a->ToStringAddr();
                auto back = LookupHost(txt, /*fAllowLookup=*/false);
                if (!back) return "0";
                CNetAddr b = static_cast<CNetAddr>(MaybeFlipIPv6toCJDNS(CService{*back, 0}));
                return b == *a ? "1" : "0";
            }
            CSubNet s{*a, (uint8_t)prefix};
            const std::string txt = s.ToString();
            CSubNet back = LookupSubNet(txt);
            return (back.IsValid() == s.IsValid() && (!s.IsValid() || back == s)) ? "1" : "0";
        }
        if (op == "ban" && w.size() >= 3) return run_ban(w);
        return "BADCASE";
    });
}
