// C++ side of the script family (C12, C11): calls the real EvalScript / VerifyScript / CScriptNum /
// FindAndDelete / CheckSignatureEncoding of the current tree with a stub BaseSignatureChecker whose answers are
// the same deterministic function of (bytes, oracle bits) as model/Script.v's stub_checker.
#include <drv_common.h>
#include <script/interpreter.h>
#include <script/script.h>
#include <script/script_error.h>
#include <script/signingprovider.h>
#include <addresstype.h>
#include <pubkey.h>

#include <cstdint>
#include <span>
#include <string>
#include <vector>

bool CastToBool(const std::vector<unsigned char>& vch); // defined (non-static) in script/interpreter.cpp

namespace {
typedef std::vector<unsigned char> valtype;

const char* err_name(ScriptError e)
{
    switch (e) {
    case SCRIPT_ERR_OK: return "OK";
    case SCRIPT_ERR_UNKNOWN_ERROR: return "UNKNOWN_ERROR";
    case SCRIPT_ERR_EVAL_FALSE: return "EVAL_FALSE";
    case SCRIPT_ERR_OP_RETURN: return "OP_RETURN";
    case SCRIPT_ERR_SCRIPTNUM: return "SCRIPTNUM";
    case SCRIPT_ERR_SCRIPT_SIZE: return "SCRIPT_SIZE";
    case SCRIPT_ERR_PUSH_SIZE: return "PUSH_SIZE";
    case SCRIPT_ERR_OP_COUNT: return "OP_COUNT";
    case SCRIPT_ERR_STACK_SIZE: return "STACK_SIZE";
    case SCRIPT_ERR_SIG_COUNT: return "SIG_COUNT";
    case SCRIPT_ERR_PUBKEY_COUNT: return "PUBKEY_COUNT";
    case SCRIPT_ERR_VERIFY: return "VERIFY";
    case SCRIPT_ERR_EQUALVERIFY: return "EQUALVERIFY";
    case SCRIPT_ERR_CHECKMULTISIGVERIFY: return "CHECKMULTISIGVERIFY";
    case SCRIPT_ERR_CHECKSIGVERIFY: return "CHECKSIGVERIFY";
    case SCRIPT_ERR_NUMEQUALVERIFY: return "NUMEQUALVERIFY";
    case SCRIPT_ERR_BAD_OPCODE: return "BAD_OPCODE";
    case SCRIPT_ERR_DISABLED_OPCODE: return "DISABLED_OPCODE";
    case SCRIPT_ERR_INVALID_STACK_OPERATION: return "INVALID_STACK_OPERATION";
    case SCRIPT_ERR_INVALID_ALTSTACK_OPERATION: return "INVALID_ALTSTACK_OPERATION";
    case SCRIPT_ERR_UNBALANCED_CONDITIONAL: return "UNBALANCED_CONDITIONAL";
    case SCRIPT_ERR_NEGATIVE_LOCKTIME: return "NEGATIVE_LOCKTIME";
    case SCRIPT_ERR_UNSATISFIED_LOCKTIME: return "UNSATISFIED_LOCKTIME";
    case SCRIPT_ERR_SIG_HASHTYPE: return "SIG_HASHTYPE";
    case SCRIPT_ERR_SIG_DER: return "SIG_DER";
    case SCRIPT_ERR_MINIMALDATA: return "MINIMALDATA";
    case SCRIPT_ERR_SIG_PUSHONLY: return "SIG_PUSHONLY";
    case SCRIPT_ERR_SIG_HIGH_S: return "SIG_HIGH_S";
    case SCRIPT_ERR_SIG_NULLDUMMY: return "SIG_NULLDUMMY";
    case SCRIPT_ERR_PUBKEYTYPE: return "PUBKEYTYPE";
    case SCRIPT_ERR_CLEANSTACK: return "CLEANSTACK";
    case SCRIPT_ERR_MINIMALIF: return "MINIMALIF";
    case SCRIPT_ERR_SIG_NULLFAIL: return "SIG_NULLFAIL";
    case SCRIPT_ERR_DISCOURAGE_UPGRADABLE_NOPS: return "DISCOURAGE_UPGRADABLE_NOPS";
    case SCRIPT_ERR_DISCOURAGE_UPGRADABLE_WITNESS_PROGRAM: return "DISCOURAGE_UPGRADABLE_WITNESS_PROGRAM";
    case SCRIPT_ERR_DISCOURAGE_UPGRADABLE_TAPROOT_VERSION: return "DISCOURAGE_UPGRADABLE_TAPROOT_VERSION";
    case SCRIPT_ERR_DISCOURAGE_OP_SUCCESS: return "DISCOURAGE_OP_SUCCESS";
    case SCRIPT_ERR_DISCOURAGE_UPGRADABLE_PUBKEYTYPE: return "DISCOURAGE_UPGRADABLE_PUBKEYTYPE";
    case SCRIPT_ERR_WITNESS_PROGRAM_WRONG_LENGTH: return "WITNESS_PROGRAM_WRONG_LENGTH";
    case SCRIPT_ERR_WITNESS_PROGRAM_WITNESS_EMPTY: return "WITNESS_PROGRAM_WITNESS_EMPTY";
    case SCRIPT_ERR_WITNESS_PROGRAM_MISMATCH: return "WITNESS_PROGRAM_MISMATCH";
    case SCRIPT_ERR_WITNESS_MALLEATED: return "WITNESS_MALLEATED";
    case SCRIPT_ERR_WITNESS_MALLEATED_P2SH: return "WITNESS_MALLEATED_P2SH";
    case SCRIPT_ERR_WITNESS_UNEXPECTED: return "WITNESS_UNEXPECTED";
    case SCRIPT_ERR_WITNESS_PUBKEYTYPE: return "WITNESS_PUBKEYTYPE";
    case SCRIPT_ERR_SCHNORR_SIG_SIZE: return "SCHNORR_SIG_SIZE";
    case SCRIPT_ERR_SCHNORR_SIG_HASHTYPE: return "SCHNORR_SIG_HASHTYPE";
    case SCRIPT_ERR_SCHNORR_SIG: return "SCHNORR_SIG";
    case SCRIPT_ERR_TAPROOT_WRONG_CONTROL_SIZE: return "TAPROOT_WRONG_CONTROL_SIZE";
    case SCRIPT_ERR_TAPSCRIPT_VALIDATION_WEIGHT: return "TAPSCRIPT_VALIDATION_WEIGHT";
    case SCRIPT_ERR_TAPSCRIPT_CHECKMULTISIG: return "TAPSCRIPT_CHECKMULTISIG";
    case SCRIPT_ERR_TAPSCRIPT_MINIMALIF: return "TAPSCRIPT_MINIMALIF";
    case SCRIPT_ERR_TAPSCRIPT_EMPTY_PUBKEY: return "TAPSCRIPT_EMPTY_PUBKEY";
    case SCRIPT_ERR_OP_CODESEPARATOR: return "OP_CODESEPARATOR";
    case SCRIPT_ERR_SIG_FINDANDDELETE: return "SIG_FINDANDDELETE";
    case SCRIPT_ERR_ERROR_COUNT: break;
    }
    return "?";
}

// the stub checker: same function as stub_checker in coq/model/Script.v
class StubChecker : public BaseSignatureChecker
{
    uint32_t m_obits;
    bool bit(uint64_t k) const { return (m_obits >> (k % 32)) & 1; }

public:
    explicit StubChecker(uint32_t obits) : m_obits(obits) {}
    bool CheckECDSASignature(const std::vector<unsigned char>& sig, const std::vector<unsigned char>& pk, const CScript& scriptCode, SigVersion sv) const override
    {
        if (sig.empty()) return false;
        uint64_t k = sig[0] + 3 * (uint64_t)(pk.empty() ? 0 : pk[0]) + scriptCode.size();
        for (unsigned char c : scriptCode) k += c;
        k += (uint64_t)sv; // BASE = 0, WITNESS_V0 = 1, TAPSCRIPT = 3
        return bit(k);
    }
    bool CheckSchnorrSignature(std::span<const unsigned char> sig, std::span<const unsigned char> pk, SigVersion sigversion, ScriptExecutionData& execdata, ScriptError* serror) const override
    {
        uint64_t s0 = sig.empty() ? 0 : sig[0];
        if (sigversion == SigVersion::TAPROOT) { // key path: m_codeseparator_pos is not initialised; the output key is not known to the model
            if (bit(s0 + 11)) return true;
            if (serror) *serror = (s0 % 2 == 0) ? SCRIPT_ERR_SCHNORR_SIG : SCRIPT_ERR_SCHNORR_SIG_SIZE;
            return false;
        }
        uint64_t k = s0 + 5 * (uint64_t)(pk.empty() ? 0 : pk[0]) + (uint64_t)execdata.m_codeseparator_pos;
        if (bit(k)) return true;
        if (serror) *serror = (s0 % 2 == 0) ? SCRIPT_ERR_SCHNORR_SIG : SCRIPT_ERR_SCHNORR_SIG_HASHTYPE;
        return false;
    }
    bool CheckLockTime(const CScriptNum& n) const override { return bit((uint64_t)n.GetInt64()); }
    bool CheckSequence(const CScriptNum& n) const override { return bit((uint64_t)n.GetInt64() + 7); }
};

std::string show_stack(const std::vector<valtype>& st)
{
    std::string s = "n=" + std::to_string(st.size());
    for (const auto& e : st) s += " " + vd::hex(e);
    return s;
}
SigVersion sv_of(const std::string& s)
{
    if (s == "0") return SigVersion::BASE;
    if (s == "1") return SigVersion::WITNESS_V0;
    if (s == "3") return SigVersion::TAPSCRIPT;
    throw std::runtime_error("bad sigversion");
}
CScript script_of(const std::string& h) { auto b = vd::unhex(h); return CScript(b.begin(), b.end()); }

std::string verify_once(script_verify_flags flags, const CScript& ssig, const CScript& spk, uint32_t obits, const std::vector<valtype>& wit)
{
    StubChecker checker(obits);
    CScriptWitness witness;
    witness.stack = wit;
    ScriptError err = SCRIPT_ERR_ERROR_COUNT;
    bool ok = VerifyScript(ssig, spk, &witness, flags, checker, &err);
    if (ok) return err == SCRIPT_ERR_OK ? "OK" : std::string("OK-BUT-ERR ") + err_name(err);
    return std::string("ERR ") + err_name(err);
}
// VerifyScript under one flag set, called twice (the verdict and error must be deterministic)
std::string do_verify(uint64_t f, const CScript& ssig, const CScript& spk, uint32_t obits, const std::vector<valtype>& wit)
{
    script_verify_flags flags = script_verify_flags::from_int(f);
    // VerifyScript asserts these combinations; both sides refuse them
    const bool p2sh = (flags & SCRIPT_VERIFY_P2SH) != 0, w = (flags & SCRIPT_VERIFY_WITNESS) != 0, clean = (flags & SCRIPT_VERIFY_CLEANSTACK) != 0;
    if ((clean && !(p2sh && w)) || (w && !p2sh)) return "INVALIDFLAGS";
    std::string a = verify_once(flags, ssig, spk, obits, wit);
    std::string b = verify_once(flags, ssig, spk, obits, wit);
    return a == b ? a : "NONDET";
}

// a taproot script-path spend of a real tree on the NUMS internal key: the leaf (script, leaf version) alone (depth 0) or next to a
// sibling leaf (depth 1); witness = args, script, control block [, annex].  commit_ok = false flips a bit of the internal key in
// the control block; trunc > 0 removes bytes from the end of the control block, trunc < 0 appends zero bytes.
std::string tap_spend(uint64_t f, int leafver, int depth, const valtype& script, uint32_t obits, bool commit_ok, int trunc,
                      const std::string& annex, const std::vector<valtype>& args)
{
    TaprootBuilder builder;
    if (depth == 0) {
        builder.Add(0, script, leafver);
    } else {
        const valtype sibling{0x6a};
        builder.Add(1, script, leafver);
        builder.Add(1, sibling, 0xc0);
    }
    if (!builder.IsComplete()) return "BUILDERR";
    builder.Finalize(XOnlyPubKey::NUMS_H);
    CScript spk = GetScriptForDestination(builder.GetOutput());
    auto spend = builder.GetSpendData();
    auto it = spend.scripts.find({script, leafver});
    if (it == spend.scripts.end() || it->second.empty()) return "BUILDERR";
    valtype control = *it->second.begin();
    if (!commit_ok) control[5] ^= 0x10;
    if (trunc > 0) control.resize(control.size() > (size_t)trunc ? control.size() - trunc : 0);
    if (trunc < 0) control.resize(control.size() + (size_t)(-trunc), 0);
    std::vector<valtype> wit = args;
    wit.push_back(script);
    wit.push_back(control);
    if (annex != "x") wit.push_back(vd::unhex(annex));
    return do_verify(f, CScript(), spk, obits, wit);
}
std::string tap_key(uint64_t f, uint32_t obits, const valtype& sig, const std::string& annex)
{
    TaprootBuilder builder;
    builder.Finalize(XOnlyPubKey::NUMS_H);
    CScript spk = GetScriptForDestination(builder.GetOutput());
    std::vector<valtype> wit{sig};
    if (annex != "x") wit.push_back(vd::unhex(annex));
    return do_verify(f, CScript(), spk, obits, wit);
}
} // namespace

int main()
{
    static_assert((int)SigVersion::BASE == 0 && (int)SigVersion::WITNESS_V0 == 1 && (int)SigVersion::TAPSCRIPT == 3);
    return vd::main_loop([&](const std::vector<std::string>& w, const std::string&) -> std::string {
        if (w.empty()) return "BADCASE";
        if (w[0] == "eval" && w.size() >= 7) {
            SigVersion sv = sv_of(w[1]);
            script_verify_flags flags = script_verify_flags::from_int(vd::ull(w[2]));
            CScript script = script_of(w[3]);
            StubChecker checker((uint32_t)vd::ull(w[4]));
            ScriptExecutionData execdata;
            execdata.m_validation_weight_left = vd::ll(w[5]);
            execdata.m_validation_weight_left_init = true;
            size_t n = vd::ull(w[6]);
            std::vector<valtype> stack;
            for (size_t i = 0; i < n; ++i) stack.push_back(vd::unhex(w.at(7 + i)));
            ScriptError err = SCRIPT_ERR_ERROR_COUNT;
            bool ok = EvalScript(stack, script, flags, checker, sv, execdata, &err);
            if (!ok) return std::string("ERR ") + err_name(err);
            if (err != SCRIPT_ERR_OK) return std::string("OK-BUT-ERR ") + err_name(err);
            return "OK w=" + std::to_string(execdata.m_validation_weight_left) + " cs=" + std::to_string(execdata.m_codeseparator_pos) + " " + show_stack(stack);
        }
        if (w[0] == "evalpair" && w.size() == 5) {
            script_verify_flags flags = script_verify_flags::from_int(vd::ull(w[1]));
            StubChecker checker((uint32_t)vd::ull(w[4]));
            std::vector<valtype> stack;
            ScriptError err = SCRIPT_ERR_ERROR_COUNT;
            {
                ScriptExecutionData execdata;
                execdata.m_validation_weight_left = 0;
                execdata.m_validation_weight_left_init = true;
                if (!EvalScript(stack, script_of(w[2]), flags, checker, SigVersion::BASE, execdata, &err)) return std::string("ERR1 ") + err_name(err);
            }
            ScriptExecutionData execdata;
            execdata.m_validation_weight_left = 0;
            execdata.m_validation_weight_left_init = true;
            if (!EvalScript(stack, script_of(w[3]), flags, checker, SigVersion::BASE, execdata, &err)) return std::string("ERR ") + err_name(err);
            return "OK w=" + std::to_string(execdata.m_validation_weight_left) + " cs=" + std::to_string(execdata.m_codeseparator_pos) + " " + show_stack(stack);
        }
        if (w[0] == "verify" && w.size() >= 6) {
            std::vector<valtype> wit;
            size_t n = vd::ull(w[5]);
            for (size_t i = 0; i < n; ++i) wit.push_back(vd::unhex(w.at(6 + i)));
            return do_verify(vd::ull(w[1]), script_of(w[2]), script_of(w[3]), (uint32_t)vd::ull(w[4]), wit);
        }
        if (w[0] == "vpair" && w.size() >= 7) {
            std::vector<valtype> wit;
            size_t n = vd::ull(w[6]);
            for (size_t i = 0; i < n; ++i) wit.push_back(vd::unhex(w.at(7 + i)));
            return do_verify(vd::ull(w[1]), script_of(w[3]), script_of(w[4]), (uint32_t)vd::ull(w[5]), wit) + " | " +
                   do_verify(vd::ull(w[2]), script_of(w[3]), script_of(w[4]), (uint32_t)vd::ull(w[5]), wit);
        }
        if (w[0] == "tapspend" && w.size() >= 10) {
            std::vector<valtype> args;
            size_t n = vd::ull(w[9]);
            for (size_t i = 0; i < n; ++i) args.push_back(vd::unhex(w.at(10 + i)));
            return tap_spend(vd::ull(w[1]), (int)vd::ll(w[2]), (int)vd::ll(w[3]), vd::unhex(w[4]), (uint32_t)vd::ull(w[5]), w[6] == "1", (int)vd::ll(w[7]), w[8], args);
        }
        if (w[0] == "tappair" && w.size() >= 11) {
            std::vector<valtype> args;
            size_t n = vd::ull(w[10]);
            for (size_t i = 0; i < n; ++i) args.push_back(vd::unhex(w.at(11 + i)));
            return tap_spend(vd::ull(w[1]), (int)vd::ll(w[3]), (int)vd::ll(w[4]), vd::unhex(w[5]), (uint32_t)vd::ull(w[6]), w[7] == "1", (int)vd::ll(w[8]), w[9], args) + " | " +
                   tap_spend(vd::ull(w[2]), (int)vd::ll(w[3]), (int)vd::ll(w[4]), vd::unhex(w[5]), (uint32_t)vd::ull(w[6]), w[7] == "1", (int)vd::ll(w[8]), w[9], args);
        }
        if (w[0] == "tapkey" && w.size() == 5) return tap_key(vd::ull(w[1]), (uint32_t)vd::ull(w[2]), vd::unhex(w[3]), w[4]);
        if (w[0] == "pushonly" && w.size() == 2) return script_of(w[1]).IsPushOnly() ? "1" : "0";
        if (w[0] == "witprog" && w.size() == 2) {
            int version;
            std::vector<unsigned char> program;
            if (!script_of(w[1]).IsWitnessProgram(version, program)) return "none";
            return std::to_string(version) + " " + vd::hex(program);
        }
        if (w[0] == "num" && w.size() == 4) {
            try {
                CScriptNum n(vd::unhex(w[1]), w[2] == "1", (size_t)vd::ull(w[3]));
                return std::to_string(n.GetInt64());
            } catch (const scriptnum_error&) {
                return "ERR SCRIPTNUM";
            }
        }
        if (w[0] == "enc" && w.size() == 2) return vd::hex(CScriptNum::serialize(vd::ll(w[1])));
        if (w[0] == "castbool" && w.size() == 2) return CastToBool(vd::unhex(w[1])) ? "1" : "0";
        if (w[0] == "fad" && w.size() == 3) {
            CScript script = script_of(w[1]);
            int found = FindAndDelete(script, CScript() << vd::unhex(w[2]));
            return std::to_string(found) + " " + vd::hex(script);
        }
        if (w[0] == "sigenc" && w.size() == 3) {
            ScriptError err = SCRIPT_ERR_OK;
            bool ok = CheckSignatureEncoding(vd::unhex(w[2]), script_verify_flags::from_int(vd::ull(w[1])), &err);
            return ok ? "OK" : std::string("ERR ") + err_name(err);
        }
        return "BADCASE";
    });
}
