// C++ side of C29 (package well-formedness / package acceptance).
//   mode "wf"     : builds real CTransactions from a shape line and calls the real IsWellFormedPackage,
//                   IsTopoSortedPackage, IsConsistentPackage, IsChildWithParents, IsChildWithParentsTree.
//   mode "accept" : regtest TestChain100Setup with a stock of confirmed anyone-can-spend coins; per case
//                   a fresh mempool pre-state is submitted transaction by transaction, then the package
//                   goes through the real ProcessNewPackage; printed: package verdict, per-transaction
//                   result kind, mempool membership after.
#include <drv_common.h>
#include <addresstype.h>
#include <arith_uint256.h>
#include <consensus/validation.h>
#include <key.h>
#include <node/context.h>
#include <policy/packages.h>
#include <policy/policy.h>
#include <primitives/transaction.h>
#include <script/script.h>
#include <script/sign.h>
#include <script/signingprovider.h>
#include <coins.h>
#include <util/translation.h>
#include <test/util/setup_common.h>
#include <txmempool.h>
#include <uint256.h>
#include <validation.h>

#include <map>
#include <memory>
#include <set>

namespace {
Txid ExtHash(uint64_t a) { return Txid::FromUint256(ArithToUint256(arith_uint256(1000000 + a))); }

// ---- mode wf ------------------------------------------------------------------------------------
// wf <nbuild> { n <nin> {e <a> <n> | p <j> <n>}* <pad> <wit> <claimed_weight> | t <j> <wit> <claimed_weight> }* <npkg> <idx>*
//   n: new transaction with the listed inputs (e: outpoint of the external hash 1000000+a; p: output n of
//      built transaction j < current), scriptSig of input 0 is <pad> bytes, witness of input 0 is one
//      item of <wit> bytes when wit > 0;  t: built transaction j with the witness replaced.
std::string run_wf(const std::vector<std::string>& w)
{
    size_t p = 1;
    size_t nb = vd::ull(w.at(p++));
    std::vector<CTransactionRef> built;
    std::vector<int64_t> claimed;
    for (size_t b = 0; b < nb; ++b) {
        const std::string kind = w.at(p++);
        CMutableTransaction mtx;
        if (kind == "n") {
            mtx.version = 2;
            size_t nin = vd::ull(w.at(p++));
            for (size_t i = 0; i < nin; ++i) {
                const std::string ik = w.at(p++);
                uint64_t a = vd::ull(w.at(p++));
                uint32_t n = (uint32_t)vd::ull(w.at(p++));
                CTxIn in;
                if (ik == "e") in.prevout = COutPoint(ExtHash(a), n);
                else if (ik == "p") in.prevout = COutPoint(built.at(a)->GetHash(), n);
                else return "BADCASE input kind";
                mtx.vin.push_back(in);
            }
            size_t pad = vd::ull(w.at(p++));
            size_t wit = vd::ull(w.at(p++));
            if (!mtx.vin.empty()) {
                if (pad) { std::vector<unsigned char> s(pad, 0x51); mtx.vin[0].scriptSig = CScript(s.begin(), s.end()); }
                if (wit) mtx.vin[0].scriptWitness.stack.push_back(std::vector<unsigned char>(wit, 7));
            }
            mtx.vout.emplace_back(1000 + (CAmount)b, CScript() << OP_TRUE);
        } else if (kind == "t") {
            size_t j = vd::ull(w.at(p++));
            size_t wit = vd::ull(w.at(p++));
            mtx = CMutableTransaction(*built.at(j));
            if (mtx.vin.empty()) return "BADCASE twin of empty-vin tx";
            mtx.vin[0].scriptWitness.stack.clear();
            if (wit) mtx.vin[0].scriptWitness.stack.push_back(std::vector<unsigned char>(wit, 7));
        } else {
            return "BADCASE build kind";
        }
        claimed.push_back(vd::ll(w.at(p++)));
        built.push_back(MakeTransactionRef(mtx));
    }
    size_t np = vd::ull(w.at(p++));
    Package pkg;
    for (size_t i = 0; i < np; ++i) pkg.push_back(built.at(vd::ull(w.at(p++))));
    // the abstract weight given to the model must be the real one
    for (size_t b = 0; b < nb; ++b) {
        if (GetTransactionWeight(*built[b]) != claimed[b]) return "WEIGHT-MISMATCH build " + std::to_string(b) + " real " + std::to_string(GetTransactionWeight(*built[b]));
    }
    PackageValidationState st;
    bool ok = IsWellFormedPackage(pkg, st);
    std::string out = ok ? "ok" : st.GetRejectReason();
    if (!ok && st.GetResult() != PackageValidationResult::PCKG_POLICY) out += "(not-PCKG_POLICY)";
    if (ok && !st.IsValid()) out += "(state-invalid)";
    out += std::string(" topo=") + (IsTopoSortedPackage(pkg) ? "1" : "0");
    out += std::string(" cons=") + (IsConsistentPackage(pkg) ? "1" : "0");
    out += std::string(" cwp=") + (IsChildWithParents(pkg) ? "1" : "0");
    out += std::string(" tree=") + (IsChildWithParentsTree(pkg) ? "1" : "0");
    return out;
}

// ---- mode accept --------------------------------------------------------------------------------
// acc <nbuild> { n <ver> <nin> {u <k> | p <j> <n> | x <a>}* <nout> <fee> <wit> <claimed_weight> | t <j> <wit> <claimed_weight> }*
//     <npre> <idx>* <npkg> <idx>*
//   u k: confirmed stock coin k; p j n: output n of built transaction j; x a: an outpoint that does not exist.
//   every output pays P2WSH(OP_DROP OP_TRUE); every input carries the witness [<wit bytes of 0x07>, script].
struct AcceptEnv {
    std::unique_ptr<TestChain100Setup> setup;
    std::vector<COutPoint> stock;
    CAmount stock_value{0};
    CScript wscript, spk;
    static constexpr int NSTOCK = 64;

    AcceptEnv()
    {
        setup = std::make_unique<TestChain100Setup>(ChainType::REGTEST);
        wscript = CScript() << OP_DROP << OP_TRUE;
        spk = GetScriptForDestination(WitnessV0ScriptHash(wscript));
        // one funding transaction spending the first (mature) coinbase into NSTOCK anyone-can-spend coins
        CMutableTransaction fund;
        fund.version = 2;
        fund.vin.emplace_back(COutPoint(setup->m_coinbase_txns[0]->GetHash(), 0));
        stock_value = (50 * COIN - 100000) / NSTOCK;
        for (int i = 0; i < NSTOCK; ++i) fund.vout.emplace_back(stock_value, spk);
        {
            FillableSigningProvider keystore;
            keystore.AddKey(setup->coinbaseKey);
            std::map<COutPoint, Coin> coins;
            coins[fund.vin[0].prevout] = Coin(setup->m_coinbase_txns[0]->vout[0], 1, true);
            std::map<int, bilingual_str> errs;
            if (!SignTransaction(fund, &keystore, coins, SignOptions{.sighash_type = SIGHASH_ALL}, errs)) throw std::runtime_error("cannot sign funding tx");
        }
        setup->CreateAndProcessBlock({fund}, CScript() << OP_TRUE);
        const Txid fid = CTransaction(fund).GetHash();
        for (int i = 0; i < NSTOCK; ++i) stock.emplace_back(fid, i);
        LOCK(cs_main);
        if (!setup->m_node.chainman->ActiveChainstate().CoinsTip().HaveCoin(stock[0])) throw std::runtime_error("funding not confirmed");
    }

    void clear_pool()
    {
        CTxMemPool& pool = *setup->m_node.mempool;
        LOCK2(cs_main, pool.cs);
        std::vector<CTransactionRef> all;
        for (const auto& e : pool.entryAll()) all.push_back(e.get().GetSharedTx());
        for (const auto& tx : all) {
            if (pool.exists(tx->GetHash())) pool.removeRecursive(*tx, MemPoolRemovalReason::REPLACED);
        }
        if (pool.size() != 0) throw std::runtime_error("mempool not empty after clearing");
    }
};

std::string member(const CTxMemPool& pool, const CTransactionRef& tx)
{
    if (pool.exists(tx->GetWitnessHash())) return "w";
    if (pool.exists(tx->GetHash())) return "t";
    return "-";
}

std::string run_accept(AcceptEnv& env, const std::vector<std::string>& w)
{
    CTxMemPool& pool = *env.setup->m_node.mempool;
    Chainstate& cs = env.setup->m_node.chainman->ActiveChainstate();
    env.clear_pool();
    size_t p = 1;
    size_t nb = vd::ull(w.at(p++));
    std::vector<CTransactionRef> built;
    std::vector<int64_t> claimed;
    auto wit_stack = [&](size_t wit) {
        std::vector<std::vector<unsigned char>> st;
        st.push_back(std::vector<unsigned char>(wit, 7));
        st.push_back(std::vector<unsigned char>(env.wscript.begin(), env.wscript.end()));
        return st;
    };
    for (size_t b = 0; b < nb; ++b) {
        const std::string kind = w.at(p++);
        CMutableTransaction mtx;
        if (kind == "n") {
            mtx.version = (uint32_t)vd::ull(w.at(p++));
            mtx.nLockTime = (uint32_t)b;   // distinct built transactions get distinct txids (all sequences are final)
            size_t nin = vd::ull(w.at(p++));
            CAmount in_value = 0;
            for (size_t i = 0; i < nin; ++i) {
                const std::string ik = w.at(p++);
                CTxIn in;
                if (ik == "u") {
                    size_t k = vd::ull(w.at(p++));
                    in.prevout = env.stock.at(k);
                    in_value += env.stock_value;
                } else if (ik == "p") {
                    size_t j = vd::ull(w.at(p++));
                    uint32_t n = (uint32_t)vd::ull(w.at(p++));
                    in.prevout = COutPoint(built.at(j)->GetHash(), n);
                    if (n < built.at(j)->vout.size()) in_value += built.at(j)->vout[n].nValue;
                } else if (ik == "x") {
                    in.prevout = COutPoint(ExtHash(vd::ull(w.at(p++))), 0);
                    in_value += 1000000;
                } else return "BADCASE input kind";
                mtx.vin.push_back(in);
            }
            size_t nout = vd::ull(w.at(p++));
            CAmount fee = vd::ll(w.at(p++));
            size_t wit = vd::ull(w.at(p++));
            for (auto& in : mtx.vin) in.scriptWitness.stack = wit_stack(wit);
            CAmount each = nout ? (in_value - fee) / (CAmount)nout : 0;
            CAmount rem = nout ? (in_value - fee) - each * (CAmount)nout : 0;
            for (size_t o = 0; o < nout; ++o) mtx.vout.emplace_back(each + (o == 0 ? rem : 0), env.spk);
        } else if (kind == "t") {
            size_t j = vd::ull(w.at(p++));
            size_t wit = vd::ull(w.at(p++));
            mtx = CMutableTransaction(*built.at(j));
            for (auto& in : mtx.vin) in.scriptWitness.stack = wit_stack(wit);
        } else return "BADCASE build kind";
        claimed.push_back(vd::ll(w.at(p++)));
        built.push_back(MakeTransactionRef(mtx));
    }
    for (size_t b = 0; b < nb; ++b) {
        if (GetTransactionWeight(*built[b]) != claimed[b]) return "WEIGHT-MISMATCH build " + std::to_string(b) + " real " + std::to_string(GetTransactionWeight(*built[b]));
    }
    size_t npre = vd::ull(w.at(p++));
    std::string pre_res;
    for (size_t i = 0; i < npre; ++i) {
        const auto& tx = built.at(vd::ull(w.at(p++)));
        LOCK(cs_main);
        const MempoolAcceptResult r = env.setup->m_node.chainman->ProcessTransaction(tx);
        pre_res += r.m_result_type == MempoolAcceptResult::ResultType::VALID ? "V" : "I";
    }
    size_t np = vd::ull(w.at(p++));
    Package pkg;
    for (size_t i = 0; i < np; ++i) pkg.push_back(built.at(vd::ull(w.at(p++))));
    std::string before;
    for (const auto& tx : built) before += member(pool, tx);
    const size_t size_before = pool.size();
    PackageMempoolAcceptResult res = [&] {
        LOCK(cs_main);
        return ProcessNewPackage(cs, pool, pkg, /*test_accept=*/false, /*client_maxfeerate=*/std::nullopt);
    }();
    std::string st;
    if (res.m_state.IsValid()) st = "valid";
    else {
        switch (res.m_state.GetResult()) {
        case PackageValidationResult::PCKG_POLICY: st = "policy:"; break;
        case PackageValidationResult::PCKG_TX: st = "tx:"; break;
        case PackageValidationResult::PCKG_MEMPOOL_ERROR: st = "mempool-error:"; break;
        default: st = "unset:"; break;
        }
        st += res.m_state.GetRejectReason();
    }
    for (auto& c : st) if (c == ' ') c = '_';
    std::string rs;
    for (size_t i = 0; i < np; ++i) {
        if (i) rs += ",";
        auto it = res.m_tx_results.find(pkg[i]->GetWitnessHash());
        if (it == res.m_tx_results.end()) { rs += "-"; continue; }
        const MempoolAcceptResult& r = it->second;
        switch (r.m_result_type) {
        case MempoolAcceptResult::ResultType::VALID: rs += "V"; break;
        case MempoolAcceptResult::ResultType::MEMPOOL_ENTRY: rs += "M"; break;
        case MempoolAcceptResult::ResultType::DIFFERENT_WITNESS: {
            std::string o = "?";
            for (size_t b = 0; b < nb; ++b) if (r.m_other_wtxid && built[b]->GetWitnessHash() == *r.m_other_wtxid) { o = std::to_string(b); break; }
            rs += "D" + o;
            break;
        }
        case MempoolAcceptResult::ResultType::INVALID: {
            const bool retry = r.m_state.GetResult() == TxValidationResult::TX_RECONSIDERABLE || r.m_state.GetResult() == TxValidationResult::TX_MISSING_INPUTS;
            std::string why = r.m_state.GetRejectReason();
            for (auto& c : why) if (c == ' ') c = '_';
            rs += std::string("I") + (retry ? "1" : "0") + ":" + why;
            break;
        }
        }
    }
    if (np == 0) rs = "none";
    std::string after;
    for (const auto& tx : built) after += member(pool, tx);
    return "pre=" + (pre_res.empty() ? std::string("none") : pre_res) + " state=" + st + " n=" + std::to_string(res.m_tx_results.size()) + " r=" + rs +
           " before=" + before + ":" + std::to_string(size_before) + " after=" + after + ":" + std::to_string(pool.size());
}
} // namespace

int main(int argc, char** argv)
{
    const std::string mode = argc > 1 ? argv[1] : "wf";
    if (mode == "wf") {
        return vd::main_loop([&](const std::vector<std::string>& w, const std::string&) -> std::string {
            if (w.empty() || w[0] != "wf") return "BADCASE";
            return run_wf(w);
        });
    }
    if (mode == "accept" || mode == "accept3") {
        AcceptEnv env;
        return vd::main_loop([&](const std::vector<std::string>& w, const std::string&) -> std::string {
            if (w.empty() || w[0] != "acc") return "BADCASE";
            return run_accept(env, w);
        });
    }
    return 2;
}
