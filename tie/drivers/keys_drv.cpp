// C++ side of the keys family (C45): calls the real bech32::Encode/Decode, ConvertBits, EncodeBase58(Check)/
// DecodeBase58(Check), EncodeDestination/DecodeDestination, CExtKey/CExtPubKey Derive + Encode/Decode,
// EncodeExtKey/DecodeExtKey/EncodeSecret/DecodeSecret of the current tree.
// Strings travel as hex of their bytes. One result line per case.
#include <drv_common.h>
#include <addresstype.h>
#include <base58.h>
#include <bech32.h>
#include <chainparams.h>
#include <key.h>
#include <key_io.h>
#include <pubkey.h>
#include <util/chaintype.h>
#include <util/strencodings.h>

#include <cstring>
#include <variant>

static const ChainType CHAINS[5] = {ChainType::MAIN, ChainType::TESTNET, ChainType::TESTNET4, ChainType::SIGNET, ChainType::REGTEST};

static std::string shex(const std::string& s) { return vd::hex(s.begin(), s.end()); }
static std::string unshex(const std::string& h) { auto v = vd::unhex(h); return std::string(v.begin(), v.end()); }

static std::string err_class(const std::string& e)
{
    auto starts = [&](const char* p) { return e.rfind(p, 0) == 0; };
    if (e.empty()) return "ok";
    if (starts("Invalid length for Base58 address")) return "b58len";
    if (starts("Invalid or unsupported Base58-encoded address")) return "b58unsup";
    if (starts("Invalid or unsupported Segwit (Bech32) or Base58 encoding")) return "notb58";
    if (starts("Invalid checksum or length of Base58 address")) return "b58sum";
    if (starts("Empty Bech32 data section")) return "empty";
    if (starts("Invalid or unsupported prefix for Segwit")) return "hrp";
    if (starts("Version 0 witness address must use Bech32 checksum")) return "v0m";
    if (starts("Version 1+ witness address must use Bech32m checksum")) return "v1b";
    if (starts("Invalid Bech32 v0 address program size")) return "v0size";
    if (starts("Invalid Bech32 address witness version")) return "version";
    if (starts("Invalid Bech32 address program size")) return "size";
    if (starts("Invalid padding in Bech32 data section")) return "padding";
    return "bech32";   // LocateErrors message
}

struct DestPrinter {
    std::string operator()(const CNoDestination&) const { return "none -"; }
    std::string operator()(const PubKeyDestination&) const { return "pubkey -"; }
    std::string operator()(const PKHash& h) const { return "pkh " + vd::hex(h.begin(), h.end()); }
    std::string operator()(const ScriptHash& h) const { return "sh " + vd::hex(h.begin(), h.end()); }
    std::string operator()(const WitnessV0ScriptHash& h) const { return "wsh " + vd::hex(h.begin(), h.end()); }
    std::string operator()(const WitnessV0KeyHash& h) const { return "wpkh " + vd::hex(h.begin(), h.end()); }
    std::string operator()(const WitnessV1Taproot& t) const { return "tr " + vd::hex(t.begin(), t.end()); }
    std::string operator()(const PayToAnchor&) const { return "anchor -"; }
    std::string operator()(const WitnessUnknown& w) const { return "wit" + std::to_string(w.GetWitnessVersion()) + " " + vd::hex(w.GetWitnessProgram()); }
};

static bool make_dest(const std::string& type, const std::string& hx, CTxDestination& out)
{
    auto v = vd::unhex(hx);
    if (type == "pkh" && v.size() == 20) { out = PKHash(uint160(std::span<const unsigned char>(v))); return true; }
    if (type == "sh" && v.size() == 20) { out = ScriptHash(uint160(std::span<const unsigned char>(v))); return true; }
    if (type == "wpkh" && v.size() == 20) { out = WitnessV0KeyHash(uint160(std::span<const unsigned char>(v))); return true; }
    if (type == "wsh" && v.size() == 32) { out = WitnessV0ScriptHash(uint256(std::span<const unsigned char>(v))); return true; }
    if (type == "tr" && v.size() == 32) { out = WitnessV1Taproot(XOnlyPubKey(std::span<const unsigned char>(v))); return true; }
    if (type == "anchor") { out = PayToAnchor(); return true; }
    if (type == "none") { out = CNoDestination(); return true; }
    if (type.rfind("wit", 0) == 0) { out = WitnessUnknown((unsigned int)std::stoul(type.substr(3)), v); return true; }
    return false;
}

static std::string decode_on(int chain, const std::string& s)
{
    SelectParams(CHAINS[chain]);
    std::string err;
    CTxDestination d = DecodeDestination(s, err);
    return std::visit(DestPrinter(), d) + " " + err_class(err);
}

static std::string enc74(const CExtKey& k)
{
    if (!k.key.IsValid()) return "invalid";
    unsigned char code[BIP32_EXTKEY_SIZE];
    k.Encode(code);
    return vd::hex(code, code + BIP32_EXTKEY_SIZE);
}
static std::string enc74(const CExtPubKey& k)
{
    if (!k.pubkey.IsValid() || k.pubkey.size() != CPubKey::COMPRESSED_SIZE) return "invalid";
    unsigned char code[BIP32_EXTKEY_SIZE];
    k.Encode(code);
    return vd::hex(code, code + BIP32_EXTKEY_SIZE);
}

int main(int argc, char** argv)
{
    ECC_Context ecc;
    SelectParams(ChainType::MAIN);
    return vd::main_loop([&](const std::vector<std::string>& w, const std::string&) -> std::string {
        if (w.empty()) return "BADCASE";
        const std::string& op = w[0];
        // ---- bech32 -----------------------------------------------------------------------------
        if ((op == "b32enc" || op == "b32sub") && w.size() >= 4) {
            bech32::Encoding enc = w[1] == "1" ? bech32::Encoding::BECH32 : bech32::Encoding::BECH32M;
            std::string hrp = unshex(w[2]);
            auto vals = vd::unhex(w[3]);
            for (char c : hrp) if (c >= 'A' && c <= 'Z') return "PRE";     // assert in Encode
            for (auto v : vals) if (v >= 32) return "PRE";                   // CHARSET[v] out of bounds
            std::string s = bech32::Encode(enc, hrp, vals);
            if (op == "b32enc") return shex(s);
            // b32sub <enc> <hrp> <vals> (<pos> <charcode>)* : substitute characters, then Decode
            for (size_t i = 4; i + 1 < w.size(); i += 2) {
                size_t pos = std::stoul(w[i]);
                if (pos < s.size()) s[pos] = (char)std::stoul(w[i + 1]);
            }
            auto r = bech32::Decode(s);
            if (r.encoding == bech32::Encoding::INVALID) return shex(s) + " inv";
            return shex(s) + " " + (r.encoding == bech32::Encoding::BECH32 ? "1 " : "2 ") + shex(r.hrp) + " " + vd::hex(r.data);
        }
        if (op == "b32dec" && w.size() == 2) {
            auto r = bech32::Decode(unshex(w[1]));
            if (r.encoding == bech32::Encoding::INVALID) return "inv";
            return std::string(r.encoding == bech32::Encoding::BECH32 ? "1 " : "2 ") + shex(r.hrp) + " " + vd::hex(r.data);
        }
        if (op == "cbits" && w.size() == 3) {
            auto in = vd::unhex(w[2]);
            std::vector<unsigned char> out;
            bool ok;
            if (w[1] == "85") ok = ConvertBits<8, 5, true>([&](unsigned char c) { out.push_back(c); }, in.begin(), in.end());
            else if (w[1] == "58") ok = ConvertBits<5, 8, false>([&](unsigned char c) { out.push_back(c); }, in.begin(), in.end());
            else return "BADCASE";
            return ok ? vd::hex(out) : "fail";
        }
        // ---- base58 -----------------------------------------------------------------------------
        if (op == "b58enc" && w.size() == 2) return shex(EncodeBase58(vd::unhex(w[1])));
        if (op == "b58cenc" && w.size() == 2) return shex(EncodeBase58Check(vd::unhex(w[1])));
        if ((op == "b58dec" || op == "b58cdec") && w.size() == 3) {
            std::vector<unsigned char> out;
            int mx = (int)vd::ll(w[2]);
            bool ok = op == "b58dec" ? DecodeBase58(unshex(w[1]), out, mx) : DecodeBase58Check(unshex(w[1]), out, mx);
            return ok ? vd::hex(out) : "false";
        }
        // ---- addresses --------------------------------------------------------------------------
        // addr <chain> <type> <hex> : encode on <chain>, then decode the string on every chain
        if (op == "addr" && w.size() == 4) {
            int chain = std::stoi(w[1]);
            CTxDestination d;
            if (!make_dest(w[2], w[3], d)) return "BADCASE";
            SelectParams(CHAINS[chain]);
            std::string s = EncodeDestination(d);
            std::string out = shex(s);
            for (int c = 0; c < 5; ++c) out += " | " + decode_on(c, s);
            return out;
        }
        if (op == "addrdec" && w.size() == 3) return decode_on(std::stoi(w[1]), unshex(w[2]));
        // ---- BIP32 ------------------------------------------------------------------------------
        if (op == "seed" && w.size() == 2) {
            auto seed = vd::unhex(w[1]);
            if (seed.size() < 16 || seed.size() > 64) return "PRE";
            CExtKey k;
            k.SetSeed(std::as_bytes(std::span<const unsigned char>(seed)));
            return enc74(k) + " " + enc74(k.Neuter());
        }
        if (op == "extdec" && w.size() == 3) {
            auto code = vd::unhex(w[2]);
            if (code.size() != BIP32_EXTKEY_SIZE) return "BADCASE";
            if (w[1] == "prv") { CExtKey k; k.Decode(code.data()); return enc74(k); }
            CExtPubKey k; k.Decode(code.data()); return enc74(k);
        }
        // ckd <xprv74hex> <i> : private child and its neutered form; public child of the neutered parent (non-hardened i)
        if (op == "ckd" && w.size() == 3) {
            auto code = vd::unhex(w[1]);
            if (code.size() != BIP32_EXTKEY_SIZE) return "BADCASE";
            unsigned int i = (unsigned int)vd::ull(w[2]);
            CExtKey k; k.Decode(code.data());
            if (!k.key.IsValid()) return "invalidparent";
            CExtKey c;
            std::string out;
            bool ok = k.Derive(c, i);
            out = ok ? enc74(c) + " " + enc74(c.Neuter()) : "fail fail";
            if ((i >> 31) == 0) {
                CExtPubKey pc;
                bool okp = k.Neuter().Derive(pc, i);
                out += " " + (okp ? enc74(pc) : std::string("fail"));
            } else {
                out += " hardened";
            }
            return out;
        }
        // ckdpub <xpub74hex> <i>
        if (op == "ckdpub" && w.size() == 3) {
            auto code = vd::unhex(w[1]);
            if (code.size() != BIP32_EXTKEY_SIZE) return "BADCASE";
            unsigned int i = (unsigned int)vd::ull(w[2]);
            CExtPubKey k; k.Decode(code.data());
            if (!k.pubkey.IsValid()) return "invalidparent";
            if ((i >> 31) != 0) return "PRE";     // assert((nChild >> 31) == 0) in CPubKey::Derive
            CExtPubKey c;
            return k.Derive(c, i) ? enc74(c) : "fail";
        }
        // path <seedhex> i1 i2 ... : every level's (xprv, xpub) along the path
        if (op == "path" && w.size() >= 2) {
            auto seed = vd::unhex(w[1]);
            if (seed.size() < 16 || seed.size() > 64) return "PRE";
            CExtKey k;
            k.SetSeed(std::as_bytes(std::span<const unsigned char>(seed)));
            std::string out = enc74(k) + " " + enc74(k.Neuter());
            for (size_t j = 2; j < w.size(); ++j) {
                CExtKey c;
                if (!k.Derive(c, (unsigned int)vd::ull(w[j]))) { out += " fail"; break; }
                k = c;
                out += " " + enc74(k) + " " + enc74(k.Neuter());
            }
            return out;
        }
        // xkey <chain> prv|pub <74hex> : EncodeExtKey / EncodeExtPubKey string, decoded again on every chain
        if (op == "xkey" && w.size() == 4) {
            int chain = std::stoi(w[1]);
            auto code = vd::unhex(w[3]);
            if (code.size() != BIP32_EXTKEY_SIZE) return "BADCASE";
            SelectParams(CHAINS[chain]);
            std::string s, out;
            if (w[2] == "prv") {
                CExtKey k; k.Decode(code.data());
                if (!k.key.IsValid()) return "invalid";
                s = EncodeExtKey(k);
                out = shex(s);
                for (int c = 0; c < 5; ++c) { SelectParams(CHAINS[c]); out += " " + enc74(DecodeExtKey(s)); }
            } else {
                CExtPubKey k; k.Decode(code.data());
                if (!k.pubkey.IsValid()) return "invalid";
                s = EncodeExtPubKey(k);
                out = shex(s);
                for (int c = 0; c < 5; ++c) { SelectParams(CHAINS[c]); out += " " + enc74(DecodeExtPubKey(s)); }
            }
            return out;
        }
        // wif <chain> <32hex> <compressed> : EncodeSecret, decoded again on every chain
        if (op == "wif" && w.size() == 4) {
            int chain = std::stoi(w[1]);
            auto kb = vd::unhex(w[2]);
            if (kb.size() != 32) return "BADCASE";
            CKey key;
            key.Set(kb.begin(), kb.end(), w[3] == "1");
            if (!key.IsValid()) return "invalid";
            SelectParams(CHAINS[chain]);
            std::string s = EncodeSecret(key);
            std::string out = shex(s);
            for (int c = 0; c < 5; ++c) {
                SelectParams(CHAINS[c]);
                CKey d = DecodeSecret(s);
                out += d.IsValid() ? " " + vd::hex(UCharCast(d.begin()), UCharCast(d.end())) + (d.IsCompressed() ? "/1" : "/0") : " invalid";
            }
            return out;
        }
        return "BADCASE";
    });
}
