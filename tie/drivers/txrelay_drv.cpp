// C++ side of C39 (relay part): the real PeerManager / mempool / validation of a regtest node with mock peers.
//   case: { peer <kind> | tx <i> | rm <i> | block | trickle <p> | getdata <p> <i> | mpreq <p> | ptx <i> | recv <p> <i> | pconn | pget <c> <i> }*
//         ptx: BroadcastTransaction(NO_MEMPOOL_PRIVATE_BROADCAST); recv: the tx arrives in a tx message of peer p; pconn: a private-broadcast
//         connection completes its handshake (which tx is INVed?); pget: GETDATA(MSG_TX) on such a connection
//   output per op:  peer -> index;  tx -> "ok:<entry_seq>:<mempool_seq>" | "rej";  rm -> mempool_seq;  block -> mempool_seq;
//                   trickle -> "<last_inv_seq>:<announced tx indices>";  getdata -> "tx" | "notfound" | "none"
//   hints: for every trickle, 1 if m_last_inv_sequence was set by it (an announcement snapshot was taken), else 0
#include <p2pd_harness.h>
#include <algorithm>
#include <script/script.h>
#include <key_io.h>

int main()
{
    p2pd::Harness H;
    TestChain100Setup& S = *H.setup;
    const CScript spk = GetScriptForRawPubKey(S.coinbaseKey.GetPubKey());
    H.advance(10);
    // one confirmed fan-out transaction provides the coins of all later transactions
    // a confirmed fan-out transaction provides the coins of the transactions of the cases; when it runs low (checked between
    // cases, when the mempool is empty) the next mature coinbase is fanned out the same way
    const int FAN = 1500;
    CTransactionRef fan;
    int fan_height = 0;
    int next_out = 0;
    size_t next_coinbase = 0;
    auto refill = [&]() {
        const size_t k = next_coinbase++;
        std::vector<CTxOut> outs(FAN, CTxOut(CAmount(3000000), spk));
        CMutableTransaction m = S.CreateValidMempoolTransaction({S.m_coinbase_txns.at(k)}, {COutPoint(S.m_coinbase_txns.at(k)->GetHash(), 0)}, (int)k + 1, {S.coinbaseKey}, outs, /*submit=*/false);
        fan = MakeTransactionRef(m);
        H.advance(1);
        S.CreateAndProcessBlock({m}, spk);
        H.sync();
        fan_height = WITH_LOCK(cs_main, return S.m_node.chainman->ActiveChain().Height());
        next_out = 0;
    };
    refill();
    return vd::main_loop([&](const std::vector<std::string>& w, const std::string&) -> std::string {
        // reset: no peers, empty mempool
        H.drop_peers();
        if (S.m_node.mempool->size() > 0) {
            std::vector<CMutableTransaction> in_block;
            for (const auto& e : S.m_node.mempool->infoAll()) in_block.emplace_back(*e.tx);
            H.advance(1);
            S.CreateAndProcessBlock(in_block, spk);
            H.sync();
        }
        if (S.m_node.mempool->size() > 0) return "BADSTATE mempool not empty";
        if (next_out > FAN - 100) refill();
        for (const auto& e : H.peerman->GetPrivateBroadcastInfo()) H.peerman->AbortPrivateBroadcast(e.tx->GetHash().ToUint256());
        std::map<int, CTransactionRef> txs;
        std::map<uint256, int> tx_of;
        auto make_tx = [&](int i) {
            auto it = txs.find(i);
            if (it != txs.end()) return it->second;
            if (next_out >= FAN) throw std::runtime_error("out of coins");
            int o = next_out++;
            CMutableTransaction m = S.CreateValidMempoolTransaction({fan}, {COutPoint(fan->GetHash(), (uint32_t)o)}, fan_height, {S.coinbaseKey},
                                                                    {CTxOut(CAmount(2990000), spk)}, /*submit=*/false);
            CTransactionRef t = MakeTransactionRef(m);
            txs[i] = t;
            tx_of[t->GetHash().ToUint256()] = i;
            tx_of[t->GetWitnessHash().ToUint256()] = i;
            return t;
        };
        auto mp_seq = [&]() { LOCK(S.m_node.mempool->cs); return S.m_node.mempool->GetSequence(); };
        std::string out, hints = " " + std::to_string(mp_seq()) + " " + std::to_string(H.now);
        auto emit = [&](const std::string& r) { out += (out.empty() ? "" : " ") + r; };
        size_t p = 0;
        while (p < w.size()) {
            const std::string op = w.at(p++);
            if (op == "peer") {
                int kind = vd::ll(w.at(p++));   // 0 outbound full relay, 1 inbound, 2 inbound noban (trickles at every SendMessages), 3 inbound with the mempool permission (BIP35)
                int n = H.nodes.size();
                in_addr a{}; a.s_addr = htonl(0x64000001u + n * 0x10000u);
                int idx = H.add_peer(kind == 0 ? ConnectionType::OUTBOUND_FULL_RELAY : ConnectionType::INBOUND,
                                     kind == 2 ? NetPermissionFlags::NoBan : kind == 3 ? NetPermissionFlags::Mempool : NetPermissionFlags::None, CService(a, 8333));
                emit(std::to_string(idx));
            } else if (op == "tx") {
                int i = vd::ll(w.at(p++));
                CTransactionRef t = make_tx(i);
                std::string err;
                auto r = node::BroadcastTransaction(S.m_node, t, err, /*max_tx_fee=*/0, node::TxBroadcast::MEMPOOL_AND_BROADCAST_TO_ALL, /*wait_callback=*/false);
                if (r != node::TransactionError::OK) { emit("rej"); continue; }
                uint64_t es;
                { LOCK(S.m_node.mempool->cs); auto it = S.m_node.mempool->GetIter(t->GetHash()); es = it ? (*it)->GetSequence() : 999999; }
                emit("ok:" + std::to_string(es) + ":" + std::to_string(mp_seq()));
            } else if (op == "rm") {
                int i = vd::ll(w.at(p++));
                CTransactionRef t = make_tx(i);
                { LOCK2(cs_main, S.m_node.mempool->cs); S.m_node.mempool->removeRecursive(*t, MemPoolRemovalReason::EXPIRY); }
                emit(std::to_string(mp_seq()));
            } else if (op == "block") {
                std::vector<CMutableTransaction> in_block;
                for (const auto& e : S.m_node.mempool->infoAll()) in_block.emplace_back(*e.tx);
                H.advance(1);
                S.CreateAndProcessBlock(in_block, spk);
                H.sync();
                if (getenv("TXRELAY_DEBUG")) fprintf(stderr, "ibd=%d height=%d\n", (int)S.m_node.chainman->IsInitialBlockDownload(), WITH_LOCK(cs_main, return S.m_node.chainman->ActiveChain().Height()));
                emit(std::to_string(mp_seq()));
            } else if (op == "trickle" || op == "mpreq") {
                int peer = vd::ll(w.at(p++));
                CNodeStateStats st0, st1;
                H.peerman->GetNodeStateStats(H.nodes.at(peer)->GetId(), st0);
                H.sent.clear();
                if (op == "mpreq") H.deliver(peer, NetMsg::Make(NetMsgType::MEMPOOL));
                H.advance(100);
                H.send_messages(peer);
                H.peerman->GetNodeStateStats(H.nodes.at(peer)->GetId(), st1);
                std::vector<int> ann;
                for (const auto& m : H.sent) {
                    if (m.peer != peer || m.type != NetMsgType::INV) continue;
                    DataStream ds{m.data};
                    std::vector<CInv> v; ds >> v;
                    for (const auto& inv : v) if (inv.IsGenTxMsg()) { auto it = tx_of.find(inv.hash); ann.push_back(it == tx_of.end() ? -1 : it->second); }
                }
                std::sort(ann.begin(), ann.end());
                std::string r = "L" + std::to_string(st1.m_last_inv_seq) + "@";
                for (size_t k = 0; k < ann.size(); ++k) r += (k ? "," : "") + std::to_string(ann[k]);
                // a snapshot is taken exactly when SendMessages assigns m_last_inv_sequence = mempool sequence
                bool snap = !ann.empty() || st1.m_last_inv_seq != st0.m_last_inv_seq;
                hints += snap ? " 1" : " 0";
                emit(r);
            } else if (op == "getdata") {
                int peer = vd::ll(w.at(p++)); int i = vd::ll(w.at(p++));
                CTransactionRef t = make_tx(i);
                H.sent.clear();
                H.deliver(peer, NetMsg::Make(NetMsgType::GETDATA, std::vector<CInv>{CInv{MSG_TX | MSG_WITNESS_FLAG, t->GetHash().ToUint256()}}));
                std::string r = H.nodes.at(peer)->fDisconnect ? "disc" : "none";
                if (getenv("TXRELAY_DEBUG")) { for (const auto& m : H.sent) fprintf(stderr, "sent peer=%d type=%s\n", m.peer, m.type.c_str()); fprintf(stderr, "disc=%d\n", (int)H.nodes.at(peer)->fDisconnect); }
                for (const auto& m : H.sent) { if (m.peer == peer && m.type == NetMsgType::TX) r = "tx"; else if (m.peer == peer && m.type == NetMsgType::NOTFOUND) r = "notfound"; }
                emit(r);
            } else if (op == "pget") {
                // GETDATA(MSG_TX) on a private-broadcast connection
                int peer = vd::ll(w.at(p++)); int i = vd::ll(w.at(p++));
                CTransactionRef t = make_tx(i);
                H.sent.clear();
                H.deliver(peer, NetMsg::Make(NetMsgType::GETDATA, std::vector<CInv>{CInv{MSG_TX, t->GetHash().ToUint256()}}));
                std::string r = H.nodes.at(peer)->fDisconnect ? "disc" : "none";
                for (const auto& m : H.sent) { if (m.peer == peer && m.type == NetMsgType::TX) r = "tx"; }
                emit(r);
            } else if (op == "ptx") {
                // BroadcastTransaction(NO_MEMPOOL_PRIVATE_BROADCAST): "p<error>:<in mempool>:<entries of the private queue for it>"
                int i = vd::ll(w.at(p++));
                CTransactionRef t = make_tx(i);
                std::string err;
                auto r = node::BroadcastTransaction(S.m_node, t, err, /*max_tx_fee=*/0, node::TxBroadcast::NO_MEMPOOL_PRIVATE_BROADCAST, /*wait_callback=*/false);
                bool inmp = S.m_node.mempool->exists(t->GetHash());
                int q = 0;
                for (const auto& e : H.peerman->GetPrivateBroadcastInfo()) if (e.tx->GetWitnessHash() == t->GetWitnessHash()) ++q;
                emit("p" + std::to_string((int)r) + ":" + (inmp ? "1" : "0") + ":" + std::to_string(q));
            } else if (op == "recv") {
                // the transaction arrives from the network in a tx message of peer <p>
                int peer = vd::ll(w.at(p++)); int i = vd::ll(w.at(p++));
                CTransactionRef t = make_tx(i);
                H.deliver(peer, NetMsg::Make(NetMsgType::TX, TX_WITH_WITNESS(*t)));
                H.sync();
                uint64_t es = 999999; bool inmp = false;
                { LOCK(S.m_node.mempool->cs); auto it = S.m_node.mempool->GetIter(t->GetHash()); if (it) { inmp = true; es = (*it)->GetSequence(); } }
                int q = 0;
                for (const auto& e : H.peerman->GetPrivateBroadcastInfo()) if (e.tx->GetWitnessHash() == t->GetWitnessHash()) ++q;
                emit((inmp ? "ok:" + std::to_string(es) + ":" + std::to_string(mp_seq()) : std::string("rej")) + ":q" + std::to_string(q));
            } else if (op == "pconn") {
                // a private-broadcast connection completes its handshake: which transaction is INVed on it?
                int n = H.nodes.size();
                in_addr a{}; a.s_addr = htonl(0x64000001u + n * 0x10000u);
                H.sent.clear();
                int idx = H.add_private_conn(CService(a, 8333));
                std::string r = H.nodes.at(idx)->fDisconnect ? "disc" : "none";
                for (const auto& m : H.sent) {
                    if (m.peer != idx || m.type != NetMsgType::INV) continue;
                    DataStream ds{m.data};
                    std::vector<CInv> v; ds >> v;
                    r = std::to_string(v.size()) + "inv";
                    for (const auto& inv : v) { auto it = tx_of.find(inv.hash); r += ":" + std::to_string(it == tx_of.end() ? -1 : it->second); }
                }
                int picked = -1;
                { auto pos = r.find("inv:"); if (pos != std::string::npos) picked = std::stoi(r.substr(pos + 4)); }
                hints += " " + std::to_string(picked);
                emit(std::to_string(idx) + "=" + r);
            } else return "BADCASE " + op;
        }
        return out + " ##" + hints;
    });
}
