// C++ side of the Rbf family (C26): replacement attempts against the REAL mempool of a regtest node
// (TestChain100Setup), through AcceptToMemoryPool / ProcessNewPackage.
//
// At start a fan-out transaction spending the first fixture coinbase into NUTXO anyone-can-spend
// (P2WSH OP_TRUE) outputs is mined, so every case starts from an empty mempool and NUTXO confirmed
// coins u0..u<NUTXO-1> of UTXO_VALUE each.  All case transactions spend/create P2WSH(OP_TRUE)
// outputs: no signatures, sizes are a function of the shape only.
//
// case line:  op ; op ; ...
//   add <name> <ver> <fee> <nout> <pad> <nin> {<src> <idx>}*nin     build + submit (must be accepted)
//   prio <name> <delta>                                             PrioritiseTransaction
//   rbf <name> <ver> <fee> <nout> <pad> <nin> {<src> <idx>}*nin     the replacement candidate (last op)
//   pkg <nameP> <ver> <fee> <nout> <pad> <nin> {..} , <nameC> <ver> <fee> <nout> <pad> <nin> {..}   2-tx package (last op)
//     src = u<k> (confirmed coin k, idx ignored) or a transaction name (its output idx); pad = size of an
//     extra OP_RETURN payload (0 = none); fee is taken from the first output.
// output:
//   POOL {name}* ## BEFORE {name modfee vsize}* DB {fee weight}* RES <ok|reject-reason> NEW {name fee vsize}* REPL {name}* AFTER {name}* DA {fee weight}*
//   (DB / DA: chunks of CTxMemPool::GetFeerateDiagram() before / after; names sorted)
//   or SETUPFAIL <op index> <reason> when a history transaction is not accepted.
#define VERIF_NO_TEST_GLOBALS
#include <drv_common.h>
#include <unistd.h>
extern const std::function<void(const std::string&)> G_TEST_LOG_FUN;
extern const std::function<std::vector<const char*>()> G_TEST_COMMAND_LINE_ARGUMENTS;
extern const std::function<std::string()> G_TEST_GET_FULL_NAME;
const std::function<void(const std::string&)> G_TEST_LOG_FUN{};
const std::function<std::vector<const char*>()> G_TEST_COMMAND_LINE_ARGUMENTS{[]() { return std::vector<const char*>{}; }};
const std::function<std::string()> G_TEST_GET_FULL_NAME{[]() { return std::string{"verif_rbf_"} + std::to_string(getpid()); }};

#include <consensus/amount.h>
#include <consensus/validation.h>
#include <kernel/mempool_entry.h>
#include <policy/packages.h>
#include <policy/policy.h>
#include <primitives/transaction.h>
#include <script/script.h>
#include <test/util/script.h>
#include <test/util/setup_common.h>
#include <txmempool.h>
#include <util/feefrac.h>
#include <util/time.h>
#include <validation.h>

#include <algorithm>
#include <map>
#include <memory>
#include <set>

namespace {
constexpr int NUTXO = 400;
constexpr CAmount UTXO_VALUE = 10'000'000; // 0.1 BTC

struct Built { CTransactionRef tx; CAmount fee; };

struct Driver {
    TestChain100Setup setup;
    std::vector<COutPoint> utxos;
    std::map<std::string, CTransactionRef> named;
    std::map<Txid, std::string> names;

    Driver() : setup{ChainType::REGTEST}
    {
        // fan out the first (mature) fixture coinbase and mine it
        std::vector<CTxOut> outs;
        for (int i = 0; i < NUTXO; ++i) outs.emplace_back(UTXO_VALUE, P2WSH_OP_TRUE);
        auto cb = setup.m_coinbase_txns.at(0);
        CMutableTransaction fan = setup.CreateValidMempoolTransaction({cb}, {COutPoint{cb->GetHash(), 0}}, 1, {setup.coinbaseKey}, outs, /*submit=*/false);
        setup.CreateAndProcessBlock({fan}, P2WSH_OP_TRUE);
        Txid fid = fan.GetHash();
        for (int i = 0; i < NUTXO; ++i) utxos.emplace_back(fid, i);
        LOCK2(cs_main, pool().cs);
        if (pool().size() != 0) throw std::runtime_error("mempool not empty after setup");
        if (!setup.m_node.chainman->ActiveChainstate().CoinsTip().HaveCoin(utxos[0])) throw std::runtime_error("fan-out not confirmed");
    }
    CTxMemPool& pool() { return *setup.m_node.mempool; }

    void reset()
    {
        LOCK2(cs_main, pool().cs);
        std::vector<CTransactionRef> all;
        for (const auto& e : pool().entryAll()) all.push_back(e.get().GetSharedTx());
        for (const auto& t : all) {
            pool().ClearPrioritisation(t->GetHash());
            if (pool().exists(t->GetHash())) pool().removeRecursive(*t, MemPoolRemovalReason::REPLACED);
        }
        for (const auto& [n, t] : named) pool().ClearPrioritisation(t->GetHash());
        if (pool().size() != 0) throw std::runtime_error("mempool reset failed");
        named.clear();
        names.clear();
    }

    // <name> <ver> <fee> <nout> <pad> <nin> {<src> <idx>}*
    Built build(const std::vector<std::string>& w, size_t& i, std::string& name)
    {
        name = w.at(i++);
        int ver = std::stoi(w.at(i++));
        CAmount fee = vd::ll(w.at(i++));
        int nout = std::stoi(w.at(i++));
        int pad = std::stoi(w.at(i++));
        int nin = std::stoi(w.at(i++));
        CMutableTransaction mtx;
        mtx.version = ver;
        CAmount in_value = 0;
        for (int k = 0; k < nin; ++k) {
            std::string src = w.at(i++);
            uint32_t idx = (uint32_t)std::stoul(w.at(i++));
            COutPoint op;
            if (src.size() > 1 && src[0] == 'u' && isdigit((unsigned char)src[1])) {
                op = utxos.at(std::stoul(src.substr(1)));
                in_value += UTXO_VALUE;
            } else {
                auto it = named.find(src);
                if (it == named.end()) throw std::runtime_error("unknown source " + src);
                op = COutPoint{it->second->GetHash(), idx};
                in_value += it->second->vout.at(idx).nValue;
            }
            CTxIn in{op, CScript{}, CTxIn::MAX_SEQUENCE_NONFINAL};
            in.scriptWitness.stack.push_back(WITNESS_STACK_ELEM_OP_TRUE);
            mtx.vin.push_back(in);
        }
        if (nout < 1) throw std::runtime_error("nout");
        CAmount each = (in_value - fee) / nout;
        CAmount first = in_value - fee - each * (nout - 1);
        for (int k = 0; k < nout; ++k) mtx.vout.emplace_back(k == 0 ? first : each, P2WSH_OP_TRUE);
        if (pad > 0) mtx.vout.emplace_back(0, CScript() << OP_RETURN << std::vector<unsigned char>(pad, 0x42));
        return {MakeTransactionRef(mtx), fee};
    }

    std::string name_of(const Txid& id) const
    {
        auto it = names.find(id);
        return it == names.end() ? "?" + id.ToString().substr(0, 8) : it->second;
    }
    void remember(const std::string& name, const CTransactionRef& tx) { named[name] = tx; names[tx->GetHash()] = name; }

    std::string pool_listing(bool with_fees)
    {
        LOCK2(cs_main, pool().cs);
        std::vector<std::string> v;
        for (const auto& e : pool().entryAll()) {
            std::string s = name_of(e.get().GetTx().GetHash());
            if (with_fees) s += " " + std::to_string(e.get().GetModifiedFee()) + " " + std::to_string(e.get().GetTxSize());
            v.push_back(s);
        }
        std::sort(v.begin(), v.end());
        std::string out;
        for (const auto& s : v) out += " " + s;
        return out;
    }
    std::string diagram()
    {
        LOCK2(cs_main, pool().cs);
        auto d = pool().GetFeerateDiagram();
        std::string out;
        for (size_t k = 1; k < d.size(); ++k) out += " " + std::to_string(d[k].fee - d[k - 1].fee) + " " + std::to_string(d[k].size - d[k - 1].size);
        return out;
    }
    static std::string reason(const TxValidationState& st)
    {
        std::string r = st.GetRejectReason();
        for (auto& c : r) if (c == ' ') c = '_';
        return r.empty() ? "invalid" : r;
    }

    std::string run(const std::vector<std::string>& w)
    {
        reset();
        size_t i = 0;
        int opn = 0;
        while (i < w.size()) {
            std::string op = w.at(i++);
            if (op == ";") continue;
            ++opn;
            if (op == "add") {
                std::string name;
                Built b = build(w, i, name);
                LOCK(cs_main);
                auto res = AcceptToMemoryPool(setup.m_node.chainman->ActiveChainstate(), b.tx, GetTime(), /*bypass_limits=*/false, /*test_accept=*/false);
                if (res.m_result_type != MempoolAcceptResult::ResultType::VALID) return "SETUPFAIL " + std::to_string(opn) + " " + reason(res.m_state);
                if (!res.m_replaced_transactions.empty()) return "SETUPFAIL " + std::to_string(opn) + " history-tx-replaced-something";
                remember(name, b.tx);
            } else if (op == "prio") {
                std::string name = w.at(i++);
                CAmount delta = vd::ll(w.at(i++));
                auto it = named.find(name);
                if (it == named.end()) return "SETUPFAIL " + std::to_string(opn) + " unknown-name";
                pool().PrioritiseTransaction(it->second->GetHash(), delta);
            } else if (op == "rbf" || op == "pkg") {
                std::string out = "POOL" + pool_listing(false) + " ## BEFORE" + pool_listing(true) + " DB" + diagram();
                std::string res_s, new_s, repl_s;
                std::vector<std::string> repl;
                if (op == "rbf") {
                    std::string name;
                    Built b = build(w, i, name);
                    if (names.count(b.tx->GetHash())) return "SETUPFAIL " + std::to_string(opn) + " candidate-identical-to-a-history-transaction";
                    remember(name, b.tx);
                    LOCK(cs_main);
                    auto res = AcceptToMemoryPool(setup.m_node.chainman->ActiveChainstate(), b.tx, GetTime(), false, false);
                    res_s = res.m_result_type == MempoolAcceptResult::ResultType::VALID ? "ok" : reason(res.m_state);
                    new_s = " " + name + " " + std::to_string(b.fee) + " " + std::to_string(GetVirtualTransactionSize(*b.tx));
                    for (const auto& t : res.m_replaced_transactions) repl.push_back(name_of(t->GetHash()));
                } else {
                    std::string n1, n2;
                    Built p = build(w, i, n1);
                    if (names.count(p.tx->GetHash())) return "SETUPFAIL " + std::to_string(opn) + " candidate-identical-to-a-history-transaction";
                    remember(n1, p.tx);
                    if (w.at(i++) != ",") return "BADCASE";
                    Built c = build(w, i, n2);
                    remember(n2, c.tx);
                    LOCK(cs_main);
                    auto pres = ProcessNewPackage(setup.m_node.chainman->ActiveChainstate(), pool(), {p.tx, c.tx}, /*test_accept=*/false, std::nullopt);
                    bool all_ok = pres.m_state.IsValid();
                    std::string why;
                    for (const auto& t : {p.tx, c.tx}) {
                        auto it = pres.m_tx_results.find(t->GetWitnessHash());
                        if (it == pres.m_tx_results.end()) { all_ok = false; continue; }
                        if (it->second.m_result_type == MempoolAcceptResult::ResultType::VALID) {
                            for (const auto& r : it->second.m_replaced_transactions) repl.push_back(name_of(r->GetHash()));
                        } else if (it->second.m_result_type != MempoolAcceptResult::ResultType::MEMPOOL_ENTRY) {
                            all_ok = false;
                            if (why.empty()) why = reason(it->second.m_state);
                        }
                    }
                    if (all_ok) res_s = "ok";
                    else {
                        std::string pr = pres.m_state.GetRejectReason();
                        for (auto& ch : pr) if (ch == ' ') ch = '_';
                        res_s = "pkg:" + (pr.empty() ? std::string("-") : pr) + ":" + (why.empty() ? std::string("-") : why);
                    }
                    new_s = " " + n1 + " " + std::to_string(p.fee) + " " + std::to_string(GetVirtualTransactionSize(*p.tx)) +
                            " " + n2 + " " + std::to_string(c.fee) + " " + std::to_string(GetVirtualTransactionSize(*c.tx));
                }
                std::sort(repl.begin(), repl.end());
                repl.erase(std::unique(repl.begin(), repl.end()), repl.end());
                for (const auto& r : repl) repl_s += " " + r;
                out += " RES " + res_s + " NEW" + new_s + " REPL" + repl_s + " AFTER" + pool_listing(false) + " DA" + diagram();
                return out;
            } else {
                return "BADCASE";
            }
        }
        return "NOCANDIDATE" + pool_listing(true);
    }
};
} // namespace

int main(int argc, char** argv)
{
    std::unique_ptr<Driver> d;
    return vd::main_loop([&](const std::vector<std::string>& w, const std::string&) -> std::string {
        if (!d) d = std::make_unique<Driver>();
        return d->run(w);
    });
}
