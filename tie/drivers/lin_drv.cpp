// C++ side of the Lin family (C24): builds a DepGraph from the case line and runs the real
// ChunkLinearization / ChunkLinearizationInfo / Linearize / PostLinearize of the current tree,
// in the order GenericClusterImpl::Relinearize uses them (Linearize, then PostLinearize).
//
// case:  lin <n> {fee size}*n <m> {parent child}*m <max_cost> <rng_seed> <is_topological> <k> {old}*k
// output: CH {fee size}* ## LIN {i}* OPT <0|1> POST {i}* POSTOLD {i}*|- CHL {fee size}* CHP {fee size}* CHI {i,i,..;}*
//   CH       ChunkLinearization(depgraph, old)            (deterministic: compared with the model)
//   LIN/OPT  Linearize(depgraph, max_cost, seed, index order, old, is_topological)
//   POST     PostLinearize applied to LIN;  POSTOLD: PostLinearize applied to old (only if is_topological and k = n)
//   CHL/CHP  ChunkLinearization of LIN / POST;  CHI: ChunkLinearizationInfo(POST) transaction sets
#define VERIF_NO_TEST_GLOBALS_UNUSED
#include <drv_common.h>
#include <cluster_linearize.h>
#include <util/bitset.h>
#include <util/feefrac.h>
#include <compare>
#include <vector>

using namespace cluster_linearize;
using SetType = BitSet<64>;

static std::string chunks_str(const std::vector<FeeFrac>& c)
{
    std::string s;
    for (const auto& f : c) s += " " + std::to_string(f.fee) + " " + std::to_string(f.size);
    return s;
}
static std::string lin_str(const std::vector<DepGraphIndex>& l)
{
    std::string s;
    for (auto i : l) s += " " + std::to_string(i);
    return s;
}

int main(int argc, char** argv)
{
    return vd::main_loop([&](const std::vector<std::string>& w, const std::string&) -> std::string {
        if (w.size() < 2 || w[0] != "lin") return "BADCASE";
        size_t i = 1;
        size_t n = std::stoul(w.at(i++));
        if (n > 64) return "BADCASE";
        DepGraph<SetType> depgraph;
        for (size_t k = 0; k < n; ++k) {
            int64_t f = vd::ll(w.at(i)); int32_t s = (int32_t)vd::ll(w.at(i + 1)); i += 2;
            depgraph.AddTransaction(FeeFrac{f, s});
        }
        size_t m = std::stoul(w.at(i++));
        for (size_t k = 0; k < m; ++k) {
            DepGraphIndex p = std::stoul(w.at(i)), c = std::stoul(w.at(i + 1)); i += 2;
            if (p >= n || c >= n) return "BADCASE";
            depgraph.AddDependencies(SetType::Singleton(p), c);
        }
        uint64_t max_cost = vd::ull(w.at(i++));
        uint64_t seed = vd::ull(w.at(i++));
        bool is_topo = w.at(i++) == "1";
        size_t k = std::stoul(w.at(i++));
        std::vector<DepGraphIndex> old;
        for (size_t j = 0; j < k; ++j) { DepGraphIndex x = std::stoul(w.at(i++)); if (x >= n) return "BADCASE"; old.push_back(x); }
        if (i != w.size()) return "BADCASE";
        if (k != 0 && k != n) return "BADCASE";

        std::string out = "CH" + chunks_str(ChunkLinearization(depgraph, old)) + " ##";
        auto fallback = [](DepGraphIndex a, DepGraphIndex b) noexcept { return a <=> b; };
        auto [lin, optimal, cost] = Linearize(depgraph, max_cost, seed, fallback, old, is_topo);
        out += " LIN" + lin_str(lin) + " OPT " + (optimal ? "1" : "0");
        std::vector<DepGraphIndex> post = lin;
        PostLinearize(depgraph, post);
        out += " POST" + lin_str(post);
        out += " POSTOLD";
        if (is_topo && k == n && n > 0) {
            std::vector<DepGraphIndex> po = old;
            PostLinearize(depgraph, po);
            out += lin_str(po);
        } else {
            out += " -";
        }
        out += " CHL" + chunks_str(ChunkLinearization(depgraph, lin));
        out += " CHP" + chunks_str(ChunkLinearization(depgraph, post));
        out += " CHI";
        for (const auto& ci : ChunkLinearizationInfo(depgraph, post)) {
            std::string s;
            for (auto t : ci.transactions) { if (!s.empty()) s += ","; s += std::to_string(t); }
            out += " " + s + ";";
        }
        return out;
    });
}
