// C++ side of C21 part A: drives the real MuHash3072 (src/crypto/muhash.cpp).
//   mh <cmd>...  registers 0..3:
//     i<k>:<hex> Insert   r<k>:<hex> Remove   n<k>:<hex> MuHash3072(span)   c<k> MuHash3072()
//     m<k><j>  reg k *= reg j    d<k><j>  reg k /= reg j
//     f<k> Finalize -> 32 bytes   s<k> serialize -> 768 bytes   u<k>:<hex768> unserialize
#include <drv_common.h>
#include <crypto/muhash.h>
#include <streams.h>
#include <uint256.h>
#include <span.h>

int main()
{
    return vd::main_loop([&](const std::vector<std::string>& w, const std::string&) -> std::string {
        if (w.empty() || w[0] != "mh") return "BADCASE";
        MuHash3072 reg[4];
        std::string out;
        auto emit = [&](const std::string& s) { if (!out.empty()) out += " "; out += s; };
        for (size_t i = 1; i < w.size(); ++i) {
            const std::string& c = w[i];
            if (c.size() < 2) return "BADCASE";
            size_t k = c[1] - '0';
            if (k > 3) { emit("ERR"); continue; }
            std::vector<unsigned char> a;
            auto colon = c.find(':');
            if (colon != std::string::npos) a = vd::unhex(c.substr(colon + 1));
            switch (c[0]) {
            case 'i': reg[k].Insert(a); break;
            case 'r': reg[k].Remove(a); break;
            case 'n': reg[k] = MuHash3072(a); break;
            case 'c': reg[k] = MuHash3072(); break;
            case 'm': { size_t j = c.at(2) - '0'; if (j > 3) { emit("ERR"); break; } MuHash3072 t = reg[j]; reg[k] *= t; break; }
            case 'd': { size_t j = c.at(2) - '0'; if (j > 3) { emit("ERR"); break; } MuHash3072 t = reg[j]; reg[k] /= t; break; }
            case 'f': { uint256 h; reg[k].Finalize(h); emit(vd::hex(h.begin(), h.end())); break; }
            case 's': { DataStream ss{}; ss << reg[k]; emit(vd::hex(UCharCast(ss.data()), UCharCast(ss.data()) + ss.size())); break; }
            case 'u': {
                if (a.size() != 2 * Num3072::BYTE_SIZE) { emit("ERR"); break; }
                DataStream ss{a};
                ss >> reg[k];
                break;
            }
            default: return "BADCASE";
            }
        }
        return out.empty() ? "-" : out;
    });
}
