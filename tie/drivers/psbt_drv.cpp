// C++ side of the PSBT check (C47, family wallet): the REAL (de)serialization, Merge / CombinePSBTs,
// ComputeTimeLock, signing, FinalizeAndExtractPSBT and VerifyScript of the current tree.
//
//   rt <tag> <hex>                 decode (DecodeRawPSBT), re-encode, decode again, re-encode again
//        -> ok <hex1> <fixed> <lock>      hex1 = re-encoding, fixed = 1 iff encode(decode(hex1)) == hex1,
//                                         lock = ComputeTimeLock() of the decoded PSBT (number | none)
//        -> err <dup|nosep|extra|other>   the decoder's error, classified by its message
//   merge <hexA> <hexB>            decode both; A.Merge(B), B.Merge(A), CombinePSBTs({A,B}), and A re-encoded
//        -> ok <hexAB|fail> <hexBA|fail> <hexCombineAB|fail> <hexA'>
//        -> err <which>                   when an argument does not decode
//   lock <version> <fallback|-> <time|->:<height|->*     build the PSBT in memory, ComputeTimeLock()
//        -> <number> | none
//   final <version> <seed> <type>*  (type: p2pkh | p2wpkh | p2sh-p2wpkh | p2wsh) create, sign with real keys,
//                                   FinalizeAndExtractPSBT, then judge the extracted transaction
//        -> ok <stripped_eq> <txid_eq> <verify_all> | fail <stage>
#include <drv_common.h>
#include <addresstype.h>
#include <common/types.h>
#include <key.h>
#include <policy/policy.h>
#include <primitives/transaction.h>
#include <psbt.h>
#include <pubkey.h>
#include <script/interpreter.h>
#include <script/script.h>
#include <script/sign.h>
#include <script/signingprovider.h>
#include <script/solver.h>
#include <streams.h>
#include <uint256.h>
#include <util/result.h>
#include <util/translation.h>

#include <optional>

namespace {
std::string hex_of(const PartiallySignedTransaction& p)
{
    DataStream ss{};
    ss << p;
    return vd::hex(MakeUCharSpan(ss));
}

struct Decoded {
    std::optional<PartiallySignedTransaction> psbt;
    std::string err;
};

Decoded decode(const std::string& hex)
{
    std::vector<unsigned char> raw = vd::unhex(hex);
    auto res = DecodeRawPSBT(MakeByteSpan(raw));
    Decoded d;
    if (res) {
        d.psbt = *res;
        return d;
    }
    const std::string msg = util::ErrorString(res).original;
    if (msg.find("Duplicate Key") != std::string::npos) d.err = "dup";
    else if (msg.find("Separator is missing") != std::string::npos) d.err = "nosep";
    else if (msg.find("extra data") != std::string::npos) d.err = "extra";
    else d.err = "other";
    return d;
}

std::string lock_str(const PartiallySignedTransaction& p)
{
    std::optional<uint32_t> l = p.ComputeTimeLock();
    return l ? std::to_string(*l) : std::string("none");
}

std::optional<uint32_t> opt_u32(const std::string& s)
{
    if (s == "-") return std::nullopt;
    return (uint32_t)vd::ull(s);
}

Txid txid_of(unsigned i)
{
    uint256 h;
    h.data()[0] = (unsigned char)(i + 1);
    h.data()[31] = 0x47;
    return Txid::FromUint256(h);
}
} // namespace

int main(int argc, char** argv)
{
    ECC_Context ecc;
    return vd::main_loop([&](const std::vector<std::string>& w, const std::string&) -> std::string {
        if (w.size() == 3 && w[0] == "rt") {
            Decoded d = decode(w[2]);
            if (!d.psbt) return "err " + d.err;
            const std::string h1 = hex_of(*d.psbt);
            Decoded d2 = decode(h1);
            const bool fixed = d2.psbt && hex_of(*d2.psbt) == h1;
            return "ok " + h1 + " " + (fixed ? "1" : "0") + " " + lock_str(*d.psbt);
        }
        if (w.size() == 3 && w[0] == "merge") {
            Decoded a = decode(w[1]), b = decode(w[2]);
            if (!a.psbt) return "err A";
            if (!b.psbt) return "err B";
            PartiallySignedTransaction ab = *a.psbt, ba = *b.psbt;
            const bool ok_ab = ab.Merge(*b.psbt);
            const bool ok_ba = ba.Merge(*a.psbt);
            std::optional<PartiallySignedTransaction> comb = CombinePSBTs({*a.psbt, *b.psbt});
            return std::string("ok ") + (ok_ab ? hex_of(ab) : "fail") + " " + (ok_ba ? hex_of(ba) : "fail") + " " +
                   (comb ? hex_of(*comb) : "fail") + " " + hex_of(*a.psbt);
        }
        if (w.size() >= 3 && w[0] == "lock") {
            const uint32_t version = (uint32_t)vd::ull(w[1]);
            CMutableTransaction mtx;
            for (size_t i = 3; i < w.size(); ++i) mtx.vin.emplace_back(COutPoint(txid_of((unsigned)i), (uint32_t)i));
            mtx.vout.emplace_back(1000, CScript() << OP_TRUE);
            PartiallySignedTransaction p(mtx, version);
            p.fallback_locktime = opt_u32(w[2]);
            for (size_t i = 3; i < w.size(); ++i) {
                const auto colon = w[i].find(':');
                if (colon == std::string::npos) return "BADCASE";
                p.inputs[i - 3].time_locktime = opt_u32(w[i].substr(0, colon));
                p.inputs[i - 3].height_locktime = opt_u32(w[i].substr(colon + 1));
            }
            return lock_str(p);
        }
        if (w.size() >= 4 && w[0] == "final") {
            const uint32_t version = (uint32_t)vd::ull(w[1]);
            const unsigned seed = (unsigned)vd::ull(w[2]);
            FillableSigningProvider provider;
            CMutableTransaction spend;
            std::vector<CTransactionRef> prevs;
            std::vector<CTxOut> spent;
            for (size_t i = 3; i < w.size(); ++i) {
                unsigned char kb[32] = {0};
                kb[0] = 1; kb[1] = (unsigned char)(seed & 0xff); kb[2] = (unsigned char)((seed >> 8) & 0xff); kb[3] = (unsigned char)i;
                kb[31] = 7;
                CKey key;
                key.Set(kb, kb + 32, /*fCompressedIn=*/true);
                if (!key.IsValid()) return "fail key";
                provider.AddKey(key);
                const CPubKey pub = key.GetPubKey();
                CScript spk;
                if (w[i] == "p2pkh") {
                    spk = GetScriptForDestination(PKHash(pub));
                } else if (w[i] == "p2wpkh") {
                    spk = GetScriptForDestination(WitnessV0KeyHash(pub));
                } else if (w[i] == "p2sh-p2wpkh") {
                    const CScript redeem = GetScriptForDestination(WitnessV0KeyHash(pub));
                    provider.AddCScript(redeem);
                    spk = GetScriptForDestination(ScriptHash(redeem));
                } else if (w[i] == "p2wsh") {
                    const CScript ws = GetScriptForRawPubKey(pub);
                    provider.AddCScript(ws);
                    spk = GetScriptForDestination(WitnessV0ScriptHash(ws));
                } else {
                    return "BADCASE";
                }
                CMutableTransaction prev;
                prev.vin.emplace_back(COutPoint(txid_of((unsigned)(seed + i)), 0));
                prev.vout.emplace_back(50000 + (CAmount)i, CScript() << OP_TRUE);
                prev.vout.emplace_back(100000 + (CAmount)seed, spk);
                prevs.push_back(MakeTransactionRef(prev));
                spent.push_back(prevs.back()->vout[1]);
                spend.vin.emplace_back(COutPoint(prevs.back()->GetHash(), 1), CScript(), 0xfffffffd);
            }
            spend.vout.emplace_back(90000, CScript() << OP_TRUE);
            spend.nLockTime = seed % 3 == 0 ? 0 : 700000 + seed;
            PartiallySignedTransaction psbt(spend, version);
            for (size_t i = 0; i < psbt.inputs.size(); ++i) {
                psbt.inputs[i].non_witness_utxo = prevs[i];
                if (w[i + 3] != "p2pkh") psbt.inputs[i].witness_utxo = spent[i];
            }
            // through the wire format once, as a signer would receive it
            Decoded wire = decode(hex_of(psbt));
            if (!wire.psbt) return "fail decode-" + wire.err;
            PartiallySignedTransaction p = *wire.psbt;
            std::optional<CMutableTransaction> unsigned_tx = p.GetUnsignedTx();
            if (!unsigned_tx) return "fail unsigned";
            const Txid unsigned_txid = unsigned_tx->GetHash();
            std::optional<PrecomputedTransactionData> txdata = PrecomputePSBTData(p);
            if (!txdata) return "fail precompute";
            for (size_t i = 0; i < p.inputs.size(); ++i) {
                auto r = SignPSBTInput(provider, p, (int)i, &*txdata, common::PSBTFillOptions{.sign = true, .sighash_type = std::nullopt, .finalize = false, .bip32_derivs = false});
                if (!r) return "fail sign";
            }
            // signer -> finalizer over the wire
            Decoded wire2 = decode(hex_of(p));
            if (!wire2.psbt) return "fail decode2-" + wire2.err;
            PartiallySignedTransaction f = *wire2.psbt;
            CMutableTransaction result;
            if (!FinalizeAndExtractPSBT(f, result)) return "fail finalize";
            const bool txid_eq = result.GetHash() == unsigned_txid;
            CMutableTransaction stripped = result;
            for (auto& in : stripped.vin) { in.scriptSig.clear(); in.scriptWitness.SetNull(); }
            const bool stripped_eq = stripped.GetHash() == unsigned_txid;
            bool verify_all = true;
            PrecomputedTransactionData pre;
            pre.Init(result, std::vector<CTxOut>(spent), true);
            for (size_t i = 0; i < result.vin.size(); ++i) {
                ScriptError serr;
                const bool ok = VerifyScript(result.vin[i].scriptSig, spent[i].scriptPubKey, &result.vin[i].scriptWitness,
                                             STANDARD_SCRIPT_VERIFY_FLAGS,
                                             MutableTransactionSignatureChecker(&result, (unsigned)i, spent[i].nValue, pre, MissingDataBehavior::FAIL), &serr);
                verify_all = verify_all && ok;
            }
            return std::string("ok ") + (stripped_eq ? "1" : "0") + " " + (txid_eq ? "1" : "0") + " " + (verify_all ? "1" : "0");
        }
        return "BADCASE";
    });
}
