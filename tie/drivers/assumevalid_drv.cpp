// C++ side of C57 (scripts are skipped only under the assumed-valid conditions).
//
// function-level cases (no node):
//   proof <nBits>                                   GetBitsProof(nBits) as hex
//   ept <to_work hex> <from_work hex> <tip nBits> <spacing>
//        GetBlockProofEquivalentTime(to, from, tip, params) on synthetic CBlockIndex objects (nChainWork / nBits set
//        directly) -> the int64 result, or DIVZERO when arith_uint256 division throws
// decision cases (the REAL Chainstate::ConnectBlock on a real chainstate, built once per process):
//   av <assumevalid> <best header> <minimum chain work>
//        fixture: TestChain100Setup (heights 0..100, active tip F = 100); header chain A101..A2240 on F and a
//        competing header chain B101..B2300 on F (headers only, real ProcessNewBlockHeaders); the full block A101,
//        which holds one transaction spending the fixture coinbase of height 1 with an INVALID signature.
//        <assumevalid> = none | unknown | A<h> | B<h>      (A<h> with h <= 100 is a fixture block)
//        <best header> = A<h> | B<h>          m_chainman.m_best_header is pointed at that index entry (state injection)
//        m_options.assumed_valid_block / minimum_chain_work are set in place, then
//        ConnectBlock(A101, state, pindex(A101), view on CoinsTip, fJustCheck=true) is called:
//        `skip` = the block was accepted (its scripts were not verified), `verify` = rejected by script verification,
//        anything else is printed as other:<reject reason>.
#define VERIF_NO_TEST_GLOBALS
#include <drv_common.h>
#include <unistd.h>
extern const std::function<void(const std::string&)> G_TEST_LOG_FUN;
extern const std::function<std::vector<const char*>()> G_TEST_COMMAND_LINE_ARGUMENTS;
extern const std::function<std::string()> G_TEST_GET_FULL_NAME;
const std::function<void(const std::string&)> G_TEST_LOG_FUN{};
const std::function<std::vector<const char*>()> G_TEST_COMMAND_LINE_ARGUMENTS{[]() { return std::vector<const char*>{}; }};
const std::function<std::string()> G_TEST_GET_FULL_NAME{[]() { return std::string{"verif_assumevalid_"} + std::to_string(getpid()); }};

#include <arith_uint256.h>
#include <chain.h>
#include <chainparams.h>
#include <coins.h>
#include <consensus/merkle.h>
#include <consensus/validation.h>
#include <key.h>
#include <pow.h>
#include <primitives/block.h>
#include <primitives/transaction.h>
#include <script/script.h>
#include <test/util/setup_common.h>
#include <uint256.h>
#include <validation.h>

#include <filesystem>
#include <map>
#include <memory>

namespace {
constexpr int A_TOP = 2240;
constexpr int B_TOP = 2300;

struct Fixture {
    std::unique_ptr<TestChain100Setup> setup;
    std::map<int, CBlockIndex*> a, b;   // by height (a includes the fixture chain 0..100)
    std::shared_ptr<CBlock> blockA101;
    ChainstateManager& cm() { return *setup->m_node.chainman; }

    static void grind(CBlockHeader& h, const Consensus::Params& cons)
    {
        while (!CheckProofOfWork(h.GetHash(), h.nBits, cons)) ++h.nNonce;
    }

    Fixture()
    {
        TestOpts opts;
        opts.extra_args = {"-nodebuglogfile", "-nodebug", "-checkblockindex=0"};
        setup = std::make_unique<TestChain100Setup>(ChainType::REGTEST, opts);
        const Consensus::Params& cons = cm().GetConsensus();
        const CBlockIndex* tip;
        {
            LOCK(cs_main);
            tip = cm().ActiveChain().Tip();
            for (CBlockIndex* p = cm().ActiveChain().Tip(); p; p = p->pprev) a[p->nHeight] = p;
        }
        // the block A101: coinbase + a spend of the fixture coinbase 1 with a signature that does not verify
        auto blk = std::make_shared<CBlock>();
        blk->nVersion = 0x20000000;
        blk->hashPrevBlock = tip->GetBlockHash();
        blk->nTime = tip->nTime + 1;
        blk->nBits = tip->nBits;
        CMutableTransaction cb;
        cb.version = 2;
        cb.vin.resize(1);
        cb.vin[0].prevout.SetNull();
        cb.vin[0].scriptSig = CScript() << 101 << OP_0;
        cb.vout.emplace_back(GetBlockSubsidy(101, cons), CScript() << OP_TRUE);
        blk->vtx.push_back(MakeTransactionRef(std::move(cb)));
        CMutableTransaction bad;
        bad.version = 2;
        bad.vin.emplace_back(COutPoint(setup->m_coinbase_txns.at(0)->GetHash(), 0));
        std::vector<unsigned char> garbage(71, 0x30);
        garbage.push_back(SIGHASH_ALL);
        bad.vin[0].scriptSig = CScript() << garbage;
        bad.vout.emplace_back(setup->m_coinbase_txns.at(0)->vout[0].nValue - 10000, CScript() << OP_TRUE);
        blk->vtx.push_back(MakeTransactionRef(std::move(bad)));
        blk->hashMerkleRoot = BlockMerkleRoot(*blk);
        grind(*blk, cons);
        blockA101 = blk;

        auto chain = [&](int top, const CBlockHeader* first, uint32_t salt) {
            std::vector<CBlockHeader> hs;
            CBlockHeader prev;
            uint256 prev_hash = tip->GetBlockHash();
            uint32_t t = tip->nTime;
            for (int h = 101; h <= top; ++h) {
                CBlockHeader x;
                if (h == 101 && first) {
                    x = *first;
                } else {
                    x.nVersion = 0x20000000;
                    x.hashPrevBlock = prev_hash;
                    x.nTime = t + 1;
                    x.nBits = tip->nBits;
                    x.hashMerkleRoot = uint256{};
                    x.hashMerkleRoot.data()[0] = (unsigned char)(h & 0xff);
                    x.hashMerkleRoot.data()[1] = (unsigned char)((h >> 8) & 0xff);
                    x.hashMerkleRoot.data()[2] = (unsigned char)salt;
                    grind(x, cons);
                }
                hs.push_back(x);
                prev_hash = x.GetHash();
                t = x.nTime;
            }
            return hs;
        };
        CBlockHeader firstA = static_cast<const CBlockHeader&>(*blk);
        auto ha = chain(A_TOP, &firstA, 1);
        auto hb = chain(B_TOP, nullptr, 2);
        BlockValidationState st;
        if (!cm().ProcessNewBlockHeaders(ha, /*min_pow_checked=*/true, st)) throw std::runtime_error("headers A rejected: " + st.ToString());
        if (!cm().ProcessNewBlockHeaders(hb, /*min_pow_checked=*/true, st)) throw std::runtime_error("headers B rejected: " + st.ToString());
        LOCK(cs_main);
        for (const auto& h : ha) { CBlockIndex* p = cm().m_blockman.LookupBlockIndex(h.GetHash()); if (!p) throw std::runtime_error("A missing"); a[p->nHeight] = p; }
        for (const auto& h : hb) { CBlockIndex* p = cm().m_blockman.LookupBlockIndex(h.GetHash()); if (!p) throw std::runtime_error("B missing"); b[p->nHeight] = p; }
    }

    CBlockIndex* sel(const std::string& s)
    {
        if (s.size() < 2) throw std::runtime_error("BADCASE");
        int h = (int)vd::ll(s.substr(1));
        auto& m = s[0] == 'A' ? a : b;
        if (s[0] != 'A' && s[0] != 'B') throw std::runtime_error("BADCASE");
        auto it = m.find(h);
        if (it == m.end()) throw std::runtime_error("BADCASE");
        return it->second;
    }

    std::string run(const std::string& av, const std::string& best, const std::string& minwork)
    {
        LOCK(cs_main);
        auto& opt_av = const_cast<std::optional<uint256>&>(cm().m_options.assumed_valid_block);
        auto& opt_mw = const_cast<std::optional<arith_uint256>&>(cm().m_options.minimum_chain_work);
        if (av == "none") opt_av = uint256{};
        else if (av == "unknown") { uint256 u; u.data()[5] = 0x77; opt_av = u; }
        else opt_av = sel(av)->GetBlockHash();
        opt_mw = UintToArith256(uint256::FromHex(std::string(64 - std::min<size_t>(64, minwork.size()), '0') + minwork).value());
        CBlockIndex* saved = cm().m_best_header;
        cm().m_best_header = sel(best);
        CBlockIndex* pindex = a.at(101);
        Chainstate& cs = cm().ActiveChainstate();
        CCoinsViewCache view(&cs.CoinsTip());
        BlockValidationState st;
        CBlock copy(*blockA101);
        bool ok = cs.ConnectBlock(copy, st, pindex, view, /*fJustCheck=*/true);
        cm().m_best_header = saved;
        if (ok) return "skip";
        std::string r = st.GetRejectReason();
        if (r.rfind("block-script-verify-flag-failed", 0) == 0 || r.rfind("mandatory-script-verify-flag-failed", 0) == 0) return "verify";
        for (char& c : r) if (c == ' ') c = '_';
        return "other:" + r;
    }
};

std::unique_ptr<Fixture> g_fx;

arith_uint256 from_hex(const std::string& h)
{
    if (h.size() > 64) throw std::runtime_error("BADCASE");
    return UintToArith256(uint256::FromHex(std::string(64 - h.size(), '0') + h).value());
}

void cleanup_dir()
{
    std::error_code ec;
    std::filesystem::remove_all(std::filesystem::temp_directory_path() / "test_common bitcoin" / G_TEST_GET_FULL_NAME(), ec);
}
} // namespace

int main()
{
    int rc = vd::main_loop([&](const std::vector<std::string>& w, const std::string&) -> std::string {
        if (w.empty()) return "BADCASE";
        if (w[0] == "proof" && w.size() == 2) {
            return ArithToUint256(GetBitsProof((uint32_t)vd::ull(w[1]))).ToString();
        }
        if (w[0] == "ept" && w.size() == 5) {
            CBlockIndex to, from, tip;
            to.nChainWork = from_hex(w[1]);
            from.nChainWork = from_hex(w[2]);
            tip.nBits = (uint32_t)vd::ull(w[3]);
            Consensus::Params p = CreateChainParams(ArgsManager{}, ChainType::REGTEST)->GetConsensus();
            p.nPowTargetSpacing = vd::ll(w[4]);
            try {
                return std::to_string(GetBlockProofEquivalentTime(to, from, tip, p));
            } catch (const uint_error&) {
                return "DIVZERO";
            }
        }
        if (w[0] == "av" && w.size() == 4) {
            if (!g_fx) g_fx = std::make_unique<Fixture>();
            return g_fx->run(w[1], w[2], w[3]);
        }
        return "BADCASE";
    });
    g_fx.reset();
    cleanup_dir();
    return rc;
}
