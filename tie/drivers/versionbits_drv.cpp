// C++ side of the versionbits family (C53): synthetic CBlockIndex trees (as versionbits_tests builds
// them: nHeight, pprev, nTime, nVersion, BuildSkip) queried through the real
// AbstractThresholdConditionChecker::GetStateFor / GetStateSinceHeightFor / GetStateStatisticsFor of a
// VersionBitsConditionChecker, with ONE cache that persists across the queries of a case.
#include <drv_common.h>
#include <chain.h>
#include <consensus/params.h>
#include <versionbits.h>
#include <versionbits_impl.h>

#include <deque>

namespace {
class Checker final : public VersionBitsConditionChecker
{
    mutable ThresholdConditionCache cache;
public:
    explicit Checker(const Consensus::BIP9Deployment& dep) : VersionBitsConditionChecker{dep} {}
    ThresholdState StateFor(const CBlockIndex* p) const { return AbstractThresholdConditionChecker::GetStateFor(p, cache); }
    int SinceFor(const CBlockIndex* p) const { return AbstractThresholdConditionChecker::GetStateSinceHeightFor(p, cache); }
    void Clear() { cache.clear(); }
};
int state_num(ThresholdState s)
{
    switch (s) {
    case ThresholdState::DEFINED: return 0;
    case ThresholdState::STARTED: return 1;
    case ThresholdState::LOCKED_IN: return 2;
    case ThresholdState::ACTIVE: return 3;
    case ThresholdState::FAILED: return 4;
    }
    return 9;
}
} // namespace

int main(int argc, char** argv)
{
    return vd::main_loop([&](const std::vector<std::string>& w, const std::string&) -> std::string {
        if (w.size() < 9 || w[0] != "vb") return "BADCASE";
        size_t i = 1;
        Consensus::BIP9Deployment dep;
        dep.nStartTime = vd::ll(w.at(i++));
        dep.nTimeout = vd::ll(w.at(i++));
        dep.min_activation_height = (int)vd::ll(w.at(i++));
        dep.period = (uint32_t)vd::ull(w.at(i++));
        dep.threshold = (uint32_t)vd::ull(w.at(i++));
        dep.bit = (int)vd::ll(w.at(i++));
        size_t n = std::stoul(w.at(i++));
        std::deque<CBlockIndex> blocks;
        for (size_t b = 0; b < n; ++b) {
            long long par = vd::ll(w.at(i++));
            blocks.emplace_back();
            CBlockIndex& bi = blocks.back();
            bi.pprev = par < 0 ? nullptr : &blocks.at((size_t)par);
            bi.nHeight = bi.pprev ? bi.pprev->nHeight + 1 : 0;
            bi.nTime = (uint32_t)vd::ull(w.at(i++));
            bi.nVersion = (int32_t)(uint32_t)vd::ull(w.at(i++));
            bi.BuildSkip();
        }
        if (w.at(i) != "|") return "BADCASE";
        ++i;
        Checker checker(dep);
        auto blk = [&](const std::string& s) -> const CBlockIndex* { return s == "null" ? nullptr : &blocks.at(std::stoul(s)); };
        std::string out;
        auto emit = [&](const std::string& s) { if (!out.empty()) out += " "; out += s; };
        while (i < w.size()) {
            const std::string& q = w[i++];
            if (q == "st") {
                emit(std::to_string(state_num(checker.StateFor(blk(w.at(i++))))));
            } else if (q == "since") {
                emit(std::to_string(checker.SinceFor(blk(w.at(i++)))));
            } else if (q == "stats") {
                BIP9Stats s = checker.GetStateStatisticsFor(blk(w.at(i++)));
                emit(std::to_string(s.period) + "," + std::to_string(s.threshold) + "," + std::to_string(s.elapsed) + "," +
                     std::to_string(s.count) + "," + (s.possible ? "1" : "0"));
            } else if (q == "clear") {
                checker.Clear();
                emit("-");
            } else {
                return "BADCASE";
            }
        }
        return out;
    });
}
