// C++ side of the wallet balance check (C44, family wallet): a REAL CWallet attached to a REAL regtest node
// (TestChain100Setup: chainstate, mempool, validation signals), driven by a scenario; after every step the
// wallet's GetBalance / AvailableCoins and its per-transaction states are printed next to the node's active
// chain and mempool.
//
//   case:  bal <op>*
//   op  :  mine:<k>[:w]                 mine k empty blocks (coinbase to the wallet key with :w, else external)
//          tx:<name>:<in,..>:<out,..>:<p|b>   in = cb<h> (coinbase of the active block at height h, output 0) | <name>.<n>
//                                       out = m<sats> (wallet script) | o<sats> (external script); the rest is fee
//                                       p: submit to the mempool, b: mine it directly in a new block
//          pool                         mine one block with every mempool transaction
//          reorg:<d>                    invalidate the active block at height tip-d+1, mine d+1 external blocks
//          abandon:<name>
//   output: T <name>=<c|n>/<in,..>/<value:m|o,..> ...  then per step
//           | <op result> tip=<h> chain=<h>:<name>,..;.. pool=<name>,.. wallet=<name>=<state>,.. bal=<trusted>,<pending>,<immature> coins=<name.n>,..
//   state:  C<height> confirmed, M in mempool, X<height> conflicted by the block at that height, I inactive, A abandoned,
//           suffix ! when the wallet marked it mempool-conflicted
#include <drv_common.h>
#include <addresstype.h>
#include <consensus/validation.h>
#include <interfaces/chain.h>
#include <key.h>
#include <node/context.h>
#include <policy/policy.h>
#include <primitives/block.h>
#include <primitives/transaction.h>
#include <script/script.h>
#include <test/util/setup_common.h>
#include <txmempool.h>
#include <validation.h>
#include <validationinterface.h>
#include <wallet/coincontrol.h>
#include <wallet/receive.h>
#include <wallet/spend.h>
#include <wallet/test/util.h>
#include <wallet/wallet.h>

#include <algorithm>
#include <map>
#include <memory>
#include <set>

using namespace wallet;

namespace {
std::vector<std::string> split(const std::string& s, char sep)
{
    std::vector<std::string> out;
    std::string cur;
    for (char c : s) {
        if (c == sep) { out.push_back(cur); cur.clear(); } else cur.push_back(c);
    }
    out.push_back(cur);
    return out;
}

struct Known {
    std::string name;
    CTransactionRef tx;
    bool coinbase;
};

struct Scenario : public TestChain100Setup {
    CKey wkey;
    CScript mine_spk, other_spk;
    std::unique_ptr<CWallet> wallet;
    std::map<Txid, Known> known;          // every transaction that has a name
    std::map<std::string, Txid> by_name;
    std::vector<std::string> order;       // names in creation order
    std::map<uint256, std::vector<std::string>> block_names; // block hash -> names of its named transactions
    int counter{0};

    Scenario()
    {
        unsigned char kb[32] = {0};
        kb[0] = 0x44; kb[31] = 0x01; kb[5] = 0x77;
        wkey.Set(kb, kb + 32, true);
        mine_spk = GetScriptForDestination(WitnessV0KeyHash(wkey.GetPubKey()));
        other_spk = GetScriptForDestination(WitnessV0KeyHash(coinbaseKey.GetPubKey()));
        wallet = CreateSyncedWallet(*m_node.chain, WITH_LOCK(Assert(m_node.chainman)->GetMutex(), return m_node.chainman->ActiveChain()), wkey);
        wallet->m_chain_notifications_handler = m_node.chain->handleNotifications({wallet.get(), [](CWallet*) {}});
        // the 100 initial coinbases (external)
        int h = 1;
        for (const auto& tx : m_coinbase_txns) { remember("cb" + std::to_string(h), tx, true); ++h; }
    }
    ~Scenario()
    {
        m_node.validation_signals->SyncWithValidationInterfaceQueue();
        wallet->m_chain_notifications_handler.reset();
        wallet.reset();
    }

    void remember(const std::string& name, const CTransactionRef& tx, bool coinbase)
    {
        known[tx->GetHash()] = Known{name, tx, coinbase};
        by_name[name] = tx->GetHash();
        order.push_back(name);
    }

    bool pays_wallet(const CTransaction& tx) const
    {
        return std::any_of(tx.vout.begin(), tx.vout.end(), [&](const CTxOut& o) { return o.scriptPubKey == mine_spk; });
    }

    int tip_height() { return WITH_LOCK(m_node.chainman->GetMutex(), return m_node.chainman->ActiveChain().Height()); }

    std::string name_of(const Txid& id) const
    {
        auto it = known.find(id);
        return it == known.end() ? std::string("?") : it->second.name;
    }

    // mine one block with the given transactions; names its coinbase cb<h>x<counter> when it pays the wallet
    bool mine_block(const std::vector<CMutableTransaction>& txs, bool to_wallet)
    {
        const int before = tip_height();
        CBlock block = CreateAndProcessBlock(txs, to_wallet ? mine_spk : other_spk);
        m_node.validation_signals->SyncWithValidationInterfaceQueue();
        const bool ok = tip_height() == before + 1 &&
                        WITH_LOCK(m_node.chainman->GetMutex(), return m_node.chainman->ActiveChain().Tip()->GetBlockHash()) == block.GetHash();
        if (ok) {
            std::vector<std::string> names;
            ++counter;
            const std::string cbname = "cb" + std::to_string(before + 1) + "x" + std::to_string(counter);
            remember(cbname, block.vtx[0], true);
            names.push_back(cbname);
            for (size_t i = 1; i < block.vtx.size(); ++i) names.push_back(name_of(block.vtx[i]->GetHash()));
            block_names[block.GetHash()] = names;
        }
        return ok;
    }

    // the coinbase of the active block at height h
    std::optional<Txid> active_coinbase(int h)
    {
        LOCK(m_node.chainman->GetMutex());
        const CBlockIndex* idx = m_node.chainman->ActiveChain()[h];
        if (!idx) return std::nullopt;
        if (h <= 100) return m_coinbase_txns.at(h - 1)->GetHash();
        auto it = block_names.find(idx->GetBlockHash());
        if (it == block_names.end() || it->second.empty()) return std::nullopt;
        return by_name.at(it->second[0]);
    }

    std::string do_tx(const std::vector<std::string>& f)
    {
        if (f.size() != 5) return "bad";
        const std::string& name = f[1];
        std::vector<CTransactionRef> parents, distinct_parents;
        std::vector<COutPoint> inputs;
        for (const std::string& r : split(f[2], ',')) {
            Txid id;
            uint32_t n = 0;
            if (r.rfind("cb", 0) == 0 && r.find('.') == std::string::npos) {
                auto cb = active_coinbase(std::stoi(r.substr(2)));
                if (!cb) return "noinput";
                id = *cb;
            } else {
                const auto dot = r.find('.');
                if (dot == std::string::npos) return "bad";
                auto it = by_name.find(r.substr(0, dot));
                if (it == by_name.end()) return "noinput";
                id = it->second;
                n = (uint32_t)std::stoul(r.substr(dot + 1));
            }
            const Known& k = known.at(id);
            if (n >= k.tx->vout.size()) return "noinput";
            parents.push_back(k.tx);
            if (std::none_of(distinct_parents.begin(), distinct_parents.end(), [&](const CTransactionRef& t) { return t->GetHash() == id; })) distinct_parents.push_back(k.tx);
            if (std::find(inputs.begin(), inputs.end(), COutPoint(id, n)) != inputs.end()) return "bad";
            inputs.emplace_back(id, n);
        }
        std::vector<CTxOut> outputs;
        for (const std::string& o : split(f[3], ',')) {
            if (o.size() < 2) return "bad";
            outputs.emplace_back((CAmount)std::stoll(o.substr(1)), o[0] == 'm' ? mine_spk : other_spk);
        }
        CAmount in_total = 0;
        for (size_t i = 0; i < inputs.size(); ++i) in_total += parents[i]->vout[inputs[i].n].nValue;
        CAmount out_total = 0;
        for (const auto& o : outputs) out_total += o.nValue;
        if (out_total > in_total) return "overspend";
        CMutableTransaction mtx = CreateValidTransaction(distinct_parents, inputs, 1, {coinbaseKey, wkey}, outputs, std::nullopt, std::nullopt).first;
        CTransactionRef tx = MakeTransactionRef(mtx);
        if (known.count(tx->GetHash())) return "dupname";
        remember(name, tx, false);
        if (f[4] == "p") {
            const MempoolAcceptResult res = WITH_LOCK(cs_main, return m_node.chainman->ProcessTransaction(tx));
            m_node.validation_signals->SyncWithValidationInterfaceQueue();
            return res.m_result_type == MempoolAcceptResult::ResultType::VALID ? "accepted" : "rejected";
        }
        return mine_block({mtx}, false) ? "mined" : "blockrejected";
    }

    std::string do_pool()
    {
        // mempool transactions in an order in which parents come first
        std::vector<CMutableTransaction> txs;
        {
            LOCK2(cs_main, m_node.mempool->cs);
            std::vector<CTransactionRef> all;
            for (const auto& e : m_node.mempool->entryAll()) all.push_back(e.get().GetSharedTx());
            std::set<Txid> placed;
            bool progress = true;
            while (placed.size() < all.size() && progress) {
                progress = false;
                for (const auto& t : all) {
                    if (placed.count(t->GetHash())) continue;
                    bool ready = true;
                    for (const auto& in : t->vin) {
                        const bool in_pool = std::any_of(all.begin(), all.end(), [&](const CTransactionRef& x) { return x->GetHash() == in.prevout.hash; });
                        if (in_pool && !placed.count(in.prevout.hash)) ready = false;
                    }
                    if (ready) { txs.emplace_back(*t); placed.insert(t->GetHash()); progress = true; }
                }
            }
        }
        return mine_block(txs, false) ? "mined" + std::to_string(txs.size()) : "blockrejected";
    }

    std::string do_reorg(int d)
    {
        const int tip = tip_height();
        if (d < 1 || tip - d + 1 <= 100) return "bad";
        CBlockIndex* idx = WITH_LOCK(m_node.chainman->GetMutex(), return m_node.chainman->ActiveChain()[tip - d + 1]);
        BlockValidationState state;
        m_node.chainman->ActiveChainstate().InvalidateBlock(state, idx);
        m_node.validation_signals->SyncWithValidationInterfaceQueue();
        for (int i = 0; i < d + 1; ++i) mine_block({}, false);
        return "reorged";
    }

    std::string snapshot()
    {
        m_node.validation_signals->SyncWithValidationInterfaceQueue();
        std::string s = "tip=" + std::to_string(tip_height()) + " chain=";
        {
            LOCK(m_node.chainman->GetMutex());
            const CChain& c = m_node.chainman->ActiveChain();
            bool first = true;
            std::set<Txid> referenced;
            for (const auto& n : order) {
                const Known& k = known.at(by_name.at(n));
                if (!k.coinbase) for (const auto& in : k.tx->vin) referenced.insert(in.prevout.hash);
            }
            for (int h = 1; h <= 100 && h <= c.Height(); ++h) {
                // the initial (external) coinbases that something spends
                if (!referenced.count(m_coinbase_txns.at(h - 1)->GetHash())) continue;
                s += std::string(first ? "" : ";") + std::to_string(h) + ":cb" + std::to_string(h);
                first = false;
            }
            for (int h = 101; h <= c.Height(); ++h) {
                auto it = block_names.find(c[h]->GetBlockHash());
                std::string names;
                if (it != block_names.end()) {
                    for (const auto& n : it->second) {
                        const Known& k = known.at(by_name.at(n));
                        if (k.coinbase && !pays_wallet(*k.tx) && !referenced.count(k.tx->GetHash())) continue;   // unspent external coinbase: irrelevant
                        names += (names.empty() ? "" : ",") + n;
                    }
                }
                if (names.empty()) continue;
                s += std::string(first ? "" : ";") + std::to_string(h) + ":" + names;
                first = false;
            }
            if (first) s += "-";
        }
        s += " pool=";
        {
            std::vector<std::string> names;
            for (const auto& n : order) if (m_node.mempool->exists(by_name.at(n))) names.push_back(n);
            std::string t;
            for (const auto& n : names) t += (t.empty() ? "" : ",") + n;
            s += t.empty() ? "-" : t;
        }
        LOCK(wallet->cs_wallet);
        s += " wallet=";
        {
            std::vector<std::string> items;
            for (const auto& n : order) {
                auto it = wallet->mapWallet.find(by_name.at(n));
                if (it == wallet->mapWallet.end()) continue;
                const CWalletTx& w = it->second;
                std::string st;
                if (auto* c = w.state<TxStateConfirmed>()) st = "C" + std::to_string(c->confirmed_block_height);
                else if (w.state<TxStateInMempool>()) st = "M";
                else if (auto* x = w.state<TxStateBlockConflicted>()) st = "X" + std::to_string(x->conflicting_block_height);
                else if (auto* i = w.state<TxStateInactive>()) st = i->abandoned ? "A" : "I";
                else st = "U";
                if (w.isMempoolConflicted()) st += "!";
                items.push_back(n + "=" + st);
            }
            if (wallet->mapWallet.size() != items.size()) items.push_back("UNNAMED=" + std::to_string(wallet->mapWallet.size() - items.size()));
            std::string t;
            for (const auto& n : items) t += (t.empty() ? "" : ",") + n;
            s += t.empty() ? "-" : t;
        }
        const Balance bal = GetBalance(*wallet, /*min_depth=*/0, /*avoid_reuse=*/false);
        s += " bal=" + std::to_string(bal.m_mine_trusted) + "," + std::to_string(bal.m_mine_untrusted_pending) + "," + std::to_string(bal.m_mine_immature);
        {
            CCoinControl cc;
            cc.m_min_depth = 0;
            std::vector<std::string> coins;
            for (const COutput& o : AvailableCoins(*wallet, &cc).All()) coins.push_back(name_of(o.outpoint.hash) + "." + std::to_string(o.outpoint.n));
            std::sort(coins.begin(), coins.end());
            std::string t;
            for (const auto& n : coins) t += (t.empty() ? "" : ",") + n;
            s += " coins=" + (t.empty() ? std::string("-") : t);
        }
        return s;
    }

    std::string table()
    {
        std::string s = "T";
        std::set<Txid> referenced;
        for (const auto& n : order) {
            const Known& k = known.at(by_name.at(n));
            if (!k.coinbase) for (const auto& in : k.tx->vin) referenced.insert(in.prevout.hash);
        }
        for (const auto& n : order) {
            const Known& k = known.at(by_name.at(n));
            // external coinbases nobody spends are irrelevant to the wallet: not listed
            if (k.coinbase && !pays_wallet(*k.tx) && !referenced.count(k.tx->GetHash())) continue;
            std::string ins, outs;
            if (!k.coinbase) for (const auto& in : k.tx->vin) ins += (ins.empty() ? "" : ",") + name_of(in.prevout.hash) + "." + std::to_string(in.prevout.n);
            for (const auto& o : k.tx->vout) {
                if (k.coinbase && o.nValue == 0) continue; // witness commitment output
                outs += (outs.empty() ? "" : ",") + std::to_string(o.nValue) + ":" + (o.scriptPubKey == mine_spk ? "m" : "o");
            }
            s += " " + n + "=" + (k.coinbase ? "c" : "n") + "/" + (ins.empty() ? "-" : ins) + "/" + (outs.empty() ? "-" : outs);
        }
        return s;
    }
};
} // namespace

int main(int argc, char** argv)
{
    return vd::main_loop([&](const std::vector<std::string>& w, const std::string&) -> std::string {
        if (w.empty() || w[0] != "bal") return "BADCASE";
        Scenario sc;
        std::string steps;
        for (size_t i = 1; i < w.size(); ++i) {
            const std::vector<std::string> f = split(w[i], ':');
            std::string res = "bad";
            if (f[0] == "mine" && f.size() >= 2) {
                const int k = std::stoi(f[1]);
                const bool to_wallet = f.size() >= 3 && f[2] == "w";
                bool ok = true;
                for (int j = 0; j < k; ++j) ok = sc.mine_block({}, to_wallet) && ok;
                res = ok ? "mined" : "blockrejected";
            } else if (f[0] == "tx") {
                res = sc.do_tx(f);
            } else if (f[0] == "pool") {
                res = sc.do_pool();
            } else if (f[0] == "reorg" && f.size() == 2) {
                res = sc.do_reorg(std::stoi(f[1]));
            } else if (f[0] == "abandon" && f.size() == 2) {
                auto it = sc.by_name.find(f[1]);
                const bool in_wallet = it != sc.by_name.end() && WITH_LOCK(sc.wallet->cs_wallet, return sc.wallet->mapWallet.count(it->second) > 0);
                res = (in_wallet && sc.wallet->AbandonTransaction(it->second)) ? "abandoned" : "notabandoned";
            }
            steps += " | " + res + " " + sc.snapshot();
        }
        return sc.table() + steps;
    });
}
