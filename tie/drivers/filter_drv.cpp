// C++ side of the filter family (C51): real CPartialMerkleTree, CBloomFilter, CRollingBloomFilter,
// BitStreamWriter/Reader, GolombRiceEncode/Decode and GCSFilter of the current tree.
//
//   pmt <matchbits> <txid32hex>+      -> <serialized tree hex> <extracted root|fail> <txid:index,...|-> <ComputeMerkleRoot>
//   pmtx <serialized tree hex>        -> <extracted root|fail> <txid:index,...|->
//   bloom <nElements> <fprate> <tweak> <flags> <size> <nhash> <op>*   (constructor; size and nhash are what the
//        case generator expects the constructor to choose: given to the model, ignored here, the real values are printed)
//   bloomraw <datahex> <nhash> <tweak> <flags> <op>*      (deserialized filter)
//        op = i<keyhex> insert, c<keyhex> contains ->  <size> <nHashFuncs> <contains results|-> <vData hex>
//   rolling <nElements> <fprate> <tweak> <data size> <nhash> <op>*   (the last two as for bloom)
//        -> <data.size()> <nHashFuncs> <nEntriesPerGeneration> <contains results|-> <nGeneration> <nEntriesThisGeneration> <data words hex|->
//   bitstream <data:nbits>*           -> <bytes hex> <values read back with the same widths>
//   golomb <P> <x>*                   -> <bytes hex> <decoded values>
//   gcs <P> <M> <k0> <k1> <nelem> <element hex>{nelem} <query hex>*
//        -> <encoded hex> <Match of each element> <Match of each query|-> <MatchAny(queries)>
#include <drv_common.h>
#define private public
#define protected public
#include <common/bloom.h>
#include <merkleblock.h>
#undef private
#undef protected
#include <blockfilter.h>
#include <consensus/merkle.h>
#include <serialize.h>
#include <streams.h>
#include <uint256.h>
#include <util/golombrice.h>
#include <cstring>
#include <chrono>
#include <future>
#include <memory>
#include <sys/resource.h>
#include <thread>
#include <unistd.h>

// Runs f in a helper thread with a time limit (the whole process has an address-space limit, see main):
// a case on which the implementation does not terminate (e.g. an astronomically long unary Golomb
// quotient) is reported as "HANG"; the remaining cases are answered "SKIPPED-after-hang" and the
// process exits, so the run still yields one line per case and a failing input.
template <typename F>
static std::string guarded(F f, int seconds)
{
    auto prom = std::make_shared<std::promise<std::string>>();
    auto fut = prom->get_future();
    std::thread([prom, f]() {
        std::string out;
        try { out = f(); } catch (const std::bad_alloc&) { out = "HANG"; } catch (const std::exception& e) { out = std::string("EXC ") + e.what(); }
        prom->set_value(out);
    }).detach();
    if (fut.wait_for(std::chrono::seconds(seconds)) == std::future_status::ready) return fut.get();
    std::cout << "HANG\n";
    std::string l;
    while (std::getline(std::cin, l)) std::cout << "SKIPPED-after-hang\n";
    std::cout.flush();
    _exit(0);
}

static uint256 u256(const std::string& h)
{
    auto b = vd::unhex(h);
    if (b.size() != 32) throw std::runtime_error("not 32 bytes");
    uint256 u;
    std::memcpy(u.begin(), b.data(), 32);
    return u;
}
static std::string hx(const uint256& u) { return vd::hex(u.begin(), u.end()); }

static std::string extract(CPartialMerkleTree& t)
{
    std::vector<Txid> vm;
    std::vector<unsigned int> vi;
    uint256 root = t.ExtractMatches(vm, vi);
    if (root.IsNull()) return "fail -";
    std::string ms;
    for (size_t i = 0; i < vm.size(); ++i) ms += (i ? "," : "") + hx(vm[i].ToUint256()) + ":" + std::to_string(vi.at(i));
    if (ms.empty()) ms = "-";
    return hx(root) + " " + ms;
}

template <typename F>
static std::string bloom_ops(F& f, const std::vector<std::string>& w, size_t from)
{
    std::string res;
    for (size_t i = from; i < w.size(); ++i) {
        auto key = vd::unhex(w[i].substr(1));
        if (w[i][0] == 'i') f.insert(key);
        else if (w[i][0] == 'c') res += f.contains(key) ? "1" : "0";
        else throw std::runtime_error("bad op");
    }
    if (res.empty()) res = "-";
    return res;
}

int main()
{
    struct rlimit rl{(rlim_t)4 << 30, (rlim_t)4 << 30};
    setrlimit(RLIMIT_AS, &rl);
    return vd::main_loop([&](const std::vector<std::string>& w, const std::string&) -> std::string {
        if (w.empty()) return "BADCASE";
        if (w[0] == "pmt" && w.size() >= 3) {
            std::vector<Txid> txids;
            std::vector<uint256> leaves;
            for (size_t i = 2; i < w.size(); ++i) { leaves.push_back(u256(w[i])); txids.push_back(Txid::FromUint256(leaves.back())); }
            std::vector<bool> vm;
            for (char c : w[1]) vm.push_back(c == '1');
            if (vm.size() != txids.size()) return "BADCASE";
            CPartialMerkleTree t(txids, vm);
            DataStream ss;
            ss << t;
            std::string ser = vd::hex(MakeUCharSpan(ss));
            // extraction on a tree read back from the serialization (as a peer would)
            CPartialMerkleTree t2;
            ss >> t2;
            return ser + " " + extract(t2) + " " + hx(ComputeMerkleRoot(leaves));
        }
        if (w[0] == "pmtx" && w.size() == 2) {
            auto bytes = vd::unhex(w[1]);
            DataStream ss{bytes};
            CPartialMerkleTree t;
            ss >> t;
            if (!ss.empty()) throw std::runtime_error("trailing");
            return extract(t);
        }
        if ((w[0] == "bloom" && w.size() >= 7) || (w[0] == "bloomraw" && w.size() >= 5)) {
            CBloomFilter f;
            if (w[0] == "bloom") {
                f = CBloomFilter((unsigned int)vd::ull(w[1]), std::stod(w[2]), (unsigned int)vd::ull(w[3]), (unsigned char)vd::ull(w[4]));
            } else {
                DataStream ss;
                ss << vd::unhex(w[1]) << (unsigned int)vd::ull(w[2]) << (unsigned int)vd::ull(w[3]) << (unsigned char)vd::ull(w[4]);
                ss >> f;
            }
            std::string res = bloom_ops(f, w, w[0] == "bloom" ? 7 : 5);
            return std::to_string(f.vData.size()) + " " + std::to_string(f.nHashFuncs) + " " + res + " " + vd::hex(f.vData);
        }
        if (w[0] == "rolling" && w.size() >= 6) {
            CRollingBloomFilter f((unsigned int)vd::ull(w[1]), std::stod(w[2]));
            f.nTweak = (unsigned int)vd::ull(w[3]);
            std::string res = bloom_ops(f, w, 6);
            std::string d;
            if (f.data.size() <= 512) {
                for (uint64_t x : f.data) { char buf[17]; snprintf(buf, sizeof buf, "%016llx", (unsigned long long)x); d += buf; }
            }
            if (d.empty()) d = "-";
            return std::to_string(f.data.size()) + " " + std::to_string(f.nHashFuncs) + " " + std::to_string(f.nEntriesPerGeneration) + " " +
                   res + " " + std::to_string(f.nGeneration) + " " + std::to_string(f.nEntriesThisGeneration) + " " + d;
        }
        if (w[0] == "bitstream") {
            std::vector<unsigned char> out;
            std::vector<std::pair<uint64_t, int>> items;
            {
                VectorWriter vw{out, 0};
                BitStreamWriter bw{vw};
                for (size_t i = 1; i < w.size(); ++i) {
                    auto c = w[i].find(':');
                    uint64_t d = vd::ull(w[i].substr(0, c));
                    int n = std::stoi(w[i].substr(c + 1));
                    items.emplace_back(d, n);
                    bw.Write(d, n);
                }
                bw.Flush();
            }
            std::string r;
            SpanReader sr{out};
            BitStreamReader br{sr};
            for (auto& it : items) r += (r.empty() ? "" : ",") + std::to_string(br.Read(it.second));
            if (r.empty()) r = "-";
            return vd::hex(out) + " " + r;
        }
        if (w[0] == "golomb" && w.size() >= 2) {
            uint8_t P = (uint8_t)vd::ull(w[1]);
            std::vector<unsigned char> out;
            {
                VectorWriter vw{out, 0};
                BitStreamWriter bw{vw};
                for (size_t i = 2; i < w.size(); ++i) GolombRiceEncode(bw, P, vd::ull(w[i]));
                bw.Flush();
            }
            std::string r;
            SpanReader sr{out};
            BitStreamReader br{sr};
            for (size_t i = 2; i < w.size(); ++i) r += (r.empty() ? "" : ",") + std::to_string(GolombRiceDecode(br, P));
            if (r.empty()) r = "-";
            return vd::hex(out) + " " + r;
        }
        if (w[0] == "gcs" && w.size() >= 6) return guarded([&]() -> std::string {
            GCSFilter::Params params(vd::ull(w[3]), vd::ull(w[4]), (uint8_t)vd::ull(w[1]), (uint32_t)vd::ull(w[2]));
            size_t ne = vd::ull(w[5]);
            GCSFilter::ElementSet els, qs;
            std::vector<GCSFilter::Element> elv, qv;
            for (size_t i = 0; i < ne; ++i) { elv.push_back(vd::unhex(w.at(6 + i))); els.insert(elv.back()); }
            for (size_t i = 6 + ne; i < w.size(); ++i) { qv.push_back(vd::unhex(w[i])); qs.insert(qv.back()); }
            if (els.size() != ne) return "BADCASE duplicate element";
            GCSFilter f(params, els);
            std::string me, mq;
            // Match costs O(N): for sets above 400 elements only every (N/200)-th element is queried
            const size_t stride = ne > 400 ? ne / 200 : 1;
            for (size_t i = 0; i < elv.size(); i += stride) me += f.Match(elv[i]) ? "1" : "0";
            for (auto& q : qv) mq += f.Match(q) ? "1" : "0";
            if (me.empty()) me = "-";
            if (mq.empty()) mq = "-";
            // the encoding must also be accepted by the decoding constructor (exactly N elements, no excess data)
            GCSFilter g(params, f.GetEncoded(), /*skip_decode_check=*/false);
            std::string again;
            for (size_t i = 0; i < elv.size(); i += stride) again += g.Match(elv[i]) ? "1" : "0";
            if (again.empty()) again = "-";
            if (again != me) return "MISMATCH-after-decode";
            return vd::hex(f.GetEncoded()) + " " + me + " " + mq + " " + (f.MatchAny(qs) ? "1" : "0");
        }, 40);
        return "BADCASE";
    });
}
