// C++ side of C62 (family walletdb): the wallet never hands out the same new address twice.
//
// A REAL descriptor CWallet (CWallet::CreateNew: eight active DescriptorScriptPubKeyMans) on the REAL
// SQLiteDatabase over a file, with fault injection on the batch's mutating calls (walletdb_common.h).
//
//   case   : kp <keypool size> <op>*
//   op     : new:<t>[:<bits>]        CWallet::GetNewDestination(type t)              slot t
//            chg:<t>[:<bits>]        CWallet::GetNewChangeDestination(type t)        slot 4+t
//            res:<r>:<t>:<i>[:<bits>] ReserveDestination #r .GetReservedDestination(internal=i)   slot 4*i+t
//            keep:<r>                 .KeepDestination()
//            ret:<r>[:<bits>]         .ReturnDestination()
//            top:<slot>:<n>[:<bits>] that ScriptPubKeyMan's TopUp(n)
//            used:<slot>:<idx>[:<bits>] MarkUnusedAddresses(script of index idx): a payment to that address was seen
//            reload                  clean shutdown (outstanding reservations are returned by their destructors, LIFO),
//                                    then CWallet::LoadExisting on the file
//            crash                   the process dies here: the file as it is now is loaded by a new process; reservations are lost
//   bits   : outcome of the op's mutating database calls in order (TxnBegin, WriteKey, TxnCommit, ...): 1 ok, 0 fails
//   output : per op  A<slot>.<idx> (address handed out: resolved through an independently derived address table that is
//            checked to be injective)  R<slot>.<idx> (reserved)  K<slot>.<idx> (kept = handed out)  r  T0/T1  U<n>  L
//            (suffix ! = the wallet does not watch that address, #n = mutating database calls made, address book records excluded)
//            Eout/Ewr/Eerr (error result)  X (exception);  then  | <next>/<range_end>/<max_cached>/<db next>/<db range_end> per slot
#include <drv_common.h>
#include <algorithm>
#include <deque>
#include <filesystem>
#include <fstream>
#include <map>
#include <memory>
#include <optional>
#include <set>
#include <semaphore>
#include <sstream>
#include <string>
#include <vector>
#include <sync.h>
#include <streams.h>
#include <script/descriptor.h>
#include <script/signingprovider.h>
#include <wallet/db.h>
#include <wallet/sqlite.h>
#define private public
#define protected public
#include <wallet/scriptpubkeyman.h>
#include <wallet/wallet.h>
#undef private
#undef protected
#include "walletdb_common.h"

using namespace wallet;
using namespace wdb;

namespace {
constexpr int MAXI = 64;

std::vector<std::string> split(const std::string& s, char sep)
{
    std::vector<std::string> out;
    std::string cur;
    for (char c : s) {
        if (c == sep) { out.push_back(cur); cur.clear(); } else cur.push_back(c);
    }
    out.push_back(cur);
    return out;
}

struct Env : public BasicTestingSetup {
    WalletContext ctx;
    ScratchCleaner cleaner;
    int ncase{0};
    Env() { ctx.args = &m_args; }
};

struct Run {
    Env& env;
    std::shared_ptr<FaultCtl> ctl{std::make_shared<FaultCtl>()};
    std::shared_ptr<CWallet> w;
    std::string dir;
    int gen{0};
    int kp;
    DescriptorScriptPubKeyMan* spkm[8]{};
    std::map<std::string, std::pair<int, int>> by_addr;   // address -> (slot, idx)
    std::vector<std::vector<CScript>> scripts;            // slot -> idx -> script
    std::map<int, std::unique_ptr<ReserveDestination>> res;
    std::vector<int> res_order;
    std::string problem;

    Run(Env& e, int kp_) : env(e), kp(kp_)
    {
        dir = scratch_root() + "/c" + std::to_string(env.ncase++);
        std::filesystem::remove_all(dir);
        env.m_args.ForceSetArg("-keypool", std::to_string(kp));
        bilingual_str error;
        std::vector<bilingual_str> warnings;
        w = CWallet::CreateNew(env.ctx, "", open_db(file(), ctl), WALLET_FLAG_DESCRIPTORS, /*born_encrypted=*/false, error, warnings);
        if (!w) throw std::runtime_error("create failed: " + error.original);
        bind(true);
    }
    ~Run()
    {
        for (auto& [k, r] : res) { if (r) r->nIndex = -1; }
        res.clear();
        w.reset();
        std::error_code ec;
        std::filesystem::remove_all(dir, ec);
    }
    std::string file() const { return dir + "/g" + std::to_string(gen) + "/wallet.dat"; }

    void bind(bool first)
    {
        for (int s = 0; s < 8; ++s) {
            auto* m = w->GetScriptPubKeyMan(slot_types()[s % 4], s >= 4);
            spkm[s] = dynamic_cast<DescriptorScriptPubKeyMan*>(m);
            if (!spkm[s]) throw std::runtime_error("no spkm for slot");
        }
        // independent derivation of the address of (slot, idx): expand the descriptor from its cache
        std::map<std::string, std::pair<int, int>> tab;
        std::vector<std::vector<CScript>> scr(8);
        for (int s = 0; s < 8; ++s) {
            WalletDescriptor wd = spkm[s]->GetWalletDescriptor();
            for (int i = 0; i < MAXI; ++i) {
                FlatSigningProvider keys;
                std::vector<CScript> out;
                if (!wd.descriptor->ExpandFromCache(i, wd.cache, out, keys) || out.size() != 1) throw std::runtime_error("cannot expand");
                CTxDestination d;
                if (!ExtractDestination(out[0], d)) throw std::runtime_error("no destination");
                const std::string a = EncodeDestination(d);
                if (!tab.emplace(a, std::make_pair(s, i)).second) problem = "ADDRESS-TABLE-NOT-INJECTIVE";
                scr[s].push_back(out[0]);
            }
        }
        if (!first && tab != by_addr) problem = "ADDRESS-TABLE-CHANGED-ON-RELOAD";
        by_addr = std::move(tab);
        scripts = std::move(scr);
    }

    std::string token(const CTxDestination& d, bool with_watch = true) const
    {
        auto it = by_addr.find(EncodeDestination(d));
        if (it == by_addr.end()) return "?";
        // "!" = the wallet does not consider the address its own (script not in m_map_script_pub_keys)
        const bool mine = WITH_LOCK(w->cs_wallet, return w->IsMine(d));
        return std::to_string(it->second.first) + "." + std::to_string(it->second.second) + (with_watch && !mine ? "!" : "");
    }
    static std::string err(const bilingual_str& e)
    {
        if (e.original.find("Keypool ran out") != std::string::npos) return "Eout";
        if (e.original.find("Failed to write the descriptor") != std::string::npos) return "Ewr";
        return "Eerr";
    }
    std::string cnt() const { return "#" + std::to_string(ctl->counted); }
    void arm(const std::string& bits)
    {
        ctl->reset();
        for (char c : bits) ctl->oracle.push_back(c != '0');
    }

    void reopen(bool clean)
    {
        const std::string old = file();
        ++gen;
        if (clean) {
            // ~ReserveDestination returns what was not kept; most recent first
            for (auto it = res_order.rbegin(); it != res_order.rend(); ++it) res.erase(*it);
            res.clear(); res_order.clear();
            w.reset();
            FaultCtl::copy_db(old, file());
        } else {
            FaultCtl::copy_db(old, file());
            for (auto& [k, r] : res) { if (r) r->nIndex = -1; }
            res.clear(); res_order.clear();
            w.reset();
        }
        bilingual_str error;
        std::vector<bilingual_str> warnings;
        w = CWallet::LoadExisting(env.ctx, "", open_db(file(), ctl), error, warnings);
        if (!w) throw std::runtime_error("load failed: " + error.original);
        bind(false);
    }

    std::string op(const std::string& tok)
    {
        auto f = split(tok, ':');
        const std::string& o = f[0];
        auto bits = [&](size_t k) { return f.size() > k ? f[k] : std::string(); };
        if (o == "new" || o == "chg") {
            const int t = std::stoi(f.at(1));
            arm(bits(2));
            auto r = o == "new" ? w->GetNewDestination(slot_types()[t], "") : w->GetNewChangeDestination(slot_types()[t]);
            ctl->oracle.clear();
            if (!r) return err(util::ErrorString(r)) + cnt();
            return "A" + token(*r) + cnt();
        }
        if (o == "res") {
            const int id = std::stoi(f.at(1)), t = std::stoi(f.at(2)), in = std::stoi(f.at(3));
            if (res.count(id)) return "Edup";
            auto rd = std::make_unique<ReserveDestination>(w.get(), slot_types()[t]);
            arm(bits(4));
            auto r = rd->GetReservedDestination(in != 0);
            ctl->oracle.clear();
            if (!r) return err(util::ErrorString(r)) + cnt();
            res[id] = std::move(rd);
            res_order.push_back(id);
            return "R" + token(*r) + cnt();
        }
        if (o == "keep" || o == "ret") {
            const int id = std::stoi(f.at(1));
            auto it = res.find(id);
            if (it == res.end()) return "N";
            std::string out;
            if (o == "keep") {
                out = "K" + token(it->second->address, false);
                it->second->KeepDestination();
            } else {
                arm(bits(2));
                it->second->ReturnDestination();
                ctl->oracle.clear();
                out = "r" + cnt();
            }
            res.erase(it);
            res_order.erase(std::find(res_order.begin(), res_order.end(), id));
            return out;
        }
        if (o == "top") {
            const int s = std::stoi(f.at(1));
            const unsigned n = (unsigned)std::stoul(f.at(2));
            arm(bits(3));
            LOCK(w->cs_wallet);
            const bool ok = spkm[s]->TopUp(n);
            ctl->oracle.clear();
            return (ok ? "T1" : "T0") + cnt();
        }
        if (o == "used") {
            const int s = std::stoi(f.at(1)), i = std::stoi(f.at(2));
            if (i < 0 || i >= MAXI) return "U?";
            arm(bits(3));
            LOCK(w->cs_wallet);
            auto v = spkm[s]->MarkUnusedAddresses(scripts[s][i]);
            ctl->oracle.clear();
            return "U" + std::to_string(v.size()) + cnt();
        }
        if (o == "reload") { reopen(true); return "L"; }
        if (o == "crash") { reopen(false); return "L"; }
        if (o == "log") { ctl->keep_log = true; return "-"; }
        return "BADOP";
    }

    std::string state()
    {
        std::ostringstream os;
        auto batch = w->GetDatabase().MakeBatch();
        for (int s = 0; s < 8; ++s) {
            LOCK(spkm[s]->cs_desc_man);
            const WalletDescriptor& d = spkm[s]->m_wallet_descriptor;
            WalletDescriptor p;
            std::string ps = "?/?";
            if (batch->Read(std::make_pair(DBKeys::WALLETDESCRIPTOR, spkm[s]->GetID()), p)) ps = std::to_string(p.next_index) + "/" + std::to_string(p.range_end);
            os << " " << d.next_index << "/" << d.range_end << "/" << spkm[s]->m_max_cached_index << "/" << ps;
        }
        return os.str();
    }
};
} // namespace

int main(int argc, char** argv)
{
    Env env;
    return vd::main_loop([&](const std::vector<std::string>& w, const std::string& line) -> std::string {
        if (w.size() < 2 || w[0] != "kp") return "BADCASE";
        Run run(env, std::stoi(w[1]));
        std::string out;
        for (size_t i = 2; i < w.size(); ++i) {
            std::string r;
            try {
                r = run.op(w[i]);
            } catch (const std::exception& e) {
                run.ctl->oracle.clear();
                r = "X" + run.cnt();
                if (std::getenv("VERIF_DRV_DEBUG")) std::cerr << "exception: " << e.what() << "\n";
            }
            if (run.ctl->keep_log && !run.ctl->log.empty()) { r += "["; for (auto& l : run.ctl->log) r += l + ","; r += "]"; run.ctl->log.clear(); }
            out += (out.empty() ? "" : " ") + r;
        }
        if (!run.problem.empty()) return run.problem;
        return out + " |" + run.state();
    });
}
