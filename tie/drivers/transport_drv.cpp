// C32 tie: drives the REAL V1Transport / V2Transport (src/net.cpp) with the receive loop of
// CNode::ReceiveMsgBytes replicated call for call (ReceivedBytes / ReceivedMessageComplete / GetReceivedMessage),
// a case-specified fragmentation schedule and bit flips at chosen wire offsets.  The v2 peer is a BIP324Cipher
// (src/bip324.cpp) driven by hand, as V2TransportTester in src/test/net_tests.cpp does, so that decoys, arbitrary
// packet contents and garbage of every length can be sent and the real sender's packets can be decrypted.
//
//   v1    <chain> F <nf> c.. X <nx> (off bit).. I <ni> items..       items: M <typehex> <pspec> | R <hdr24hex> <pspec> | B <hex>
//   v2    <chain> <rinit> <rseed> <rgarblen> <pseed> G <pspec> F .. X .. P <np> (ig prefixhex pspec).. S <ns> (typehex pspec)..
//   v2raw <chain> <rinit> <rseed> <rgarblen> F .. X .. I <ni> items..
//   v2rr  <chain> <seedA> <garbA> <seedB> <garbB> F .. A <na> (typehex pspec).. B <nb> (typehex pspec)..
//   pspec: - | h<hex> | r<len>:<seed>
#include <net.h>
#include <drv_common.h>
#include <bip324.h>
#include <chainparams.h>
#include <hash.h>
#include <key.h>
#include <protocol.h>
#include <util/chaintype.h>

#include <cassert>
#include <deque>
#include <memory>

namespace {
using Bytes = std::vector<uint8_t>;

uint64_t lcg(uint64_t& x) { x = x * 6364136223846793005ULL + 1442695040888963407ULL; return x; }
Bytes lcg_bytes(uint64_t seed, size_t n)
{
    Bytes out(n);
    uint64_t x = seed;
    for (size_t i = 0; i < n; ++i) out[i] = (uint8_t)(lcg(x) >> 56);
    return out;
}
uint64_t fnv(const uint8_t* p, size_t n)
{
    uint64_t h = 14695981039346656037ULL;
    for (size_t i = 0; i < n; ++i) { h ^= p[i]; h *= 1099511628211ULL; }
    return h;
}
std::string hex64(uint64_t v) { char b[17]; snprintf(b, sizeof b, "%016llx", (unsigned long long)v); return b; }

Bytes pspec(const std::string& s)
{
    if (s == "-") return {};
    if (s[0] == 'h') return vd::unhex(s.substr(1));
    if (s[0] == 'r') {
        auto c = s.find(':');
        return lcg_bytes(std::stoull(s.substr(c + 1)), std::stoull(s.substr(1, c - 1)));
    }
    throw std::runtime_error("bad pspec " + s);
}

struct Cur {
    const std::vector<std::string>& w; size_t i;
    const std::string& next() { if (i >= w.size()) throw std::runtime_error("short case"); return w[i++]; }
    void expect(const char* t) { if (next() != t) throw std::runtime_error(std::string("expected ") + t); }
    size_t num() { return std::stoull(next()); }
};

struct Sched { std::vector<size_t> c; size_t k{0}; size_t next() { size_t r = c[k % c.size()]; ++k; return r == 0 ? 1 : r; } };
Sched read_sched(Cur& cu) { cu.expect("F"); Sched s; size_t n = cu.num(); for (size_t j = 0; j < n; ++j) s.c.push_back(cu.num()); if (s.c.empty()) s.c.push_back(1 << 20); return s; }
std::vector<std::pair<size_t, int>> read_flips(Cur& cu) { cu.expect("X"); std::vector<std::pair<size_t, int>> f; size_t n = cu.num(); for (size_t j = 0; j < n; ++j) { size_t o = cu.num(); int b = (int)cu.num(); f.emplace_back(o, b); } return f; }
void apply_flips(Bytes& w, const std::vector<std::pair<size_t, int>>& f) { for (auto& [o, b] : f) if (o < w.size()) w[o] ^= (uint8_t)(1u << b); }

const ChainType CHAINS[5] = {ChainType::MAIN, ChainType::TESTNET, ChainType::TESTNET4, ChainType::SIGNET, ChainType::REGTEST};

std::string out_msg(const CNetMessage& m)
{
    Bytes p(m.m_recv.size());
    for (size_t i = 0; i < p.size(); ++i) p[i] = (uint8_t)m.m_recv.data()[i];
    return "D:" + vd::hex(m.m_type.begin(), m.m_type.end()) + ":" + std::to_string(p.size()) + ":" + hex64(fnv(p.data(), p.size()));
}

// The loop of CNode::ReceiveMsgBytes, one call per chunk.  Returns false when it returned false (disconnect).
bool receive_msg_bytes(Transport& t, std::span<const uint8_t> msg_bytes, std::vector<std::string>& outs)
{
    while (msg_bytes.size() > 0) {
        if (!t.ReceivedBytes(msg_bytes)) return false;
        if (t.ReceivedMessageComplete()) {
            bool reject_message{false};
            CNetMessage msg = t.GetReceivedMessage(NodeClock::time_point{}, reject_message);
            if (reject_message) { outs.push_back("R"); continue; }
            outs.push_back(out_msg(msg));
        }
    }
    return true;
}

// feed a whole stream in the scheduled chunks; stops at the first failure
bool feed(Transport& t, const Bytes& w, Sched& sc, std::vector<std::string>& outs)
{
    size_t pos = 0;
    while (pos < w.size()) {
        size_t k = std::min(sc.next(), w.size() - pos);
        if (!receive_msg_bytes(t, std::span<const uint8_t>(w.data() + pos, k), outs)) return false;
        pos += k;
    }
    return true;
}

std::string join(const std::vector<std::string>& v) { if (v.empty()) return "-"; std::string s; for (size_t i = 0; i < v.size(); ++i) { if (i) s += ","; s += v[i]; } return s; }

// take everything a transport wants to send, in scheduled pieces (GetBytesToSend / MarkBytesSent)
void drain(Transport& t, Sched& sc, Bytes& out, bool have_next = false)
{
    while (true) {
        const auto& [bytes, more, type] = t.GetBytesToSend(have_next);
        if (bytes.empty()) break;
        size_t k = std::min(sc.next(), bytes.size());
        out.insert(out.end(), bytes.begin(), bytes.begin() + k);
        t.MarkBytesSent(k);
    }
}

// stream items shared by v1 and v2raw
Bytes read_items(Cur& cu, Sched& send_sched)
{
    cu.expect("I");
    size_t n = cu.num();
    Bytes wire;
    V1Transport sender{NodeId{1}};
    for (size_t j = 0; j < n; ++j) {
        std::string k = cu.next();
        if (k == "M") {
            Bytes type = vd::unhex(cu.next());
            Bytes payload = pspec(cu.next());
            CSerializedNetMsg msg;
            msg.m_type = std::string(type.begin(), type.end());
            msg.data = payload;
            if (!sender.SetMessageToSend(msg)) throw std::runtime_error("SetMessageToSend refused");
            drain(sender, send_sched, wire);
        } else if (k == "R") {
            Bytes hdr = vd::unhex(cu.next());
            Bytes payload = pspec(cu.next());
            wire.insert(wire.end(), hdr.begin(), hdr.end());
            wire.insert(wire.end(), payload.begin(), payload.end());
        } else if (k == "B") {
            Bytes b = vd::unhex(cu.next());
            wire.insert(wire.end(), b.begin(), b.end());
        } else throw std::runtime_error("bad item " + k);
    }
    return wire;
}

CKey key_from_seed(uint64_t seed)
{
    for (uint64_t d = 0;; ++d) {
        Bytes b = lcg_bytes(seed + 1000003ULL * d, 32);
        CKey k;
        k.Set(b.begin(), b.end(), true);
        if (k.IsValid()) return k;
    }
}
std::vector<std::byte> ent_from_seed(uint64_t seed)
{
    Bytes b = lcg_bytes(seed ^ 0x5bd1e995ULL, 32);
    std::vector<std::byte> e(32);
    for (int i = 0; i < 32; ++i) e[i] = (std::byte)b[i];
    return e;
}

std::string pkt_desc(bool ig, const Bytes& c)
{
    size_t pl = std::min<size_t>(c.size(), 13);
    return std::string(ig ? "1" : "0") + ":" + vd::hex(c.begin(), c.begin() + pl) + ":" + std::to_string(c.size()) + ":" + hex64(fnv(c.data(), c.size()));
}

std::string run_v1(Cur& cu)
{
    SelectParams(CHAINS[cu.num()]);
    Sched sc = read_sched(cu);
    auto flips = read_flips(cu);
    Sched send_sched = sc;
    Bytes wire = read_items(cu, send_sched);
    std::string wd = std::to_string(wire.size()) + ":" + hex64(fnv(wire.data(), wire.size()));
    apply_flips(wire, flips);
    V1Transport recv{NodeId{0}};
    std::vector<std::string> outs;
    bool ok = feed(recv, wire, sc, outs);
    return "wire=" + wd + " dead=" + (ok ? "0" : "1") + " outs=" + join(outs);
}

std::string run_v2raw(Cur& cu)
{
    SelectParams(CHAINS[cu.num()]);
    bool rinit = cu.num() != 0;
    uint64_t rseed = cu.num();
    size_t rgarb = cu.num();
    Sched sc = read_sched(cu);
    auto flips = read_flips(cu);
    Sched send_sched = sc;
    Bytes wire = read_items(cu, send_sched);
    apply_flips(wire, flips);
    V2Transport recv{NodeId{0}, rinit, key_from_seed(rseed), ent_from_seed(rseed), lcg_bytes(rseed + 1, rgarb)};
    std::vector<std::string> outs;
    bool ok = feed(recv, wire, sc, outs);
    return std::string("dead=") + (ok ? "0" : "1") + " outs=" + join(outs);
}

std::string run_v2(Cur& cu)
{
    SelectParams(CHAINS[cu.num()]);
    bool rinit = cu.num() != 0;
    uint64_t rseed = cu.num();
    size_t rgarb = cu.num();
    uint64_t pseed = cu.num();
    cu.expect("G");
    Bytes pgarbage = pspec(cu.next());
    Sched sc = read_sched(cu);
    auto flips = read_flips(cu);

    CKey rkey = key_from_seed(rseed);
    auto rent = ent_from_seed(rseed);
    Bytes rgarbage = lcg_bytes(rseed + 1, rgarb);
    // the receiver's public key is a deterministic function of (key, entropy)
    BIP324Cipher rprobe{rkey, rent};
    EllSwiftPubKey rpub = rprobe.GetOurPubKey();
    V2Transport recv{NodeId{0}, rinit, rkey, rent, rgarbage};

    BIP324Cipher peer{key_from_seed(pseed), ent_from_seed(pseed)};
    peer.Initialize(rpub, /*initiator=*/!rinit);

    // the peer's stream: key, garbage, terminator, packets (the first one authenticates the garbage)
    Bytes wire;
    for (auto b : peer.GetOurPubKey()) wire.push_back((uint8_t)b);
    wire.insert(wire.end(), pgarbage.begin(), pgarbage.end());
    for (auto b : peer.GetSendGarbageTerminator()) wire.push_back((uint8_t)b);
    cu.expect("P");
    size_t np = cu.num();
    for (size_t j = 0; j < np; ++j) {
        bool ig = cu.num() != 0;
        std::string pre = cu.next();
        if (pre == "T") {
            // a packet announcing <len> bytes of contents of which only the 3 encrypted length bytes are sent (last packet)
            Bytes contents(cu.num());
            std::vector<std::byte> ct(contents.size() + BIP324Cipher::EXPANSION);
            peer.Encrypt(MakeByteSpan(contents), j == 0 ? MakeByteSpan(pgarbage) : std::span<const std::byte>{}, ig, ct);
            for (size_t q = 0; q < 3; ++q) wire.push_back((uint8_t)ct[q]);
            continue;
        }
        Bytes contents = vd::unhex(pre);
        Bytes payload = pspec(cu.next());
        contents.insert(contents.end(), payload.begin(), payload.end());
        std::vector<std::byte> ct(contents.size() + BIP324Cipher::EXPANSION);
        peer.Encrypt(MakeByteSpan(contents), j == 0 ? MakeByteSpan(pgarbage) : std::span<const std::byte>{}, ig, ct);
        for (auto b : ct) wire.push_back((uint8_t)b);
    }
    size_t rxlen = wire.size();
    apply_flips(wire, flips);
    bool key_tampered = false;
    for (auto& [o, b] : flips) if (o < 64) key_tampered = true;

    std::vector<std::string> outs;
    Sched sc_rx = sc;
    bool ok = feed(recv, wire, sc_rx, outs);

    std::string sid = "-";
    if (ok) {
        auto info = recv.GetInfo();
        if (info.session_id) sid = (*info.session_id == uint256(MakeUCharSpan(peer.GetSessionID()))) ? "1" : "0";
    }

    // the messages the receiver's own sender produces
    cu.expect("S");
    size_t ns = cu.num();
    std::vector<std::pair<std::string, Bytes>> tosend;
    for (size_t j = 0; j < ns; ++j) { Bytes t = vd::unhex(cu.next()); Bytes p = pspec(cu.next()); tosend.emplace_back(std::string(t.begin(), t.end()), p); }
    std::string tx = "-", txlen = "-";
    if (ok && !key_tampered) {
        Bytes sent;
        Sched sc_tx = sc;
        drain(recv, sc_tx, sent, !tosend.empty());
        for (size_t j = 0; j < tosend.size(); ++j) {
            CSerializedNetMsg msg;
            msg.m_type = tosend[j].first;
            msg.data = tosend[j].second;
            if (!recv.SetMessageToSend(msg)) { tx = "ERR-refused"; break; }
            drain(recv, sc_tx, sent, j + 1 < tosend.size());
        }
        if (tx == "-") {
            // parse: key, garbage, terminator, packets
            std::vector<std::string> pk;
            size_t pos = 0;
            auto need = [&](size_t n) { if (pos + n > sent.size()) throw std::runtime_error("tx stream short"); };
            need(64);
            if (!std::equal(sent.begin(), sent.begin() + 64, UCharCast(rpub.data()))) tx = "ERR-key";
            pos = 64;
            need(rgarb + 16);
            if (!std::equal(rgarbage.begin(), rgarbage.end(), sent.begin() + pos)) tx = "ERR-garbage";
            pos += rgarb;
            if (!std::ranges::equal(MakeByteSpan(std::span<const uint8_t>(sent.data() + pos, 16)), peer.GetReceiveGarbageTerminator())) tx = "ERR-terminator";
            pos += 16;
            bool first = true;
            while (tx == "-" && pos < sent.size()) {
                need(3);
                uint32_t len = peer.DecryptLength(MakeByteSpan(std::span<const uint8_t>(sent.data() + pos, 3)));
                need(len + BIP324Cipher::EXPANSION);
                Bytes contents(len);
                bool ig = false;
                bool dec = peer.Decrypt(MakeByteSpan(std::span<const uint8_t>(sent.data() + pos + 3, len + BIP324Cipher::EXPANSION - 3)),
                                        first ? MakeByteSpan(rgarbage) : std::span<const std::byte>{}, ig, MakeWritableByteSpan(contents));
                if (!dec) { tx = "ERR-decrypt"; break; }
                first = false;
                pk.push_back(pkt_desc(ig, contents));
                pos += len + BIP324Cipher::EXPANSION;
            }
            if (tx == "-") { tx = std::to_string(pk.size()) + ":" + join(pk); txlen = std::to_string(sent.size()); }
        }
    }
    return "rx=" + std::to_string(rxlen) + " sid=" + sid + " dead=" + (ok ? "0" : "1") + " outs=" + join(outs) + " tx=" + tx + " txlen=" + txlen;
}

std::string run_v2rr(Cur& cu)
{
    SelectParams(CHAINS[cu.num()]);
    uint64_t seedA = cu.num(); size_t garbA = cu.num();
    uint64_t seedB = cu.num(); size_t garbB = cu.num();
    Sched sc = read_sched(cu);
    V2Transport A{NodeId{0}, true, key_from_seed(seedA), ent_from_seed(seedA), lcg_bytes(seedA + 1, garbA)};
    V2Transport B{NodeId{1}, false, key_from_seed(seedB), ent_from_seed(seedB), lcg_bytes(seedB + 1, garbB)};
    std::deque<CSerializedNetMsg> qa, qb;
    auto readq = [&](const char* tag, std::deque<CSerializedNetMsg>& q) {
        cu.expect(tag);
        size_t n = cu.num();
        for (size_t j = 0; j < n; ++j) { Bytes t = vd::unhex(cu.next()); Bytes p = pspec(cu.next()); CSerializedNetMsg m; m.m_type = std::string(t.begin(), t.end()); m.data = p; q.push_back(std::move(m)); }
    };
    readq("A", qa);
    readq("B", qb);
    std::vector<std::string> oa, ob;
    bool a_ok = true, b_ok = true;
    size_t alen = 0, blen = 0;
    Sched sa = sc, sb = sc;
    // alternate directions, one scheduled piece at a time, until neither side can make progress
    for (int guard = 0; guard < 100000000; ++guard) {
        bool progress = false;
        auto step = [&](V2Transport& from, V2Transport& to, std::deque<CSerializedNetMsg>& q, Sched& s, bool& to_ok, std::vector<std::string>& to_outs, size_t& cnt) {
            if (!q.empty() && from.SetMessageToSend(q.front())) { q.pop_front(); progress = true; }
            const auto& [bytes, more, type] = from.GetBytesToSend(!q.empty());
            if (bytes.empty()) return;
            size_t k = std::min(s.next(), bytes.size());
            Bytes piece(bytes.begin(), bytes.begin() + k);
            from.MarkBytesSent(k);
            cnt += k;
            progress = true;
            if (to_ok) to_ok = receive_msg_bytes(to, piece, to_outs);
        };
        if (a_ok) step(A, B, qa, sa, b_ok, ob, alen);
        if (b_ok) step(B, A, qb, sb, a_ok, oa, blen);
        if (!progress) break;
    }
    std::string sid = "-";
    auto ia = A.GetInfo(), ib = B.GetInfo();
    if (ia.session_id && ib.session_id) sid = (*ia.session_id == *ib.session_id) ? "1" : "0";
    return "sid=" + sid + " a_dead=" + (a_ok ? "0" : "1") + " b_dead=" + (b_ok ? "0" : "1") + " a_outs=" + join(oa) + " b_outs=" + join(ob) +
           " alen=" + std::to_string(alen) + " blen=" + std::to_string(blen);
}
} // namespace

int main()
{
    ECC_Context ecc;
    SelectParams(ChainType::MAIN);
    return vd::main_loop([&](const std::vector<std::string>& w, const std::string&) -> std::string {
        if (w.empty()) return "na";
        Cur cu{w, 1};
        if (w[0] == "v1") return run_v1(cu);
        if (w[0] == "v2") return run_v2(cu);
        if (w[0] == "v2raw") return run_v2raw(cu);
        if (w[0] == "v2rr") return run_v2rr(cu);
        return "na";
    });
}
