// C++ side of C20: drives the REAL ChainstateManager::ActivateSnapshot (-> PopulateAndValidateSnapshot) and
// SnapshotMetadata::Unserialize on mutations of the genuine regtest snapshot at height 110 (the height the
// tree's regtest chainparams commit to), written by the real CreateUTXOSnapshot.
//
//  act <flags> <mutation>[+<mutation>...]
//   flags (letters, '-' for none): m mempool not empty | s a snapshot was already activated | t active tip == base block
//          T active tip one block ahead of the base | f base block marked BLOCK_FAILED_VALID | b best header does not contain the base
//   mutations (applied left to right on the decoded snapshot = metadata + list of (txid, n, coin)):
//     none | v<i>:<d> value+=d | h<i>:<d> height+=d | b<i> coinbase bit | s<i>:<pos>:<mask> script byte | n<i>:<n> vout index
//     t<i>:<pos>:<mask> txid byte | d<i> drop coin (count kept in sync) | D<i> drop coin (count untouched) | u<i> duplicate coin (count in sync)
//     U<i> duplicate (count untouched) | w<i>:<j> swap | g<i> coin i+1 joins the txid of coin i with n+1 | c<d> metadata count += d
//     Mm<pos>:<mask> magic byte | Mv<version> | Mn<pos>:<mask> network magic byte | B0 | B1 | Bh<height> | Bx<byte> base hash
//     then on the encoded bytes:  a<k> keep first k bytes | e<k> drop last k | z<hex> append | x<pos>:<mask> xor byte (pos mod len)
//
// output: file=<hex of the mutated file> env=<has_snapshot>,<mempool>,<base found>,<height>,<failed>,<onbest>,<morework>
//         table=<height>:<blockhash>:<hash_serialized>;...  netmagic=<hex>
//         res=<class>  [tip=<hash> ncoins=<n> utxohash=<hash>]  state=<unchanged|CHANGED(..)>
#include <drv_common.h>
#define private public
#define protected public
#include <kernel/chainparams.h>
#include <validation.h>
#include <txmempool.h>
#undef private
#undef protected
#include <node/utxo_snapshot.h>
#include <node/kernel_notifications.h>
#include <kernel/coinstats.h>
#include <univalue.h>
#include <rpc/blockchain.h>
#include <test/util/setup_common.h>
#include <streams.h>
#include <coins.h>
#include <util/fs.h>
#include <fstream>

using node::SnapshotMetadata;

static std::string rawhex(const uint256& h) { return vd::hex(h.begin(), h.end()); }

struct Item { uint256 txid; uint32_t n; Coin coin; };
struct Meta { std::vector<unsigned char> magic; uint16_t version; std::vector<unsigned char> net; uint256 base; uint64_t count; };

static std::vector<unsigned char> encode(const Meta& m, const std::vector<Item>& items)
{
    DataStream s{};
    s.write(MakeByteSpan(m.magic));
    s << m.version;
    s.write(MakeByteSpan(m.net));
    s << m.base << m.count;
    size_t i = 0;
    while (i < items.size()) {
        size_t j = i;
        while (j < items.size() && items[j].txid == items[i].txid) ++j;
        s << items[i].txid;
        WriteCompactSize(s, j - i);
        for (size_t k = i; k < j; ++k) { WriteCompactSize(s, items[k].n); s << items[k].coin; }
        i = j;
    }
    auto sp = MakeUCharSpan(s);
    return std::vector<unsigned char>(sp.begin(), sp.end());
}

static void decode(const std::vector<unsigned char>& b, Meta& m, std::vector<Item>& items)
{
    DataStream s{b};
    m.magic.resize(5); s.read(MakeWritableByteSpan(m.magic));
    s >> m.version;
    m.net.resize(4); s.read(MakeWritableByteSpan(m.net));
    s >> m.base >> m.count;
    while (!s.empty()) {
        uint256 txid; s >> txid;
        uint64_t cnt = ReadCompactSize(s);
        for (uint64_t k = 0; k < cnt; ++k) { Item it; it.txid = txid; it.n = (uint32_t)ReadCompactSize(s); s >> it.coin; items.push_back(it); }
    }
}

struct Fixture {
    std::unique_ptr<TestChain100Setup> s;
    std::vector<unsigned char> snap;
    fs::path path;
    bool dirty{false};
    Fixture()
    {
        s = std::make_unique<TestChain100Setup>(ChainType::REGTEST);
        s->mineBlocks(10);
        path = s->m_path_root / "verif_snapshot.dat";
        {
            AutoFile out{fsbridge::fopen(path, "wb")};
            CreateUTXOSnapshot(s->m_node, s->m_node.chainman->ActiveChainstate(), std::move(out), path, path);
        }
        std::ifstream f(fs::PathToString(path), std::ios::binary);
        snap.assign((std::istreambuf_iterator<char>(f)), std::istreambuf_iterator<char>());
    }
};

static std::string classify(const std::string& e)
{
    auto num_after = [&](const std::string& key) {
        size_t p = e.find(key); if (p == std::string::npos) return std::string("?");
        p += key.size(); size_t q = p; while (q < e.size() && isdigit((unsigned char)e[q])) ++q; return e.substr(p, q - p);
    };
    if (e.find("more than once") != std::string::npos) return "twice";
    if (e.find("not recognized (hash") != std::string::npos) return "unknownbase";
    if (e.find("must appear in the headers chain") != std::string::npos) return "noheader";
    if (e.find("part of an invalid chain") != std::string::npos) return "invalidchain";
    if (e.find("forked headers-chain") != std::string::npos) return "forked";
    if (e.find("mempool not empty") != std::string::npos) return "mempool";
    if (e.find("Population failed") != std::string::npos) {
        if (e.find("Did not find snapshot start") != std::string::npos) return "p-noheader";
        if (e.find("Assumeutxo height in snapshot metadata not recognized") != std::string::npos) return "p-height";
        if (e.find("Work does not exceed") != std::string::npos) return "p-work";
        if (e.find("Mismatch in coins count") != std::string::npos) return "p-count";
        if (e.find("bad tx out value") != std::string::npos) return "p-value:" + num_after("after deserializing ");
        if (e.find("Bad snapshot data after") != std::string::npos) return "p-coin:" + num_after("after deserializing ");
        if (e.find("Bad snapshot format or truncated") != std::string::npos) return "p-trunc:" + num_after("after deserializing ");
        if (e.find("coins left over") != std::string::npos) return "p-leftover";
        if (e.find("Bad snapshot content hash") != std::string::npos) return "p-hash";
        if (e.find("interrupt") != std::string::npos) return "p-interrupt";
        return "p-other(" + e + ")";
    }
    if (e.find("work does not exceed") != std::string::npos) return "work";
    if (e.find("could not write base blockhash") != std::string::npos) return "writebase";
    return "other(" + e + ")";
}

int main()
{
    std::unique_ptr<Fixture> fx;
    return vd::main_loop([&](const std::vector<std::string>& w, const std::string&) -> std::string {
        if (w.at(0) != "act" && w.at(0) != "bg") return "BADCASE";
        if (!fx || fx->dirty) { fx.reset(); fx = std::make_unique<Fixture>(); }
        auto& node = fx->s->m_node;
        ChainstateManager& cm = *node.chainman;
        if (w.at(0) == "bg") {
            // bg <ready|again|behind> <none|add|del<i>|val<i>:<d>|hgt<i>:<d>|cb<i>>
            //   a genuine activation, then the fully validated (IBD) chainstate - which stands at the snapshot base - is
            //   tampered with and the real MaybeValidateSnapshot is called.
            // output: bgres=<result> ready=<0|1> height=<h> table=.. set=<txid:n:height:cb:value:script;...>
            fx->dirty = true;
            node.notifications->m_shutdown_on_fatal_error = false;
            Chainstate* ibd = &cm.ActiveChainstate();
            {
                AutoFile f0{fsbridge::fopen(fx->path, "rb")};
                SnapshotMetadata md{cm.GetParams().MessageStart()};
                f0 >> md;
                CBlockIndex* tip = WITH_LOCK(cs_main, return ibd->m_chain.Tip());
                ibd->m_chain.SetTip(*tip->pprev);
                auto r0 = cm.ActivateSnapshot(f0, md, false);
                ibd->m_chain.SetTip(*tip);
                if (!r0) return "BADCASE activation failed";
            }
            Chainstate* snap = WITH_LOCK(cs_main, return &cm.ActiveChainstate());
            const std::string scen = w.at(1), tam = w.at(2);
            {
                LOCK(cs_main);
                CCoinsViewCache& cc = ibd->CoinsTip();
                auto pick = [&](size_t i) { return COutPoint(fx->s->m_coinbase_txns.at(i % fx->s->m_coinbase_txns.size())->GetHash(), 0); };
                if (tam == "add") {
                    Coin c; c.out.nValue = 12345; c.nHeight = 7; c.fCoinBase = false; c.out.scriptPubKey = CScript() << OP_TRUE;
                    uint256 h; std::fill(h.begin(), h.end(), 0x5a);
                    cc.AddCoin(COutPoint(Txid::FromUint256(h), 3), std::move(c), false);
                } else if (tam.rfind("del", 0) == 0) {
                    cc.SpendCoin(pick(std::stoul(tam.substr(3))));
                } else if (tam != "none") {
                    size_t colon = tam.find(':');
                    std::string kind = tam.substr(0, tam.find_first_of("0123456789"));
                    size_t i = std::stoul(tam.substr(kind.size(), colon == std::string::npos ? std::string::npos : colon - kind.size()));
                    long long d = colon == std::string::npos ? 0 : vd::ll(tam.substr(colon + 1));
                    COutPoint op = pick(i);
                    Coin c = cc.AccessCoin(op);
                    cc.SpendCoin(op);
                    if (kind == "val") c.out.nValue += d;
                    else if (kind == "hgt") c.nHeight = (uint32_t)((long long)c.nHeight + d);
                    else if (kind == "cb") c.fCoinBase = !c.fCoinBase;
                    else return "BADCASE tamper";
                    cc.AddCoin(op, std::move(c), true);
                }
            }
            SnapshotCompletionResult res;
            bool ready = true;
            if (scen == "again") {
                WITH_LOCK(cs_main, return cm.MaybeValidateSnapshot(*ibd, *snap));
                ready = false;
            }
            CBlockIndex* saved_tip = nullptr;
            if (scen == "behind") { LOCK(cs_main); saved_tip = ibd->m_chain.Tip(); ibd->m_chain.SetTip(*saved_tip->pprev); ready = false; }
            res = WITH_LOCK(cs_main, return cm.MaybeValidateSnapshot(*ibd, *snap));
            if (saved_tip) { LOCK(cs_main); ibd->m_chain.SetTip(*saved_tip); }
            static const char* names[] = {"SUCCESS", "SKIPPED", "STATS_FAILED", "HASH_MISMATCH", "MISSING_CHAINPARAMS"};
            std::string out = "bgres=";
            switch (res) {
            case SnapshotCompletionResult::SUCCESS: out += "SUCCESS"; break;
            case SnapshotCompletionResult::SKIPPED: out += "SKIPPED"; break;
            case SnapshotCompletionResult::HASH_MISMATCH: out += "HASH_MISMATCH"; break;
            case SnapshotCompletionResult::MISSING_CHAINPARAMS: out += "MISSING_CHAINPARAMS"; break;
            default: out += "OTHER"; break;
            }
            (void)names;
            out += std::string(" ready=") + (ready ? "1" : "0") + " height=" + std::to_string(WITH_LOCK(cs_main, return ibd->m_chain.Height()));
            out += " table=";
            bool first = true;
            for (const auto& d : cm.GetParams().m_assumeutxo_data) {
                out += (first ? "" : ";") + std::to_string(d.height) + ":" + rawhex(d.blockhash) + ":" + vd::hex(d.hash_serialized.begin(), d.hash_serialized.end());
                first = false;
            }
            // the validated chainstate's coin set, as stored
            {
                LOCK(cs_main);
                ibd->ForceFlushStateToDisk();
                std::unique_ptr<CCoinsViewCursor> cur{ibd->CoinsDB().Cursor()};
                out += " set=";
                first = true;
                for (; cur->Valid(); cur->Next()) {
                    COutPoint k; Coin c;
                    if (!cur->GetKey(k) || !cur->GetValue(c)) return "BADCASE cursor";
                    out += (first ? "" : ";") + rawhex(k.hash.ToUint256()) + ":" + std::to_string(k.n) + ":" + std::to_string(c.nHeight) + ":" + (c.fCoinBase ? "1" : "0") + ":" +
                           std::to_string(c.out.nValue) + ":" + vd::hex(c.out.scriptPubKey.begin(), c.out.scriptPubKey.end());
                    first = false;
                }
                if (first) out += "-";
            }
            return out;
        }
        const std::string flags = w.at(1);
        auto has = [&](char c) { return flags.find(c) != std::string::npos; };
        // ---- mutate
        Meta meta; std::vector<Item> items;
        decode(fx->snap, meta, items);
        std::vector<unsigned char> bytes;
        bool encoded = false;
        std::string muts = w.at(2);
        size_t a = 0;
        while (a <= muts.size()) {
            size_t b = muts.find('+', a); if (b == std::string::npos) b = muts.size();
            std::string m = muts.substr(a, b - a); a = b + 1;
            if (m.empty() || m == "none") continue;
            auto arg = [&](int k) { // k-th ':'-separated argument after the first letter(s)
                std::string r = m.substr(m[0] == 'M' || m[0] == 'B' ? 2 : 1); size_t p = 0;
                for (int i = 0; i < k; ++i) { p = r.find(':', p); if (p == std::string::npos) return std::string(""); ++p; }
                size_t q = r.find(':', p); return r.substr(p, q == std::string::npos ? std::string::npos : q - p);
            };
            char c = m[0];
            const bool bytes_op = (c == 'a' || c == 'e' || c == 'z' || c == 'x');
            if (bytes_op && !encoded) { bytes = encode(meta, items); encoded = true; }
            if (!bytes_op && encoded) return "BADCASE structured mutation after a byte mutation";
            if (c == 'a') { size_t k = std::stoul(arg(0)); if (k < bytes.size()) bytes.resize(k); }
            else if (c == 'e') { size_t k = std::stoul(arg(0)); bytes.resize(k >= bytes.size() ? 0 : bytes.size() - k); }
            else if (c == 'z') { auto x = vd::unhex(arg(0)); bytes.insert(bytes.end(), x.begin(), x.end()); }
            else if (c == 'x') { if (!bytes.empty()) bytes[std::stoul(arg(0)) % bytes.size()] ^= (unsigned char)std::stoul(arg(1)); }
            else if (c == 'c') { std::string v = arg(0); meta.count += (v[0] == '-') ? (uint64_t)vd::ll(v) : (uint64_t)vd::ull(v); }
            else if (c == 'M') {
                if (m[1] == 'm') meta.magic.at(std::stoul(arg(0)) % 5) ^= (unsigned char)std::stoul(arg(1));
                else if (m[1] == 'v') meta.version = (uint16_t)std::stoul(arg(0));
                else if (m[1] == 'n') meta.net.at(std::stoul(arg(0)) % 4) ^= (unsigned char)std::stoul(arg(1));
                else return "BADCASE " + m;
            } else if (c == 'B') {
                if (m[1] == '0') meta.base = uint256::ZERO;
                else if (m[1] == '1') meta.base = uint256::ONE;
                else if (m[1] == 'h') { LOCK(cs_main); auto* bi = cm.ActiveChain()[std::stoi(arg(0))]; if (!bi) return "BADCASE height"; meta.base = bi->GetBlockHash(); }
                else if (m[1] == 'x') { std::fill(meta.base.begin(), meta.base.end(), (unsigned char)std::stoul(arg(0))); }
                else if (m[1] == 't') {   // the table's block hash for that height (a header this node may not have)
                    auto d = cm.GetParams().AssumeutxoForHeight(std::stoi(arg(0)));
                    if (!d) return "BADCASE table height";
                    meta.base = d->blockhash;
                }
                else return "BADCASE " + m;
            } else {
                if (items.empty()) continue;
                size_t i = std::stoul(arg(0)) % items.size();
                if (c == 'v') { items[i].coin.out.nValue += vd::ll(arg(1)); if (items[i].coin.out.nValue == -1) items[i].coin.out.nValue = -2; /* -1 = spent: the real serializer asserts */ }
                else if (c == 'h') items[i].coin.nHeight = (uint32_t)((int64_t)items[i].coin.nHeight + vd::ll(arg(1))) & 0x7fffffff;
                else if (c == 'b') items[i].coin.fCoinBase = !items[i].coin.fCoinBase;
                else if (c == 's') { auto& sc = items[i].coin.out.scriptPubKey; if (!sc.empty()) sc[std::stoul(arg(1)) % sc.size()] ^= (unsigned char)std::stoul(arg(2)); }
                else if (c == 'n') items[i].n = (uint32_t)vd::ull(arg(1));
                else if (c == 't') *(items[i].txid.begin() + (std::stoul(arg(1)) % 32)) ^= (unsigned char)std::stoul(arg(2));
                else if (c == 'd' || c == 'D') { items.erase(items.begin() + i); if (c == 'd') meta.count -= 1; }
                else if (c == 'u' || c == 'U') { items.insert(items.begin() + i, items[i]); if (c == 'u') meta.count += 1; }
                else if (c == 'w') { size_t j = std::stoul(arg(1)) % items.size(); std::swap(items[i], items[j]); }
                else if (c == 'g') { if (i + 1 < items.size()) { items[i + 1].txid = items[i].txid; items[i + 1].n = items[i].n + 1; } }
                else return "BADCASE " + m;
            }
        }
        if (!encoded) bytes = encode(meta, items);
        std::string out = "file=" + vd::hex(bytes);
        const fs::path mpath = fx->s->m_path_root / "verif_mutated.dat";
        { std::ofstream f(fs::PathToString(mpath), std::ios::binary | std::ios::trunc); f.write((const char*)bytes.data(), bytes.size()); }

        // ---- scenario flags
        Chainstate* active0 = &cm.ActiveChainstate();
        CBlockIndex* base110 = WITH_LOCK(cs_main, return cm.ActiveChain()[110]);
        if (has('s')) {   // a genuine activation first
            AutoFile f0{fsbridge::fopen(fx->path, "rb")};
            SnapshotMetadata md{cm.GetParams().MessageStart()};
            f0 >> md;
            CBlockIndex* tip = WITH_LOCK(cs_main, return active0->m_chain.Tip());
            active0->m_chain.SetTip(*tip->pprev);
            auto r0 = cm.ActivateSnapshot(f0, md, true);
            active0->m_chain.SetTip(*tip);
            fx->dirty = true;
            if (!r0) return "BADCASE first activation failed";
        }
        if (has('T')) { fx->s->mineBlocks(1); fx->dirty = true; }
        CTransactionRef mtx;
        if (has('m')) {
            auto mt = fx->s->CreateValidMempoolTransaction(fx->s->m_coinbase_txns[0], 0, 1, fx->s->coinbaseKey, CScript() << ToByteVector(fx->s->coinbaseKey.GetPubKey()) << OP_CHECKSIG, 49 * COIN, true);
            mtx = MakeTransactionRef(mt);
        }
        uint32_t saved_status = base110->nStatus;
        CBlockIndex* saved_best = cm.m_best_header;
        if (has('f')) { LOCK(cs_main); base110->nStatus |= BLOCK_FAILED_VALID; }
        if (has('b')) { LOCK(cs_main); cm.m_best_header = base110->pprev; }

        auto state = [&]() {
            LOCK(cs_main);
            Chainstate& ac = cm.ActiveChainstate();
            std::string s = std::to_string(cm.m_chainstates.size()) + "," + rawhex(ac.m_chain.Tip()->GetBlockHash()) + "," +
                            (cm.CurrentChainstate().m_from_snapshot_blockhash ? "1" : "0") + "," +
                            (node::FindAssumeutxoChainstateDir(cm.m_options.datadir) ? "1" : "0") + "," + std::to_string(cm.ActiveHeight());
            return s;
        };
        auto utxo = [&](Chainstate& c) {
            c.ForceFlushStateToDisk();
            auto st = kernel::ComputeUTXOStats(kernel::CoinStatsHashType::HASH_SERIALIZED, c.CoinsDB(), cm.m_blockman, {});
            return st ? std::to_string(st->coins_count) + ":" + rawhex(st->hashSerialized) : std::string("nostats");
        };
        const std::string pre = state() + "," + utxo(*active0);

        // ---- what the RPC does: parse the metadata, then activate
        std::string res;
        bool ok = false;
        {
            AutoFile f{fsbridge::fopen(mpath, "rb")};
            SnapshotMetadata md{cm.GetParams().MessageStart()};
            bool parsed = false;
            try { f >> md; parsed = true; }
            catch (const std::ios_base::failure& e) {
                std::string t = e.what();
                if (t.find("magic bytes") != std::string::npos) res = "meta-magic";
                else if (t.find("Version of snapshot") != std::string::npos) res = "meta-version";
                else if (t.find("network of the snapshot") != std::string::npos || t.find("unrecognized network") != std::string::npos) res = "meta-network";
                else res = "meta-eof";
            }
            // environment facts the decision consults (for the base hash of THIS metadata)
            {
                LOCK(cs_main);
                CBlockIndex* bi = parsed ? cm.m_blockman.LookupBlockIndex(md.m_base_blockhash) : nullptr;
                CBlockIndex* tip = active0->m_chain.Tip();
                CBlockIndex* tip_for_cmp = (has('t') || has('T') || has('s')) ? cm.ActiveTip() : tip->pprev;
                out += " env=" + std::string(cm.CurrentChainstate().m_from_snapshot_blockhash ? "1" : "0") + "," +
                       std::to_string(cm.CurrentChainstate().GetMempool() ? cm.CurrentChainstate().GetMempool()->size() : 0) + "," +
                       (bi ? "1" : "0") + "," + std::to_string(bi ? bi->nHeight : -1) + "," +
                       ((bi && (bi->nStatus & BLOCK_FAILED_VALID)) ? "1" : "0") + "," +
                       ((bi && cm.m_best_header && cm.m_best_header->GetAncestor(bi->nHeight) == bi) ? "1" : "0") + "," +
                       ((bi && node::CBlockIndexWorkComparator()(tip_for_cmp, bi)) ? "1" : "0");
                out += " table=";
                bool first = true;
                for (const auto& d : cm.GetParams().m_assumeutxo_data) {
                    out += (first ? "" : ";") + std::to_string(d.height) + ":" + rawhex(d.blockhash) + ":" + vd::hex(d.hash_serialized.begin(), d.hash_serialized.end());
                    first = false;
                }
                auto ms = cm.GetParams().MessageStart();
                out += " netmagic=" + vd::hex(ms.begin(), ms.end());
            }
            if (parsed) {
                CBlockIndex* tip = WITH_LOCK(cs_main, return active0->m_chain.Tip());
                const bool hack = !(has('t') || has('T') || has('s'));
                if (hack && tip->pprev) active0->m_chain.SetTip(*tip->pprev);
                auto r = cm.ActivateSnapshot(f, md, /*in_memory=*/false);
                if (hack) active0->m_chain.SetTip(*tip);
                ok = !!r;
                res = ok ? "ok" : classify(util::ErrorString(r).original);
            }
        }
        // ---- undo the scenario flags
        { LOCK(cs_main); base110->nStatus = saved_status; cm.m_best_header = saved_best; }
        if (mtx) { LOCK2(cs_main, node.mempool->cs); node.mempool->removeRecursive(*mtx, MemPoolRemovalReason::REPLACED); }
        out += " res=" + res;
        if (ok) {
            fx->dirty = true;
            LOCK(cs_main);
            Chainstate& ac = cm.ActiveChainstate();
            out += " tip=" + rawhex(ac.m_chain.Tip()->GetBlockHash()) + " utxo=" + utxo(ac) + " bg=" + utxo(*active0);
            out += std::string(" from=") + (ac.m_from_snapshot_blockhash ? rawhex(*ac.m_from_snapshot_blockhash) : "-");
            out += " ibdstate=" + std::string(pre.substr(pre.rfind(',') + 1) == utxo(*active0) ? "unchanged" : "CHANGED");
        } else {
            const std::string post = state() + "," + utxo(*active0);
            out += " state=" + std::string(post == pre ? "unchanged" : "CHANGED(" + pre + " -> " + post + ")");
        }
        return out;
    });
}
