// C++ side of the `mempool` family (C22 mempool consistency, C23 block templates, C28 test-accept).
// Runs an operation script against the REAL node (fresh regtest TestChain100Setup per case: genesis + 100
// blocks whose coinbases f1..f100 pay 50 BTC to the fixture key) with REAL transactions and blocks:
// AcceptToMemoryPool through ChainstateManager::ProcessTransaction, ProcessNewBlock (connects and reorgs
// through ActivateBestChain -> DisconnectTip / ConnectTip / MaybeUpdateMempoolForReorg), the RPC bodies of
// invalidateblock / reconsiderblock, CTxMemPool::TrimToSize / Expire / PrioritiseTransaction and
// BlockAssembler::CreateNewBlock.  After every operation it prints what the node did and a dump of the
// mempool's real data structures (mapTx, mapNextTx, totals, TxGraph ancestors, lock points) together with the
// status of every input in CoinsTip(), the verdict of CTxMemPool::check (in a forked child) and the verdict of
// TestBlockValidity on a block holding the whole pool in mining order.
//
// case line:  op ; op ; ...
//   cfg k=v ...                         first op only: maxmempool=<MB> expiry=<hours> nonstd=<0|1>
//   tx NAME VER LOCKTIME FEE PAD INS NOUT [SIGOPS]
//        LOCKTIME = a number, or t<rel> = T0 + rel (a time lock);  INS = in,in,...   in = SRC:N:SEQ[!]    SRC = f<k> (fixture coinbase k) | tx name | block name (its coinbase)
//              | any other name (an outpoint that never existed);  SEQ = nSequence (decimal, or `f` = 0xffffffff);
//              `!` = build an invalid witness / signature for this input
//        NOUT spendable outputs P2WSH(OP_TRUE) sharing (inputs - FEE) equally (inputs unknown: 1 BTC each);
//        PAD > 0: one more output OP_RETURN <PAD bytes>;  SIGOPS > 0: one more output of SIGOPS x OP_CHECKSIG (value 0)
//   atmp NAME / test NAME               ProcessTransaction(tx, test_accept = false / true)
//   pkg NAME NAME ...                   ProcessNewPackage(chainstate, pool, {txs}, test_accept = false, no max feerate)
//   mine BLK T NAME*                    block on the active tip with nTime = T0 + T holding the named txs; ProcessNewBlock
//   fork BLK PARENT T NAME*             same on PARENT = block name | F (fixture tip) | h<k> (active block at height k)
//   inval BLK|h<k> / recon BLK|h<k>     bodies of the invalidateblock / reconsiderblock RPCs
//   time T                              SetMockTime(T0 + T)
//   trim BYTES                          CTxMemPool::TrimToSize(BYTES)
//   expire AGE                          CTxMemPool::Expire(now - AGE)
//   prio NAME DELTA                     CTxMemPool::PrioritiseTransaction
//   template MAXW RESERVED MINFEE CBSIGOPS    BlockAssembler{..}.CreateNewBlock() with these options (test_block_validity off;
//                                       TestBlockValidity is called by the driver and its verdict printed)
// Every dumped entry ends with the result of a fresh BIP68 evaluation for the next block (1/0).
// T0 = nTime of the fixture tip.  Output: tokens separated by " | "; the first is `init ...`, then one per op except cfg/tx.
// A token is `<observable part> ;; <detail>` (see fmt below).  If the node aborts inside an op the line ends in `| CRASH`.
#define VERIF_NO_TEST_GLOBALS
#include <drv_common.h>
#include <unistd.h>
#include <fcntl.h>
#include <algorithm>
#include <cstdlib>
#include <filesystem>
#include <fstream>
#include <map>
#include <memory>
#include <set>
#include <sys/wait.h>
#include <signal.h>
#include <setjmp.h>
extern const std::function<void(const std::string&)> G_TEST_LOG_FUN;
extern const std::function<std::vector<const char*>()> G_TEST_COMMAND_LINE_ARGUMENTS;
extern const std::function<std::string()> G_TEST_GET_FULL_NAME;
const std::function<void(const std::string&)> G_TEST_LOG_FUN{};
const std::function<std::vector<const char*>()> G_TEST_COMMAND_LINE_ARGUMENTS{[]() { return std::vector<const char*>{}; }};
const std::function<std::string()> G_TEST_GET_FULL_NAME{[]() { return std::string{"verif_mempool_"} + std::to_string(getpid()); }};

#define private public
#define protected public
#include <txmempool.h>
#include <node/miner.h>
#undef private
#undef protected
#include <chain.h>
#include <chainparams.h>
#include <coins.h>
#include <consensus/amount.h>
#include <consensus/consensus.h>
#include <consensus/merkle.h>
#include <consensus/tx_verify.h>
#include <consensus/validation.h>
#include <key.h>
#include <node/blockstorage.h>
#include <policy/packages.h>
#include <policy/policy.h>
#include <pow.h>
#include <primitives/block.h>
#include <primitives/transaction.h>
#include <script/interpreter.h>
#include <script/script.h>
#include <addresstype.h>
#include <test/util/script.h>
#include <test/util/setup_common.h>
#include <uint256.h>
#include <univalue.h>
#include <util/time.h>
#include <validation.h>
#include <validationinterface.h>

void InvalidateBlock(ChainstateManager& chainman, const uint256 block_hash);
void ReconsiderBlock(ChainstateManager& chainman, uint256 block_hash);

namespace {
sigjmp_buf g_jmp;
volatile sig_atomic_t g_in_check = 0;
std::vector<std::string> split(const std::string& s, char sep)
{
    std::vector<std::string> out;
    std::string cur;
    for (char c : s) {
        if (c == sep) { out.push_back(cur); cur.clear(); } else cur.push_back(c);
    }
    out.push_back(cur);
    return out;
}

std::string canon_tx_reason(const TxValidationState& st)
{
    if (st.IsValid()) return "ok";
    std::string r = st.GetRejectReason();
    for (char& c : r) if (c == ' ') c = '_';
    if (r.find("script-verify-flag-failed") != std::string::npos) return "script-verify-failed";
    return r.empty() ? "invalid" : r;
}
std::string canon_block_reason(const BlockValidationState& st)
{
    if (st.IsValid()) return "ok";
    std::string r = st.GetRejectReason();
    for (char& c : r) if (c == ' ') c = '_';
    if (r.find("script-verify-flag-failed") != std::string::npos) return "script-verify-failed";
    return r.empty() ? "invalid" : r;
}

struct TxDef {
    CTransactionRef tx;
    std::string kinds; // per output: w (P2WSH OP_TRUE), p (fixture P2PK), r, s, c
};
struct Blk {
    std::shared_ptr<CBlock> block; // null for fixture blocks
    uint256 hash;
    int height{0};
};

struct Events final : public CValidationInterface {
    Mutex m;
    std::vector<std::pair<char, std::pair<Txid, int>>> ev; // 'A' added, 'R' removed(reason)
    std::vector<std::pair<uint256, std::string>> checked;
    void TransactionAddedToMempool(const NewMempoolTransactionInfo& tx, uint64_t) override
    {
        LOCK(m);
        ev.push_back({'A', {tx.info.m_tx->GetHash(), 0}});
    }
    void TransactionRemovedFromMempool(const CTransactionRef& tx, MemPoolRemovalReason reason, uint64_t) override
    {
        LOCK(m);
        ev.push_back({'R', {tx->GetHash(), (int)reason}});
    }
    void BlockChecked(const std::shared_ptr<const CBlock>& block, const BlockValidationState& st) override
    {
        LOCK(m);
        checked.emplace_back(block->GetHash(), canon_block_reason(st));
    }
};

const char* reason_name(int r)
{
    switch ((MemPoolRemovalReason)r) {
    case MemPoolRemovalReason::EXPIRY: return "expiry";
    case MemPoolRemovalReason::SIZELIMIT: return "sizelimit";
    case MemPoolRemovalReason::REORG: return "reorg";
    case MemPoolRemovalReason::BLOCK: return "block";
    case MemPoolRemovalReason::CONFLICT: return "conflict";
    case MemPoolRemovalReason::REPLACED: return "replaced";
    }
    return "?";
}

std::string join(const std::vector<std::string>& v, const char* sep)
{
    std::string o;
    for (size_t i = 0; i < v.size(); ++i) { if (i) o += sep; o += v[i]; }
    if (o.empty()) o = "-";
    return o;
}

struct Run {
    std::unique_ptr<TestChain100Setup> setup;
    std::shared_ptr<Events> events;
    std::map<std::string, TxDef> txs;
    std::map<Txid, std::string> tx_names;
    std::map<std::string, Blk> blocks;
    std::map<uint256, std::string> block_names;
    const CBlockIndex* fixture_tip{nullptr};
    int64_t T0{0};
    int counter{0};
    CScript p2pk;

    ChainstateManager& cm() { return *setup->m_node.chainman; }
    CTxMemPool& pool() { return *setup->m_node.mempool; }

    explicit Run(const std::vector<std::string>& cfg)
    {
        TestOpts opts;
        opts.extra_args = {"-nodebuglogfile", "-nodebug", "-checkmempool=0"};
        for (size_t i = 1; i < cfg.size(); ++i) {
            auto kv = split(cfg[i], '=');
            if (kv.size() != 2) throw std::runtime_error("BADSCRIPT");
            if (kv[0] == "maxmempool") opts.extra_args.push_back(strdup(("-maxmempool=" + kv[1]).c_str()));
            else if (kv[0] == "expiry") opts.extra_args.push_back(strdup(("-mempoolexpiry=" + kv[1]).c_str()));
            else if (kv[0] == "nonstd") opts.extra_args.push_back(strdup(("-acceptnonstdtxn=" + kv[1]).c_str()));
            else throw std::runtime_error("BADSCRIPT");
        }
        setup = std::make_unique<TestChain100Setup>(ChainType::REGTEST, opts);
        events = std::make_shared<Events>();
        setup->m_node.validation_signals->RegisterSharedValidationInterface(events);
        p2pk = CScript() << ToByteVector(setup->coinbaseKey.GetPubKey()) << OP_CHECKSIG;
        LOCK(cs_main);
        const CChain& ch = cm().ActiveChain();
        fixture_tip = ch.Tip();
        T0 = fixture_tip->GetBlockTime();
        Blk f;
        f.hash = fixture_tip->GetBlockHash();
        f.height = fixture_tip->nHeight;
        blocks["F"] = f;
        block_names[f.hash] = "F";
        for (int h = 1; h <= ch.Height(); ++h) {
            const CTransactionRef& cb = setup->m_coinbase_txns.at(h - 1);
            TxDef d;
            d.tx = cb;
            d.kinds = "p";
            for (size_t i = 1; i < cb->vout.size(); ++i) d.kinds.push_back('c');
            std::string n = "f" + std::to_string(h);
            txs[n] = d;
            tx_names[cb->GetHash()] = n;
        }
    }

    std::string name_of(const Txid& id) const
    {
        auto it = tx_names.find(id);
        return it == tx_names.end() ? "?" + id.ToString().substr(0, 8) : it->second;
    }
    std::string block_name(const uint256& h) const
    {
        auto it = block_names.find(h);
        if (it != block_names.end()) return it->second;
        return "?";
    }
    std::string tip_name()
    {
        LOCK(cs_main);
        const CBlockIndex* t = cm().ActiveChain().Tip();
        auto it = block_names.find(t->GetBlockHash());
        if (it != block_names.end()) return it->second;
        return "h" + std::to_string(t->nHeight);
    }

    std::vector<unsigned char> sign(const CScript& code, const CMutableTransaction& mtx, unsigned nin)
    {
        uint256 hash = SignatureHash(code, mtx, nin, SIGHASH_ALL, 0, SigVersion::BASE);
        std::vector<unsigned char> sig;
        if (!setup->coinbaseKey.Sign(hash, sig)) throw std::runtime_error("sign failed");
        sig.push_back((unsigned char)SIGHASH_ALL);
        return sig;
    }

    void def_tx(const std::vector<std::string>& w)
    {
        // tx NAME VER LOCKTIME FEE PAD INS NOUT [SIGOPS]
        const std::string& name = w.at(1);
        if (txs.count(name) || blocks.count(name)) throw std::runtime_error("BADSCRIPT");
        CMutableTransaction mtx;
        mtx.version = (uint32_t)vd::ull(w.at(2));
        mtx.nLockTime = w.at(3)[0] == 't' ? (uint32_t)(T0 + vd::ll(w.at(3).substr(1))) : (uint32_t)vd::ull(w.at(3));
        CAmount fee = vd::ll(w.at(4));
        size_t pad = vd::ull(w.at(5));
        size_t nout = vd::ull(w.at(7));
        size_t sigops = w.size() > 8 ? vd::ull(w.at(8)) : 0;
        struct In { char kind; bool ok; };
        std::vector<In> meta;
        CAmount in_value = 0;
        for (const std::string& s0 : split(w.at(6), ',')) {
            std::string s = s0;
            In m{'?', true};
            if (!s.empty() && s.back() == '!') { m.ok = false; s.pop_back(); }
            auto parts = split(s, ':');
            if (parts.size() != 3) throw std::runtime_error("BADSCRIPT");
            CTxIn in;
            in.nSequence = parts[2] == "f" ? CTxIn::SEQUENCE_FINAL : (uint32_t)vd::ull(parts[2]);
            uint32_t n = (uint32_t)vd::ull(parts[1]);
            auto it = txs.find(parts[0]);
            if (it != txs.end()) {
                in.prevout = COutPoint(it->second.tx->GetHash(), n);
                if (n < it->second.kinds.size()) { m.kind = it->second.kinds[n]; in_value += it->second.tx->vout[n].nValue; }
                else in_value += COIN;
            } else {
                uint256 h;
                for (size_t i = 0; i < parts[0].size() && i < 31; ++i) h.data()[i] = (unsigned char)parts[0][i];
                h.data()[31] = 0xEE;
                in.prevout = COutPoint(Txid::FromUint256(h), n);
                in_value += COIN;
            }
            mtx.vin.push_back(in);
            meta.push_back(m);
        }
        std::string kinds;
        CAmount out_total = in_value - fee;
        for (size_t i = 0; i < nout; ++i) {
            CAmount v = out_total / (CAmount)nout + (i == 0 ? out_total % (CAmount)nout : 0);
            mtx.vout.emplace_back(v, P2WSH_OP_TRUE);
            kinds.push_back('w');
        }
        if (nout == 0) fee = in_value; // everything goes to fees (needs PAD or SIGOPS output to be a transaction at all)
        if (pad > 0) {
            std::vector<unsigned char> data(pad, (unsigned char)(0x40 + (++counter % 50)));
            mtx.vout.emplace_back(0, CScript() << OP_RETURN << data);
            kinds.push_back('r');
        }
        if (sigops > 0) {
            std::vector<unsigned char> b(sigops, (unsigned char)OP_CHECKSIG);
            mtx.vout.emplace_back(0, CScript(b.begin(), b.end()));
            kinds.push_back('s');
        }
        for (size_t i = 0; i < mtx.vin.size(); ++i) {
            const In& m = meta[i];
            CTxIn& in = mtx.vin[i];
            static const std::vector<unsigned char> empty;
            switch (m.kind) {
            case 'w':
                in.scriptWitness.stack.push_back(m.ok ? WITNESS_STACK_ELEM_OP_TRUE : std::vector<unsigned char>{(unsigned char)OP_TRUE, (unsigned char)OP_TRUE});
                break;
            case 'p':
                if (m.ok) in.scriptSig = CScript() << sign(p2pk, mtx, i);
                else in.scriptSig = CScript() << empty;
                break;
            default:
                // unknown / unspendable source: give it the P2WSH witness anyway
                in.scriptWitness.stack.push_back(WITNESS_STACK_ELEM_OP_TRUE);
                break;
            }
        }
        TxDef d;
        d.tx = MakeTransactionRef(mtx);
        d.kinds = kinds;
        if (tx_names.count(d.tx->GetHash())) throw std::runtime_error("BADSCRIPT");
        txs[name] = d;
        tx_names[d.tx->GetHash()] = name;
    }

    const CBlockIndex* resolve_block(const std::string& s)
    {
        LOCK(cs_main);
        if (s.size() >= 2 && s[0] == 'h' && isdigit((unsigned char)s[1])) {
            int h = atoi(s.c_str() + 1);
            const CBlockIndex* p = cm().ActiveChain()[h];
            if (!p) throw std::runtime_error("BADSCRIPT");
            return p;
        }
        auto it = blocks.find(s);
        if (it == blocks.end()) throw std::runtime_error("BADSCRIPT");
        const CBlockIndex* p = cm().m_blockman.LookupBlockIndex(it->second.hash);
        if (!p) throw std::runtime_error("BADSCRIPT");
        return p;
    }

    // builds the block; coinbase: one P2WSH(OP_TRUE) output of subsidy + declared fees of the named txs
    void build_block(const std::string& name, const CBlockIndex* parent, int64_t t, const std::vector<std::string>& names)
    {
        if (txs.count(name) || blocks.count(name)) throw std::runtime_error("BADSCRIPT");
        const Consensus::Params& cons = cm().GetConsensus();
        Blk b;
        b.height = parent->nHeight + 1;
        auto blk = std::make_shared<CBlock>();
        blk->nVersion = 0x20000000;
        blk->hashPrevBlock = parent->GetBlockHash();
        blk->nTime = (uint32_t)(T0 + t);
        blk->nBits = fixture_tip->nBits;
        blk->nNonce = 0;
        CMutableTransaction cb;
        cb.version = 2;
        cb.vin.resize(1);
        cb.vin[0].prevout.SetNull();
        cb.vin[0].scriptSig = CScript() << b.height << CScriptNum(++counter) << OP_0;
        cb.vin[0].nSequence = CTxIn::SEQUENCE_FINAL;
        cb.vout.emplace_back(GetBlockSubsidy(b.height, cons), P2WSH_OP_TRUE); // fees are left unclaimed
        blk->vtx.push_back(MakeTransactionRef(std::move(cb)));
        for (const std::string& n : names) {
            auto it = txs.find(n);
            if (it == txs.end()) throw std::runtime_error("BADSCRIPT");
            blk->vtx.push_back(it->second.tx);
        }
        cm().GenerateCoinbaseCommitment(*blk, parent);
        blk->hashMerkleRoot = BlockMerkleRoot(*blk);
        while (!CheckProofOfWork(blk->GetHash(), blk->nBits, cons)) ++blk->nNonce;
        b.block = blk;
        b.hash = blk->GetHash();
        blocks[name] = b;
        block_names[b.hash] = name;
        TxDef d;
        d.tx = blk->vtx[0];
        d.kinds = "w";
        for (size_t i = 1; i < blk->vtx[0]->vout.size(); ++i) d.kinds.push_back('c');
        txs[name] = d;
        tx_names[d.tx->GetHash()] = name;
    }

    void sync()
    {
        if (setup->m_node.validation_signals) setup->m_node.validation_signals->SyncWithValidationInterfaceQueue();
    }

    // ---- dump of the real structures ----
    // CTxMemPool::check with check_ratio forced to 1, in this process: an assert of the checker raises SIGABRT, the
    // handler jumps back here.  The locks check() held stay held (recursive, same thread): the script ends after this
    // operation and the worker process exits after the case.
    bool poisoned{false};
    std::string check_in_child()
    {
        if (getenv("VERIF_MP_NOCHECK")) return "ok";
        sync();
        struct sigaction sa {}, old {};
        sa.sa_handler = [](int) { if (g_in_check) siglongjmp(g_jmp, 1); };
        sigemptyset(&sa.sa_mask);
        sigaction(SIGABRT, &sa, &old);
        std::string r = "ok";
        g_in_check = 1;
        if (sigsetjmp(g_jmp, 1) == 0) {
            *const_cast<int*>(&pool().m_opts.check_ratio) = 1;
            LOCK(cs_main);
            Chainstate& cs = cm().ActiveChainstate();
            pool().check(cs.CoinsTip(), cs.m_chain.Height() + 1);
        } else {
            r = "abort";
            poisoned = true;
        }
        g_in_check = 0;
        *const_cast<int*>(&pool().m_opts.check_ratio) = 0;
        sigaction(SIGABRT, &old, nullptr);
        return r;
    }

    std::string whole_pool_block_verdict()
    {
        if (getenv("VERIF_MP_NOBLK")) return "ok";
        LOCK(cs_main);
        Chainstate& cs = cm().ActiveChainstate();
        const CBlockIndex* tip = cs.m_chain.Tip();
        CBlock blk;
        blk.nVersion = 0x20000000;
        blk.hashPrevBlock = tip->GetBlockHash();
        blk.nTime = (uint32_t)std::max<int64_t>(tip->GetMedianTimePast() + 1, GetTime());
        blk.nBits = fixture_tip->nBits;
        CMutableTransaction cb;
        cb.version = 2;
        cb.vin.resize(1);
        cb.vin[0].prevout.SetNull();
        cb.vin[0].scriptSig = CScript() << (tip->nHeight + 1) << OP_0;
        cb.vout.emplace_back(GetBlockSubsidy(tip->nHeight + 1, cm().GetConsensus()), P2WSH_OP_TRUE);
        blk.vtx.push_back(MakeTransactionRef(std::move(cb)));
        {
            LOCK(pool().cs);
            if (pool().mapTx.empty()) return "ok";
            for (const auto& it : pool().GetSortedScoreWithTopology()) blk.vtx.push_back(it->GetSharedTx());
        }
        cm().GenerateCoinbaseCommitment(blk, tip);
        blk.hashMerkleRoot = BlockMerkleRoot(blk);
        BlockValidationState st = TestBlockValidity(cs, blk, /*check_pow=*/false, /*check_merkle_root=*/false);
        return canon_block_reason(st);
    }

    std::vector<std::string> pool_names()
    {
        std::vector<std::string> v;
        LOCK(pool().cs);
        for (auto it = pool().mapTx.begin(); it != pool().mapTx.end(); ++it) v.push_back(name_of(it->GetTx().GetHash()));
        std::sort(v.begin(), v.end());
        return v;
    }

    std::string take_events()
    {
        sync();
        LOCK(events->m);
        // removed, by reason; added (in order)
        std::map<std::string, std::vector<std::string>> by;
        std::vector<std::string> added;
        for (const auto& e : events->ev) {
            if (e.first == 'A') added.push_back(name_of(e.second.first));
            else by[reason_name(e.second.second)].push_back(name_of(e.second.first));
        }
        events->ev.clear();
        std::string out = "A=" + join(added, ",") + " R=";
        std::vector<std::string> parts;
        for (auto& [r, v] : by) { std::sort(v.begin(), v.end()); parts.push_back(r + ":" + join(v, ",")); }
        out += join(parts, "/");
        return out;
    }
    std::string take_checked()
    {
        sync();
        LOCK(events->m);
        std::vector<std::string> v;
        for (const auto& [h, r] : events->checked) v.push_back(block_name(h) + "=" + r);
        events->checked.clear();
        return join(v, ",");
    }

    bool want_blk{true};
    std::string detail()
    {
        std::string chk = check_in_child();
        std::string blkv = (want_blk && !poisoned) ? whole_pool_block_verdict() : "skip";
        LOCK(cs_main);
        Chainstate& cs = cm().ActiveChainstate();
        const CBlockIndex* tip = cs.m_chain.Tip();
        CCoinsViewCache& view = cs.CoinsTip();
        LOCK(pool().cs);
        CTxMemPool& mp = pool();
        std::string out = "D h=" + std::to_string(tip->nHeight) + " mtp=" + std::to_string(tip->GetMedianTimePast() - T0) +
                          " now=" + std::to_string(GetTime() - T0) + " size=" + std::to_string(mp.totalTxSize) + " fee=" + std::to_string(mp.m_total_fee) +
                          " n=" + std::to_string(mp.mapTx.size()) + " nx=" + std::to_string(mp.mapNextTx.size()) +
                          " g=" + std::to_string(mp.m_txgraph->GetTransactionCount(TxGraph::Level::MAIN)) +
                          " chk=" + chk + " blk=" + blkv;
        std::vector<std::string> es;
        for (auto it = mp.mapTx.begin(); it != mp.mapTx.end(); ++it) {
            const CTxMemPoolEntry& e = *it;
            const CTransaction& tx = e.GetTx();
            std::string s = name_of(tx.GetHash()) + "," + std::to_string(e.GetFee()) + "," + std::to_string(e.GetModifiedFee()) + "," +
                            std::to_string(e.GetTxSize()) + "," + std::to_string(e.GetTxWeight()) + "," + std::to_string(e.GetSigOpCost()) + "," +
                            (e.GetSpendsCoinbase() ? "1" : "0") + "," + std::to_string(e.GetTime().count() - T0) + ",";
            const LockPoints& lp = e.GetLockPoints();
            s += std::to_string(lp.height) + "," + std::to_string(lp.time == -1 ? -1 : lp.time - T0) + "," + (lp.maxInputBlock ? std::to_string(lp.maxInputBlock->nHeight) + "@" + (cs.m_chain.Contains(*lp.maxInputBlock) ? "1" : "0") : "-") + ",";
            std::vector<std::string> anc;
            for (auto ref : mp.m_txgraph->GetAncestors(e, TxGraph::Level::MAIN)) {
                const CTxMemPoolEntry& a = static_cast<const CTxMemPoolEntry&>(*ref);
                if (&a != &e) anc.push_back(name_of(a.GetTx().GetHash()));
            }
            std::sort(anc.begin(), anc.end());
            s += join(anc, ".") + ",";
            std::vector<std::string> ins;
            for (const CTxIn& in : tx.vin) {
                std::string st;
                auto pit = mp.mapTx.find(in.prevout.hash);
                if (pit != mp.mapTx.end()) {
                    st = in.prevout.n < pit->GetTx().vout.size() ? "m" : "M";
                } else {
                    std::optional<Coin> c = view.GetCoin(in.prevout);
                    if (c) st = "u" + std::to_string(c->nHeight) + (c->IsCoinBase() ? "c" : "n");
                    else st = "x";
                }
                ins.push_back(name_of(in.prevout.hash) + ":" + std::to_string(in.prevout.n) + ":" + st);
            }
            s += join(ins, ".");
            // BIP68 by a FRESH evaluation on (CoinsTip + mempool): CalculateLockPointsAtTip + CheckSequenceLocksAtTip
            {
                const CCoinsViewMemPool vm{&view, mp};
                CBlockIndex* tipnc = cs.m_chain.Tip();
                const std::optional<LockPoints> fresh{CalculateLockPointsAtTip(tipnc, vm, tx)};
                s += std::string(",") + ((fresh.has_value() && CheckSequenceLocksAtTip(tipnc, *fresh)) ? "1" : "0");
            }
            es.push_back(s);
        }
        std::sort(es.begin(), es.end());
        out += " E " + join(es, " ");
        std::vector<std::string> xs;
        for (const auto& [op, it] : mp.mapNextTx) {
            xs.push_back(name_of(op->hash) + ":" + std::to_string(op->n) + ">" + (it == mp.mapTx.end() ? std::string("END") : name_of(it->GetTx().GetHash())));
        }
        std::sort(xs.begin(), xs.end());
        out += " X " + join(xs, " ");
        return out;
    }

    std::string fingerprint()
    {
        LOCK(pool().cs);
        CTxMemPool& mp = pool();
        std::vector<std::string> v;
        for (auto it = mp.mapTx.begin(); it != mp.mapTx.end(); ++it) v.push_back(it->GetTx().GetWitnessHash().ToString() + ":" + std::to_string(it->GetModifiedFee()));
        std::sort(v.begin(), v.end());
        std::string s = join(v, ",") + "#" + std::to_string(mp.nTransactionsUpdated) + "#" + std::to_string(mp.totalTxSize) + "#" + std::to_string(mp.m_total_fee) +
                        "#" + std::to_string(mp.mapNextTx.size()) + "#" + std::to_string(mp.m_sequence_number) + "#" + std::to_string(mp.cachedInnerUsage) +
                        "#" + std::to_string(mp.m_txgraph->GetTransactionCount(TxGraph::Level::MAIN)) + "#" + (mp.m_txgraph->HaveStaging() ? "S" : "-") +
                        "#" + std::to_string(mp.mapDeltas.size()) + "#" + std::to_string(mp.rollingMinimumFeeRate);
        return s;
    }

    std::string tail(const std::string& obs)
    {
        std::string ev = take_events();
        return obs + " " + ev + " P=" + join(pool_names(), ",") + " tip=" + tip_name() + " ;; " + detail();
    }

    std::string op(const std::vector<std::string>& w)
    {
        const std::string& o = w[0];
        if ((o == "atmp" || o == "test") && w.size() == 2) {
            auto it = txs.find(w[1]);
            if (it == txs.end()) throw std::runtime_error("BADSCRIPT");
            bool test = o == "test";
            std::string before = test ? fingerprint() : "";
            std::string verdict, extra;
            {
                LOCK(cs_main);
                MempoolAcceptResult r = cm().ProcessTransaction(it->second.tx, test);
                if (r.m_result_type == MempoolAcceptResult::ResultType::VALID) {
                    verdict = "ok";
                    extra = " vs=" + std::to_string(r.m_vsize.value_or(-1)) + " bf=" + std::to_string(r.m_base_fees.value_or(-1));
                } else {
                    verdict = canon_tx_reason(r.m_state);
                }
            }
            std::string same = test ? (fingerprint() == before ? " same=1" : " same=0") : "";
            return tail(std::string(test ? "t " : "a ") + w[1] + " " + verdict + extra + same);
        }
        if (o == "pkg" && w.size() >= 2) {
            Package package;
            std::vector<std::string> names(w.begin() + 1, w.end());
            for (const std::string& n : names) {
                auto it = txs.find(n);
                if (it == txs.end()) throw std::runtime_error("BADSCRIPT");
                package.push_back(it->second.tx);
            }
            std::string pstate;
            std::vector<std::string> verdicts;
            {
                LOCK(cs_main);
                PackageMempoolAcceptResult r = ProcessNewPackage(cm().ActiveChainstate(), pool(), package, /*test_accept=*/false, /*client_maxfeerate=*/{});
                pstate = r.m_state.IsValid() ? "ok" : r.m_state.GetRejectReason();
                for (char& c : pstate) if (c == ' ') c = '_';
                if (pstate.empty()) pstate = "invalid";
                for (size_t i = 0; i < package.size(); ++i) {
                    auto it = r.m_tx_results.find(package[i]->GetWitnessHash());
                    std::string v = "none";
                    if (it != r.m_tx_results.end()) {
                        if (it->second.m_result_type == MempoolAcceptResult::ResultType::VALID) v = "ok";
                        else if (it->second.m_result_type == MempoolAcceptResult::ResultType::MEMPOOL_ENTRY) v = "already";
                        else v = canon_tx_reason(it->second.m_state);
                    }
                    verdicts.push_back(names[i] + ":" + v);
                }
            }
            return tail("k " + join(names, ",") + " " + pstate + " v=" + join(verdicts, ","));
        }
        if ((o == "mine" && w.size() >= 3) || (o == "fork" && w.size() >= 4)) {
            size_t k = o == "mine" ? 2 : 3;
            const CBlockIndex* parent;
            if (o == "mine") { LOCK(cs_main); parent = cm().ActiveChain().Tip(); }
            else parent = resolve_block(w[2]);
            std::vector<std::string> names(w.begin() + k + 1, w.end());
            build_block(w[1], parent, vd::ll(w[k]), names);
            auto copy = std::make_shared<const CBlock>(*blocks.at(w[1]).block);
            bool nb = false;
            bool ok = cm().ProcessNewBlock(copy, /*force_processing=*/true, /*min_pow_checked=*/true, &nb);
            return tail(std::string("b ") + w[1] + " " + (ok ? "1" : "0") + " " + take_checked());
        }
        if ((o == "inval" || o == "recon") && w.size() == 2) {
            const CBlockIndex* b = resolve_block(w[1]);
            std::string r = "ok";
            try {
                if (o == "inval") InvalidateBlock(cm(), b->GetBlockHash()); else ReconsiderBlock(cm(), b->GetBlockHash());
            } catch (const UniValue&) { r = "err"; }
            return tail(std::string(o == "inval" ? "i " : "r ") + w[1] + " " + r + " " + take_checked());
        }
        if (o == "time" && w.size() == 2) {
            SetMockTime(T0 + vd::ll(w[1]));
            return tail("c " + w[1]);
        }
        if (o == "trim" && w.size() == 2) {
            { LOCK2(cs_main, pool().cs); pool().TrimToSize(vd::ull(w[1])); }
            return tail("m " + w[1]);
        }
        if (o == "expire" && w.size() == 2) {
            int n;
            { LOCK2(cs_main, pool().cs); n = pool().Expire(std::chrono::seconds{GetTime() - vd::ll(w[1])}); }
            return tail("x " + w[1] + " " + std::to_string(n));
        }
        if (o == "prio" && w.size() == 3) {
            auto it = txs.find(w[1]);
            if (it == txs.end()) throw std::runtime_error("BADSCRIPT");
            pool().PrioritiseTransaction(it->second.tx->GetHash(), vd::ll(w[2]));
            return tail("p " + w[1] + " " + w[2]);
        }
        if (o == "template" && w.size() == 5) return make_template(w);
        throw std::runtime_error("BADSCRIPT");
    }

    std::string make_template(const std::vector<std::string>& w)
    {
        node::BlockCreateOptions opt;
        opt.block_max_weight = vd::ull(w[1]);
        opt.block_reserved_weight = vd::ull(w[2]);
        opt.block_min_fee_rate = CFeeRate{(CAmount)vd::ll(w[3])};
        opt.coinbase_output_max_additional_sigops = vd::ull(w[4]);
        opt.test_block_validity = false;
        opt.coinbase_output_script = CScript() << OP_TRUE;
        std::unique_ptr<node::CBlockTemplate> tmpl;
        Chainstate& cs = cm().ActiveChainstate();
        try {
            node::BlockAssembler ba{cs, &pool(), opt};
            tmpl = ba.CreateNewBlock();
        } catch (const std::runtime_error& e) {
            std::string m = e.what();
            for (char& c : m) if (c == ' ' || c == '|' || c == ';') c = '_';
            return tail("T err " + m.substr(0, 60));
        }
        const CBlock& blk = tmpl->block;
        std::vector<std::string> sel;
        std::set<Txid> selset;
        for (size_t i = 1; i < blk.vtx.size(); ++i) { sel.push_back(name_of(blk.vtx[i]->GetHash())); selset.insert(blk.vtx[i]->GetHash()); }
        CAmount cbv = 0;
        for (const CTxOut& o : blk.vtx[0]->vout) cbv += o.nValue;
        CAmount feesum = 0;
        for (CAmount f : tmpl->vTxFees) feesum += f;
        int64_t sigsum = 0;
        for (int64_t s : tmpl->vTxSigOpsCost) sigsum += s;
        std::string verdict;
        int height;
        CAmount subsidy;
        int64_t mtp;
        {
            LOCK(cs_main);
            verdict = canon_block_reason(TestBlockValidity(cs, blk, /*check_pow=*/false, /*check_merkle_root=*/false));
            height = cs.m_chain.Height() + 1;
            subsidy = GetBlockSubsidy(height, cm().GetConsensus());
            mtp = cs.m_chain.Tip()->GetMedianTimePast();
        }
        // the chunk sequence the assembler saw: replay the builder, including exactly the chunks that are in the template
        std::vector<std::string> chunks;
        {
            LOCK2(cs_main, pool().cs);
            pool().StartBlockBuilding();
            for (;;) {
                std::vector<CTxMemPoolEntry::CTxMemPoolEntryRef> ents;
                FeePerWeight fr = pool().GetBlockBuilderChunk(ents);
                if (ents.empty()) break;
                bool all = true;
                std::vector<std::string> ns;
                for (const auto& e : ents) {
                    const CTxMemPoolEntry& en = e.get();
                    if (!selset.count(en.GetTx().GetHash())) all = false;
                    ns.push_back(name_of(en.GetTx().GetHash()) + "~" + std::to_string(en.GetTxWeight()) + "~" + std::to_string(en.GetSigOpCost()) + "~" + std::to_string(en.GetFee()));
                }
                chunks.push_back(std::to_string(fr.fee) + ":" + std::to_string(fr.size) + ":" + join(ns, "."));
                if (all) pool().IncludeBuilderChunk(); else pool().SkipBuilderChunk();
            }
            pool().StopBlockBuilding();
        }
        std::string obs = "T ok sel=" + join(sel, ",") + " bw=" + std::to_string(GetBlockWeight(blk)) + " cbv=" + std::to_string(cbv) +
                          " fees=" + std::to_string(feesum) + " sig=" + std::to_string(sigsum) + " valid=" + verdict +
                          " hgt=" + std::to_string(height) + " sub=" + std::to_string(subsidy) + " cut=" + std::to_string(mtp - T0) +
                          " bt=" + std::to_string((int64_t)blk.nTime - T0) + " K=" + join(chunks, "/");
        return tail(obs);
    }

    std::string init_token()
    {
        LOCK(cs_main);
        const CChain& ch = cm().ActiveChain();
        std::vector<std::string> ts;
        for (int h = 0; h <= ch.Height(); ++h) ts.push_back(std::to_string(ch[h]->GetBlockTime() - T0));
        return "init h=" + std::to_string(ch.Height()) + " t0=" + std::to_string(T0) + " now=" + std::to_string(GetTime() - T0) + " times=" + join(ts, ",");
    }
};

// Runs one case; `emit` is called with each piece of output as soon as it exists (so a crash keeps the prefix).
// Returns false when the process must not run another case (the mempool checker aborted and was interrupted).
bool run_case(const std::string& line, const std::function<void(const std::string&)>& emit)
{
    std::vector<std::string> ops = split(line, ';');
    std::vector<std::string> cfg;
    size_t start = 0;
    if (!ops.empty()) {
        auto w0 = vd::words(ops[0]);
        if (!w0.empty() && w0[0] == "cfg") { cfg = w0; start = 1; }
    }
    std::unique_ptr<Run> run;
    try { run = std::make_unique<Run>(cfg); } catch (const std::exception&) { emit("BADSCRIPT"); return true; }
    emit(run->init_token());
    size_t last = start;
    for (size_t i = start; i < ops.size(); ++i) { auto w = vd::words(ops[i]); if (!w.empty() && w[0] != "tx") last = i; }
    for (size_t i = start; i < ops.size(); ++i) {
        auto w = vd::words(ops[i]);
        if (w.empty()) continue;
        std::string r;
        try {
            if (w[0] == "tx") { run->def_tx(w); continue; }
            // the whole-pool block is validated after everything that moves the chain, the clock or evicts, and at the end
            run->want_blk = i == last || !(w[0] == "atmp" || w[0] == "test" || w[0] == "prio" || w[0] == "template");
            r = run->op(w);
        } catch (const std::exception& e) {
            std::string m = e.what();
            if (m == "BADSCRIPT" || dynamic_cast<const std::out_of_range*>(&e) || dynamic_cast<const std::invalid_argument*>(&e)) { emit(" | BADSCRIPT"); break; }
            for (char& c : m) if (c == '|' || c == ';') c = '_';
            emit(" | EXC " + m.substr(0, 80));
            break;
        }
        emit(" | " + r);
        if (run->poisoned) return false;
    }
    run->sync();
    run->setup->m_node.validation_signals->UnregisterSharedValidationInterface(run->events);
    return true;
}

void cleanup_dir()
{
    std::error_code ec;
    std::filesystem::remove_all(std::filesystem::temp_directory_path() / "test_common bitcoin" / G_TEST_GET_FULL_NAME(), ec);
}
} // namespace

int main(int argc, char** argv)
{
    std::vector<std::string> lines;
    std::string line;
    while (std::getline(std::cin, line)) lines.push_back(line);
    const size_t n = lines.size();
    if (n == 0) return 0;
    size_t workers = std::min<size_t>(12, std::max<size_t>(1, n / 2));
    if (const char* e = getenv("VERIF_MEMPOOL_WORKERS")) workers = std::max(1, atoi(e));
    // No thread and no fixture exists yet: fork is safe.  A worker handles its cases in order; for each case it
    // appends "#<index>\n", then the pieces of the output line, then "\n#end\n" to its file.  If it dies (an assertion
    // of the node fires) the unfinished case is reported with what it had printed plus "| CRASH" and a new worker
    // takes over the rest.
    std::string base = "/tmp/verif_mempool_" + std::to_string(getpid()) + "_";
    std::vector<std::string> result(n);
    std::vector<std::vector<size_t>> batches(workers);
    for (size_t i = 0; i < n; ++i) batches[i % workers].push_back(i);
    int round = 0;
    while (!batches.empty()) {
        std::vector<pid_t> pids;
        for (size_t k = 0; k < batches.size(); ++k) {
            pid_t p = fork();
            if (p < 0) { perror("fork"); return 2; }
            if (p == 0) {
                int fd = open("/dev/null", O_WRONLY);
                if (fd >= 0) dup2(fd, 2);
                std::ofstream f(base + std::to_string(k));
                for (size_t i : batches[k]) {
                    f << "#" << i << "\n";
                    f.flush();
                    bool cont = run_case(lines[i], [&](const std::string& s) { f << s; f.flush(); });
                    f << "\n#end\n";
                    f.flush();
                    if (!cont) { f.close(); _exit(3); }
                }
                f.close();
                cleanup_dir();
                _exit(0);
            }
            pids.push_back(p);
        }
        for (pid_t p : pids) { int st = 0; waitpid(p, &st, 0); }
        std::vector<std::vector<size_t>> next;
        for (size_t k = 0; k < batches.size(); ++k) {
            std::ifstream f(base + std::to_string(k));
            std::string l;
            size_t j = 0;
            bool open_case = false;
            std::string cur;
            while (std::getline(f, l)) {
                if (!open_case) {
                    if (!l.empty() && l[0] == '#' && l != "#end") { open_case = true; cur.clear(); }
                    continue;
                }
                if (l == "#end") { result[batches[k][j++]] = cur; open_case = false; continue; }
                cur += l;
            }
            f.close();
            std::remove((base + std::to_string(k)).c_str());
            if (j < batches[k].size()) {
                // the worker stopped: inside a case (the node aborted) or between cases (it asked to be replaced)
                if (open_case) { result[batches[k][j]] = (cur.empty() ? std::string("init") : cur) + " | CRASH"; ++j; }
                std::vector<size_t> rest(batches[k].begin() + j, batches[k].end());
                if (!rest.empty()) next.push_back(rest);
            }
        }
        batches = next;
        if (++round > 100000) break;
    }
    for (size_t i = 0; i < n; ++i) std::cout << result[i] << "\n";
    std::cout.flush();
    return 0;
}
