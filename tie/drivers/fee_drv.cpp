// C++ side of the Fee family (C30): calls the real FeeFrac / ByRatio / ByRatioNegSize / CompareChunks /
// CFeeRate functions of the current tree.  MulFallback and DivFallback are public static members
// (kept separate in feefrac.h so they can be tested on platforms with __int128), so both the native and
// the portable path are exercised here.
#include <drv_common.h>
#include <policy/feerate.h>
#include <util/feefrac.h>
#include <compare>
#include <limits>
#include <vector>

#ifndef __SIZEOF_INT128__
#error "this driver prints FeeFrac::Mul as __int128"
#endif

static std::string i128_str(__int128 v)
{
    if (v == 0) return "0";
    bool neg = v < 0;
    unsigned __int128 u = neg ? -(unsigned __int128)v : (unsigned __int128)v;
    std::string s;
    while (u) { s.insert(s.begin(), char('0' + (int)(u % 10))); u /= 10; }
    return neg ? "-" + s : s;
}
static const char* so_str(std::strong_ordering o) { return o < 0 ? "lt" : (o > 0 ? "gt" : "eq"); }
static const char* po_str(std::partial_ordering o)
{
    if (o == std::partial_ordering::less) return "lt";
    if (o == std::partial_ordering::greater) return "gt";
    if (o == std::partial_ordering::equivalent) return "eq";
    return "un";
}
static int32_t i32(const std::string& s)
{
    long long v = vd::ll(s);
    if (v < std::numeric_limits<int32_t>::min() || v > std::numeric_limits<int32_t>::max()) throw std::runtime_error("int32 range");
    return (int32_t)v;
}
static std::string b(bool x) { return x ? "1" : "0"; }

int main(int argc, char** argv)
{
    return vd::main_loop([&](const std::vector<std::string>& w, const std::string&) -> std::string {
        if (w.size() == 3 && w[0] == "mul") {
            int64_t a = vd::ll(w[1]); int32_t bb = i32(w[2]);
            auto p = FeeFrac::MulFallback(a, bb);
            return std::to_string(p.first) + " " + std::to_string(p.second) + " " + i128_str(FeeFrac::Mul(a, bb));
        }
        if (w.size() == 5 && w[0] == "div") {
            int64_t hi = vd::ll(w[1]); uint32_t lo = (uint32_t)vd::ull(w[2]); int32_t d = i32(w[3]); bool down = w[4] == "1";
            __int128 n = (__int128)hi * ((__int128)1 << 32) + lo;
            return std::to_string(FeeFrac::DivFallback({hi, lo}, d, down)) + " " + std::to_string(FeeFrac::Div(n, d, down));
        }
        if (w.size() == 5 && w[0] == "eval") {
            int64_t fee = vd::ll(w[1]); int32_t size = i32(w[2]); int32_t at = i32(w[3]); bool down = w[4] == "1";
            FeeFrac f{fee, size};
            int64_t ev = down ? f.EvaluateFeeDown(at) : f.EvaluateFeeUp(at);
            int64_t slow = FeeFrac::Div(FeeFrac::Mul(fee, at), size, down);
            int64_t fb = FeeFrac::DivFallback(FeeFrac::MulFallback(fee, at), size, down);
            return std::to_string(ev) + " " + std::to_string(slow) + " " + std::to_string(fb);
        }
        if (w.size() == 5 && w[0] == "cmp") {
            FeeFrac a{(int64_t)vd::ll(w[1]), i32(w[2])}, c{(int64_t)vd::ll(w[3]), i32(w[4])};
            ByRatio ra{a}, rc{c};
            ByRatioNegSize na{a}, nc{c};
            auto fbcmp = FeeFrac::MulFallback(a.fee, c.size) <=> FeeFrac::MulFallback(c.fee, a.size);
            std::string out = so_str(ra <=> rc);
            out += " " + b(ra == rc) + " " + b(ra < rc) + " " + b(ra > rc) + " " + b(ra <= rc) + " " + b(ra >= rc);
            out += std::string(" ") + so_str(na <=> nc) + " " + b(na == nc);
            out += std::string(" ") + so_str(fbcmp);
            return out;
        }
        if (w.size() >= 3 && w[0] == "chunks") {
            size_t i = 1;
            std::vector<FeeFrac> c[2];
            for (int k = 0; k < 2; ++k) {
                size_t n = std::stoul(w.at(i++));
                for (size_t j = 0; j < n; ++j) { int64_t f = vd::ll(w.at(i)); int32_t s = i32(w.at(i + 1)); i += 2; c[k].emplace_back(f, s); }
            }
            if (i != w.size()) return "BADCASE";
            return po_str(CompareChunks(c[0], c[1]));
        }
        if (w.size() == 4 && w[0] == "getfee") {
            int64_t fee = vd::ll(w[1]); int32_t size = i32(w[2]); int32_t at = i32(w[3]);
            CFeeRate r(fee, size);
            std::string perk = r.GetFeePerVSize().IsEmpty() ? "empty" : std::to_string(r.GetFeePerK());
            return std::to_string(r.GetFee(at)) + " " + perk;
        }
        return "BADCASE";
    });
}
